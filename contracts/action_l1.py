"""C12 (L1 part): the statements issued by the real elaborate() of the field actions, for EVERY shape / width / initial value (pyvc with
recording hardware stubs; RW1C and RW1S: one arbitrary bit i of a storage of any width).
  R      port.r_data := r_data,  r_stb := port.r_stb                              (comb, nothing else)
  W      w_data := port.w_data,  w_stb := port.w_stb                              (comb, nothing else)
  RW     If(port.w_stb): storage := port.w_data (sync);  port.r_data := storage, data := storage (comb)
  RW1C   per bit i, IN THIS ORDER:  If(port.w_stb & w_data[i]): storage[i] := 0;  If(set[i]): storage[i] := 1   (sync: the later
         statement wins, so setting wins a tie);  then port.r_data := storage, data := storage
  RW1S   per bit i, IN THIS ORDER:  If(clear[i]): storage[i] := 0;  If(port.w_stb & w_data[i]): storage[i] := 1;  then the same two
  every bit gets its own pair of statements on its own index (w_data[i], set[i] / clear[i], storage bit i) and nothing else is issued
What the statements mean over time (last assignment wins, untouched bits keep their value) is Amaranth's semantics: assumed here, proved
per shape from the netlist by the hdlvc clauses rw_next / rw1c_next / rw1s_next of C12.
"""
import ast
import z3
from vf.pyvc.engine import Exec, Path, SymObj, Opaque, NONE, Tup, find_def, Unsupported
from vf.pyvc.driver import FnVerifier
from . import hdlrec
from .hdlrec import Expr, same_expr

FILE = "amaranth_soc/csr/action.py"
BIT = z3.Int("bit_i")


def _setup(cls):
    fv = FnVerifier(f"csr.action.{cls}.elaborate", [BIT >= 0])
    fn = find_def(FILE, f"{cls}.elaborate")
    ex = Exec(FILE, cls, axioms=[BIT >= 0])
    log = hdlrec.Log()
    m, values = hdlrec.module(log)
    ex.contracts["Module"] = lambda ex_, recv, a, kw, q, node: [(m, q)]
    # Value.cast(x): the same bits as a plain value (shapes with a view class) - identity on the recorded expression
    ex.contracts["Value.cast"] = lambda ex_, recv, a, kw, q, node: [(a[0], q)]
    self_ = SymObj(cls, "self")
    port = SymObj("FieldPort", "self.port")
    for nm in ("r_data", "r_stb", "w_data", "w_stb"):
        port.init_fields[nm] = hdlrec.signal(values, "port." + nm)
    self_.init_fields["port"] = port
    for nm in ("r_data", "r_stb", "w_data", "w_stb", "data", "set", "clear", "_storage"):
        self_.init_fields[nm] = hdlrec.signal(values, nm)
    return fv, fn, ex, log, m, values, self_


def _check(fv, lab, e, spec):
    nm, dom, dst, src, ctx = spec
    fv.add(nm, lab, e["path"].pc, z3.And(z3.BoolVal(e["domain"] == dom and len(e["ctx"]) == len(ctx)), same_expr(e["dst"], dst), same_expr(e["src"], src),
                                         *[z3.And(z3.BoolVal(c1[0] == c2[0]), same_expr(c1[1], c2[1])) for c1, c2 in zip(e["ctx"], ctx)]))


def _finish(fv, ex, outs, log, m, per_bit_ranges, exp_outer):
    fv.paths = len(outs)
    for k, o in enumerate(outs):
        fv.add("no-exception", f"path{k}", o.path.pc, z3.BoolVal(o.kind == "return"))
        fv.add("returns-the-module", f"path{k}", o.path.pc, z3.BoolVal(o.kind == "return" and o.value is m))
    inside = set()
    for lo, hi in per_bit_ranges:
        inside |= set(range(lo, hi))
    outer = [e for k, e in enumerate(log.entries) if k not in inside and e["kind"] == "assign"]
    fv.add("nothing-else-outside-the-bit-loop", "outer", [], z3.BoolVal(len(outer) == len(exp_outer)))
    if len(outer) == len(exp_outer):
        for spec, e in zip(exp_outer, outer):
            _check(fv, "outer", e, spec)
    fv.add("no-submodule", "outer", [], z3.BoolVal(not [e for e in log.entries if e["kind"] == "submodule"]))
    from .hdlrec import stores_nothing_on_the_component as _frame
    _frame(fv, ex)
    fv.add_engine_obligations(ex)
    return fv


S = lambda n: Expr("sig", n)
zero, one = Expr("const", z3.IntVal(0)), Expr("const", z3.IntVal(1))
READBACK = [("bus-read-returns-the-storage", "comb", S("port.r_data"), S("_storage"), ()),
            ("data-output-is-the-storage", "comb", S("data"), S("_storage"), ())]


def verify_simple(cls):
    fv, fn, ex, log, m, values, self_ = _setup(cls)
    q = Path(); q.env.update({"self": self_, "platform": Opaque("platform")})
    outs = ex.run(fn, q)
    exp = {"R": [("read-data-passed-to-the-bus", "comb", S("port.r_data"), S("r_data"), ()),
                 ("read-strobe-passed-from-the-bus", "comb", S("r_stb"), S("port.r_stb"), ())],
           "W": [("write-data-passed-from-the-bus", "comb", S("w_data"), S("port.w_data"), ()),
                 ("write-strobe-passed-from-the-bus", "comb", S("w_stb"), S("port.w_stb"), ())],
           "RW": [("storage-takes-the-written-value", "sync", S("_storage"), S("port.w_data"), (("If", S("port.w_stb")),))] + READBACK}[cls]
    return _finish(fv, ex, outs, log, m, [], exp)


def verify_per_bit(cls):
    fv, fn, ex, log, m, values, self_ = _setup(cls)
    marks = {}

    def loop(ex_, st_node, path):
        it = ast.unparse(st_node.iter)
        if it != "enumerate(storage)":
            ex_.unsupported(st_node, f"loop over {it}")
        src = path.env.get("storage")
        ex_.oblige("bit-loop-runs-over-the-storage", path, z3.BoolVal(src is self_.init_fields["_storage"]), st_node)
        body = path.fork()
        lo = len(log.entries)
        out = []
        bit = values.wrap(Expr("bit", S("_storage"), BIT))
        for kind, _, q2 in ex_.assign(st_node.target, Tup((BIT, bit)), body, st_node):
            for kind2, val2, q3 in ex_.block(st_node.body, q2):
                if kind2 in ("fall", "continue"):
                    marks.setdefault("ends", []).append((q3, lo, len(log.entries)))
                elif kind2 in ("break", "return"):
                    ex_.oblige("every-bit-is-visited:no-early-exit-from-the-bit-loop", q3, z3.BoolVal(False), st_node)
                else:
                    out.append((kind2, val2, q3))
        out.append(("fall", None, path))
        return out

    class _Every(dict):
        def get(self, key, default=None):
            return loop
    ex.loop_invariants = _Every()
    q = Path(); q.env.update({"self": self_, "platform": Opaque("platform")})
    outs = ex.run(fn, q)
    sbit = Expr("bit", S("_storage"), BIT)
    wr = ("If", Expr("op", "BitAnd", (S("port.w_stb"), Expr("bit", S("port.w_data"), BIT))))
    if cls == "RW1C":
        exp = [("bit-cleared-by-writing-a-one", "sync", sbit, zero, (wr,)),
               ("bit-set-by-its-set-input-AFTER-the-clear(setting-wins)", "sync", sbit, one, (("If", Expr("bit", S("set"), BIT)),))]
    else:
        exp = [("bit-cleared-by-its-clear-input", "sync", sbit, zero, (("If", Expr("bit", S("clear"), BIT)),)),
               ("bit-set-by-writing-a-one-AFTER-the-clear(setting-wins)", "sync", sbit, one, (wr,))]
    ranges = []
    for qend, lo, hi in marks.get("ends", []):
        ranges.append((lo, hi))
        mine = [e for e in log.entries[lo:hi] if e["kind"] == "assign"]
        fv.add("nothing-else-per-bit", "bit", qend.pc, z3.BoolVal(len(mine) == len(exp)))
        if len(mine) == len(exp):
            for spec, e in zip(exp, mine):
                _check(fv, "bit", e, spec)
    fv.add("cover:one-bit-iteration", "vacuity", [], z3.BoolVal(len(ranges) >= 1))
    return _finish(fv, ex, outs, log, m, ranges, READBACK)


def verify_reserved():
    """the four reserved actions (ResRAW0 / ResRAWL / ResR0WA / ResR0W0) share _Reserved.elaborate: an EMPTY module - no statement in
    any domain, no submodule, nothing stored (the field neither drives its port nor keeps state; what the register reads there is 0)"""
    fv, fn, ex, log, m, values, self_ = _setup("_Reserved")
    q = Path(); q.env.update({"self": self_, "platform": Opaque("platform")})
    outs = ex.run(fn, q)
    fv.add("cover:returns", "vacuity", [], z3.BoolVal(len(outs) >= 1))
    return _finish(fv, ex, outs, log, m, [], [])


def verify_init(cls):
    """the constructors, for EVERY shape and initial value: the shape goes unchanged to FieldAction.__init__ together with the class's access
    mode (R: r, W: w, RW / RW1C / RW1S: rw, reserved: nc); the extra members have the documented names, each with that very shape (strobes: 1
    bit); the storing actions build ONE storage signal with the shape and the `init` argument as given (so the reset value is `init`)"""
    from vf.pyvc.engine import DictLit, Raised
    fv = FnVerifier(f"csr.action.{cls}.__init__", [])
    fn = find_def(FILE, f"{cls}.__init__")
    ex = Exec(FILE, cls, axioms=[])
    shape, init = Opaque("shape argument"), Opaque("init argument")
    sup, sigs = [], []
    ex.contracts["In"] = lambda ex_, recv, a, k, q, node: [(("In", a[0]), q)]
    ex.contracts["Out"] = lambda ex_, recv, a, k, q, node: [(("Out", a[0]), q)]
    ex.contracts["super"] = lambda ex_, recv, a, k, q, node: [(Opaque("super()"), q)]

    def c_super_init(ex_, recv, a, k, q, node):
        sup.append((tuple(a), dict(k)))
        return [(NONE, q), (Raised("refused-by-FieldAction.__init__"), q.fork())]
    ex.contracts["super().__init__"] = c_super_init

    def c_signal(ex_, recv, a, k, q, node):
        obj = SymObj("Signal", "storage")
        sigs.append((tuple(a), dict(k), obj))
        return [(obj, q)]
    ex.contracts["Signal"] = c_signal
    self_ = SymObj(cls, "self")
    stores = cls in ("RW", "RW1C", "RW1S")
    q = Path(); q.env.update({"self": self_, "shape": shape})
    if stores:
        q.env["init"] = init
    outs = ex.run(fn, q)
    fv.paths = len(outs)
    want_access = {"R": "r", "W": "w", "RW": "rw", "RW1C": "rw", "RW1S": "rw", "_Reserved": "nc"}[cls]
    want_members = {"R": {"r_data": ("In", shape), "r_stb": ("Out", 1)}, "W": {"w_data": ("Out", shape), "w_stb": ("Out", 1)},
                    "RW": {"data": ("Out", shape)}, "RW1C": {"data": ("Out", shape), "set": ("In", shape)},
                    "RW1S": {"data": ("Out", shape), "clear": ("In", shape)}, "_Reserved": {}}[cls]
    n_ok = 0
    for k, o in enumerate(outs):
        p, lab = o.path, f"path{k}"
        if o.kind == "raise":
            fv.add("the-constructor-itself-refuses-nothing", lab, p.pc, z3.BoolVal(o.exc.startswith("refused-by-")))
            continue
        n_ok += 1
    fv.add("FieldAction.__init__-called-once", "all", [], z3.BoolVal(len(sup) == 1))
    if len(sup) == 1:
        a, kw = sup[0]
        acc = kw.get("access", a[1] if len(a) > 1 else None)
        fv.add("shape-handed-over-unchanged", "all", [], z3.BoolVal((a[:1] == (shape,)) or kw.get("shape") is shape))
        fv.add(f"access-mode-is-{want_access}", "all", [], z3.BoolVal(isinstance(acc, Opaque) and acc.what == f"str:{want_access}"))
        mem = kw.get("members", a[2] if len(a) > 2 else None)
        got = mem.items if isinstance(mem, DictLit) else ({} if mem is None and not want_members else None)
        fv.add("extra-members-are-a-literal-table", "all", [], z3.BoolVal(got is not None))
        if got is not None:
            fv.add("exactly-the-documented-extra-members", "all", [], z3.BoolVal(set(got) == set(want_members)))
            for nm, (direction, sh) in want_members.items():
                g = got.get(nm)
                ok = isinstance(g, tuple) and len(g) == 2 and g[0] == direction and \
                    ((g[1] is shape) if sh is shape else (isinstance(g[1], (z3.ArithRef, int)) and z3.is_true(z3.simplify(ex.toint(g[1]) == sh))))
                fv.add(f"member:{nm}", "all", [], z3.BoolVal(bool(ok)))
    if stores:
        ok = len(sigs) == 1 and sigs[0][0] == (shape,) and set(sigs[0][1]) == {"init"} and sigs[0][1]["init"] is init
        fv.add("one-storage-signal-with-the-shape-and-the-init-value-as-given", "all", [], z3.BoolVal(bool(ok)))
        for k, o in enumerate(outs):
            if o.kind != "raise":
                kept = [v for k_, v in o.path.heap.items() if k_[0] == id(self_)]
                fv.add("storage-kept-on-the-action", f"path{k}", o.path.pc, z3.BoolVal(len(sigs) == 1 and any(v is sigs[0][2] for v in kept)))
    else:
        fv.add("no-storage", "all", [], z3.BoolVal(not sigs))
    fv.add("cover:accepting-paths", "vacuity", [], z3.BoolVal(n_ok >= 1))
    fv.add_engine_obligations(ex)
    return fv


INITS = [lambda c=c: verify_init(c) for c in ("R", "W", "RW", "RW1C", "RW1S", "_Reserved")]
ALL = INITS + [verify_reserved, lambda: verify_simple("R"), lambda: verify_simple("W"), lambda: verify_simple("RW"), lambda: verify_per_bit("RW1C"), lambda: verify_per_bit("RW1S")]
