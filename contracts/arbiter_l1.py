"""C09 (L1 part): the grant logic issued by the real wishbone.Arbiter.elaborate(), for EVERY number of initiators N (pyvc with
recording hardware stubs, contracts/hdlrec.py).

What is proved about the source, for symbolic N and symbolic owner g (one arbitrary iteration of each loop):
  grant-statement[pred] / [succ]   inside  If(~bus_busy) > Switch(grant) > Case(g)  the loops issue exactly the statements
                                   `If(requests[v]): sync grant := v`  for v = g-1 .. 0  and then  v = N-1 .. g+1
  position-in-program-order        the statement for v is issued at position pos(N, g, v) (Arbiter.lean `pos`): predecessors first,
                                   descending; then successors, descending
  every-other-initiator-covered    every v in [0, N) other than g gets such a statement (the loop bounds reach it)
  busy-condition                   bus_busy is bus.cyc, and with the LOCK feature bus.cyc & (bus.lock | bus.stb)
  grant-assigned-nowhere-else      (AST) `grant.eq(...)` occurs only in those two loops
With Amaranth's rule that the LAST assignment whose conditions hold determines the next value of a register (assumed; validated
per N by the hdlvc clause next_owner_closest), Arbiter.lean `last_wins_is_next` gives for all N: the next owner is the
requesting initiator closest after g in cyclic order, and `nobody_else_no_assignment`: the owner stays when nobody else requests.
"""
import ast
import z3
from vf.pyvc.engine import Exec, Path, SymObj, Dyn, Opaque, NONE, Raised, Tup, Rng, find_def, Unsupported
from vf.pyvc.driver import FnVerifier
from . import hdlrec
from .hdlrec import Expr, same_expr

FILE = "amaranth_soc/wishbone/bus.py"
N, G = z3.Ints("n_initiators owner_g")
AX = [N >= 1, G >= 0, G < N]


def pos(v):
    return z3.If(v < G, G - 1 - v, G + (N - 1 - v))


def verify_arbiter_grant():
    fv = FnVerifier("wishbone.bus.Arbiter.elaborate[grant]", AX)
    fn = find_def(FILE, "Arbiter.elaborate")
    has_lock_cases = (True, False)
    n_stmts = 0
    for has_lock in has_lock_cases:
        ex = Exec(FILE, "Arbiter", axioms=AX)
        log = hdlrec.Log()
        m, values = hdlrec.module(log)
        ex.contracts["Module"] = lambda ex_, recv, a, kw, q, node, m=m: [(m, q)]
        made = []

        def c_signal(ex_, recv, a, kw, q, node):
            name = ["requests", "grant"][len(made)] if len(made) < 2 else f"signal{len(made)}"
            s = hdlrec.signal(values, name, width=N if name == "requests" else None)
            made.append(s)
            return [(s, q)]
        ex.contracts["Signal"] = c_signal
        ex.contracts["Cat"] = lambda ex_, recv, a, kw, q, node: [(values.wrap(Expr("cat", "all initiators' cyc")), q)]
        bus = SymObj("Interface", "self.bus")
        for nm in ("cyc", "stb", "lock", "ack", "dat_r", "adr", "dat_w", "sel", "we"):
            bus.init_fields[nm] = hdlrec.signal(values, "bus." + nm)

        def c_hasattr(ex_, recv, a, kw, q, node):
            o, f = a
            if o is bus and isinstance(f, Opaque) and f.what == "str:lock":
                return [(z3.BoolVal(has_lock), q)]
            raise Unsupported(f"hasattr({o!r}, {f!r})")
        ex.contracts["hasattr"] = c_hasattr

        class IntrList:
            def length(self, ex_, recv, q, node):
                return N
        self_ = SymObj("Arbiter", "self")
        self_.init_fields.update({"bus": bus, "_intrs": SymObj("list", "self._intrs", model=IntrList())})

        def loop(ex_, st_node, path):
            it = ast.unparse(st_node.iter)
            out = []
            if it == "range(len(requests))":
                body = path.fork(); body.env = dict(body.env); body.env[st_node.target.id] = G
                for kind, val, q2 in ex_.block(st_node.body, body):
                    if kind not in ("fall", "continue"):
                        out.append((kind, val, q2))
                out.append(("fall", None, path)); return out
            if it == "reversed(range(i))":
                j = z3.FreshInt("j_pred")
                body = path.fork(); body.assume(z3.And(0 <= j, j < G))
                body.env = dict(body.env); body.env[st_node.target.id] = G - 1 - j
                body.ghost["time"] = j
                body.ghost["which"] = "pred"
                for kind, val, q2 in ex_.block(st_node.body, body):
                    if kind not in ("fall", "continue"):
                        out.append((kind, val, q2))
                out.append(("fall", None, path)); return out
            if it == "reversed(range(i + 1, len(requests)))":
                j = z3.FreshInt("j_succ")
                body = path.fork(); body.assume(z3.And(0 <= j, j < N - 1 - G))
                body.env = dict(body.env); body.env[st_node.target.id] = N - 1 - j
                body.ghost["time"] = G + j
                body.ghost["which"] = "succ"
                for kind, val, q2 in ex_.block(st_node.body, body):
                    if kind not in ("fall", "continue"):
                        out.append((kind, val, q2))
                out.append(("fall", None, path)); return out
            if it == "enumerate(self._intrs)":
                # the request / response fan-out of the second Switch: not part of this contract (C08, per configuration)
                path.ghost["skipped_fanout_loop"] = True
                return [("fall", None, path)]
            ex_.unsupported(st_node, f"loop over {it}")

        class _Every(dict):
            def get(self, key, default=None):
                return loop
        ex.loop_invariants = _Every()
        # the ghost time of the enclosing loop iteration travels with the path: attach it when a statement is logged
        orig_add = log.add

        def add(q, **kw):
            kw["time"] = q.ghost.get("time"); kw["which"] = q.ghost.get("which")
            orig_add(q, **kw)
        log.add = add
        q = Path()
        q.env.update({"self": self_, "platform": Opaque("platform")})
        outs = ex.run(fn, q)
        fv.paths += len(outs)
        lab0 = "lock-feature" if has_lock else "no-lock-feature"
        for k, o in enumerate(outs):
            fv.add("no-exception", f"{lab0}:path{k}", o.path.pc, z3.BoolVal(o.kind == "return"))
        requests, grant = made[0].expr, made[1].expr
        cyc, lock, stb = (bus.init_fields[x].expr for x in ("cyc", "lock", "stb"))
        busy = Expr("op", "BitAnd", (cyc, Expr("op", "BitOr", (lock, stb)))) if has_lock else cyc
        not_busy = Expr("op", "Invert", (busy,))
        grants = [e for e in log.entries if e["kind"] == "assign" and same_expr(e["dst"], grant) is not False
                  and isinstance(e["dst"], Expr) and e["dst"].t == grant.t]
        for e in grants:
            n_stmts += 1
            lab = f"{lab0}:{e['which']}:stmt{e['seq']}"
            v = e["src"].t[1] if isinstance(e["src"], Expr) and e["src"].t[0] == "const" else None
            ctx = e["ctx"]
            shape = len(ctx) == 4 and [c[0] for c in ctx] == ["If", "Switch", "Case", "If"] and v is not None and e["domain"] == "sync"
            fv.add(f"grant-statement[{e['which']}]-has-the-expected-shape", lab, e["path"].pc, z3.BoolVal(bool(shape)))
            if not shape:
                continue
            fv.add("busy-condition", lab, e["path"].pc, same_expr(ctx[0][1], not_busy))
            fv.add("switch-is-on-grant-and-case-is-the-owner", lab, e["path"].pc,
                   z3.And(same_expr(ctx[1][1], grant), same_expr(ctx[2][1], (Expr("const", G),))))
            fv.add("assigns-the-initiator-whose-request-is-tested", lab, e["path"].pc, same_expr(ctx[3][1], Expr("bit", requests, v)))
            fv.add("candidate-is-another-initiator", lab, e["path"].pc, z3.And(0 <= v, v < N, v != G,
                                                                                 (v < G) if e["which"] == "pred" else (v > G)))
            fv.add("position-in-program-order", lab, e["path"].pc, e["time"] == pos(v))
        # coverage: every v != g in [0, N) is reached by one of the two loops (its iteration index lies within the loop bounds)
        v = z3.Int("v_any")
        fv.add("every-other-initiator-covered", lab0, [0 <= v, v < N, v != G],
               z3.If(v < G, z3.And(0 <= G - 1 - v, G - 1 - v < G), z3.And(0 <= N - 1 - v, N - 1 - v < N - 1 - G)))
        fv.add("cover:both-loops-issue-a-statement", lab0, [], z3.BoolVal({e["which"] for e in grants} == {"pred", "succ"}))
        fv.add_engine_obligations(ex)
    # AST: grant is assigned nowhere else
    others = []
    for node in ast.walk(fn):
        if isinstance(node, ast.Call) and isinstance(node.func, ast.Attribute) and node.func.attr == "eq" and ast.unparse(node.func.value) == "grant":
            par = [p for p in ast.walk(fn) if isinstance(p, ast.For) and any(c is node for c in ast.walk(p))]
            its = {ast.unparse(p.iter) for p in par}
            if not ({"reversed(range(i))", "reversed(range(i + 1, len(requests)))"} & its):
                others.append(node.lineno)
    fv.add("grant-assigned-nowhere-else", "ast", [], z3.BoolVal(not others))
    return fv


ALL = [verify_arbiter_grant]
