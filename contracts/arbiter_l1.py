"""C09 (L1 part): the grant logic issued by the real wishbone.Arbiter.elaborate(), for EVERY number of initiators N (pyvc with
recording hardware stubs, contracts/hdlrec.py).

What is proved about the source, for symbolic N and symbolic owner g (one arbitrary iteration of each loop):
  grant-statement[pred] / [succ]   inside  If(~bus_busy) > Switch(grant) > Case(g)  the loops issue exactly the statements
                                   `If(requests[v]): sync grant := v`  for v = g-1 .. 0  and then  v = N-1 .. g+1
  position-in-program-order        the statement for v is issued at position pos(N, g, v) (Arbiter.lean `pos`): predecessors first,
                                   descending; then successors, descending
  every-other-initiator-covered    every v in [0, N) other than g gets such a statement (the loop bounds reach it)
  busy-condition                   bus_busy is bus.cyc, and with the LOCK feature bus.cyc & (bus.lock | bus.stb)
  grant-assigned-nowhere-else      (AST) `grant.eq(...)` occurs only in those two loops
With Amaranth's rule that the LAST assignment whose conditions hold determines the next value of a register (assumed; validated
per N by the hdlvc clause next_owner_closest), Arbiter.lean `last_wins_is_next` gives for all N: the next owner is the
requesting initiator closest after g in cyclic order, and `nobody_else_no_assignment`: the owner stays when nobody else requests.
"""
import ast
import z3
from vf.pyvc.engine import Exec, Path, SymObj, Dyn, Opaque, NONE, Raised, Tup, Rng, find_def, Unsupported
from vf.pyvc.driver import FnVerifier
from . import hdlrec
from .hdlrec import Expr, same_expr

FILE = "amaranth_soc/wishbone/bus.py"
N, G = z3.Ints("n_initiators owner_g")
AX = [N >= 1, G >= 0, G < N]


def pos(v):
    return z3.If(v < G, G - 1 - v, G + (N - 1 - v))


def verify_arbiter_grant():
    fv = FnVerifier("wishbone.bus.Arbiter.elaborate[grant]", AX)
    fn = find_def(FILE, "Arbiter.elaborate")
    has_lock_cases = (True, False)
    n_stmts = 0
    for has_lock in has_lock_cases:
        ex = Exec(FILE, "Arbiter", axioms=AX)
        log = hdlrec.Log()
        m, values = hdlrec.module(log)
        ex.contracts["Module"] = lambda ex_, recv, a, kw, q, node, m=m: [(m, q)]
        made = []

        def c_signal(ex_, recv, a, kw, q, node):
            name = ["requests", "grant"][len(made)] if len(made) < 2 else f"signal{len(made)}"
            s = hdlrec.signal(values, name, width=N if name == "requests" else None)
            made.append(s)
            return [(s, q)]
        ex.contracts["Signal"] = c_signal
        ex.contracts["Cat"] = lambda ex_, recv, a, kw, q, node: [(values.wrap(Expr("cat", "all initiators' cyc")), q)]
        bus = SymObj("Interface", "self.bus")
        for nm in ("cyc", "stb", "lock", "ack", "dat_r", "adr", "dat_w", "sel", "we"):
            bus.init_fields[nm] = hdlrec.signal(values, "bus." + nm)

        def c_hasattr(ex_, recv, a, kw, q, node):
            o, f = a
            if o is bus and isinstance(f, Opaque) and f.what == "str:lock":
                return [(z3.BoolVal(has_lock), q)]
            raise Unsupported(f"hasattr({o!r}, {f!r})")
        ex.contracts["hasattr"] = c_hasattr

        class IntrList:
            def length(self, ex_, recv, q, node):
                return N
        self_ = SymObj("Arbiter", "self")
        self_.init_fields.update({"bus": bus, "_intrs": SymObj("list", "self._intrs", model=IntrList())})

        def loop(ex_, st_node, path):
            it = ast.unparse(st_node.iter)
            out = []
            if it == "range(len(requests))":
                body = path.fork(); body.env = dict(body.env); body.env[st_node.target.id] = G
                for kind, val, q2 in ex_.block(st_node.body, body):
                    if kind not in ("fall", "continue"):
                        out.append((kind, val, q2))
                out.append(("fall", None, path)); return out
            if it == "reversed(range(i))":
                j = z3.FreshInt("j_pred")
                body = path.fork(); body.assume(z3.And(0 <= j, j < G))
                body.env = dict(body.env); body.env[st_node.target.id] = G - 1 - j
                body.ghost["time"] = j
                body.ghost["which"] = "pred"
                for kind, val, q2 in ex_.block(st_node.body, body):
                    if kind not in ("fall", "continue"):
                        out.append((kind, val, q2))
                out.append(("fall", None, path)); return out
            if it == "reversed(range(i + 1, len(requests)))":
                j = z3.FreshInt("j_succ")
                body = path.fork(); body.assume(z3.And(0 <= j, j < N - 1 - G))
                body.env = dict(body.env); body.env[st_node.target.id] = N - 1 - j
                body.ghost["time"] = G + j
                body.ghost["which"] = "succ"
                for kind, val, q2 in ex_.block(st_node.body, body):
                    if kind not in ("fall", "continue"):
                        out.append((kind, val, q2))
                out.append(("fall", None, path)); return out
            if it == "enumerate(self._intrs)":
                # the request / response fan-out of the second Switch: not part of this contract (C08, per configuration)
                path.ghost["skipped_fanout_loop"] = True
                return [("fall", None, path)]
            ex_.unsupported(st_node, f"loop over {it}")

        class _Every(dict):
            def get(self, key, default=None):
                return loop
        ex.loop_invariants = _Every()
        # the ghost time of the enclosing loop iteration travels with the path: attach it when a statement is logged
        orig_add = log.add

        def add(q, **kw):
            kw["time"] = q.ghost.get("time"); kw["which"] = q.ghost.get("which")
            orig_add(q, **kw)
        log.add = add
        q = Path()
        q.env.update({"self": self_, "platform": Opaque("platform")})
        outs = ex.run(fn, q)
        fv.paths += len(outs)
        lab0 = "lock-feature" if has_lock else "no-lock-feature"
        for k, o in enumerate(outs):
            fv.add("no-exception", f"{lab0}:path{k}", o.path.pc, z3.BoolVal(o.kind == "return"))
        requests, grant = made[0].expr, made[1].expr
        cyc, lock, stb = (bus.init_fields[x].expr for x in ("cyc", "lock", "stb"))
        busy = Expr("op", "BitAnd", (cyc, Expr("op", "BitOr", (lock, stb)))) if has_lock else cyc
        not_busy = Expr("op", "Invert", (busy,))
        grants = [e for e in log.entries if e["kind"] == "assign" and same_expr(e["dst"], grant) is not False
                  and isinstance(e["dst"], Expr) and e["dst"].t == grant.t]
        for e in grants:
            n_stmts += 1
            lab = f"{lab0}:{e['which']}:stmt{e['seq']}"
            v = e["src"].t[1] if isinstance(e["src"], Expr) and e["src"].t[0] == "const" else None
            ctx = e["ctx"]
            shape = len(ctx) == 4 and [c[0] for c in ctx] == ["If", "Switch", "Case", "If"] and v is not None and e["domain"] == "sync"
            fv.add(f"grant-statement[{e['which']}]-has-the-expected-shape", lab, e["path"].pc, z3.BoolVal(bool(shape)))
            if not shape:
                continue
            fv.add("busy-condition", lab, e["path"].pc, same_expr(ctx[0][1], not_busy))
            fv.add("switch-is-on-grant-and-case-is-the-owner", lab, e["path"].pc,
                   z3.And(same_expr(ctx[1][1], grant), same_expr(ctx[2][1], (Expr("const", G),))))
            fv.add("assigns-the-initiator-whose-request-is-tested", lab, e["path"].pc, same_expr(ctx[3][1], Expr("bit", requests, v)))
            fv.add("candidate-is-another-initiator", lab, e["path"].pc, z3.And(0 <= v, v < N, v != G,
                                                                                 (v < G) if e["which"] == "pred" else (v > G)))
            fv.add("position-in-program-order", lab, e["path"].pc, e["time"] == pos(v))
        # coverage: every v != g in [0, N) is reached by one of the two loops (its iteration index lies within the loop bounds)
        v = z3.Int("v_any")
        fv.add("every-other-initiator-covered", lab0, [0 <= v, v < N, v != G],
               z3.If(v < G, z3.And(0 <= G - 1 - v, G - 1 - v < G), z3.And(0 <= N - 1 - v, N - 1 - v < N - 1 - G)))
        fv.add("cover:both-loops-issue-a-statement", lab0, [], z3.BoolVal({e["which"] for e in grants} == {"pred", "succ"}))
        from .hdlrec import stores_nothing_on_the_component as _frame
        _frame(fv, ex)
        fv.add_engine_obligations(ex)
    # AST: grant is assigned nowhere else
    others = []
    for node in ast.walk(fn):
        if isinstance(node, ast.Call) and isinstance(node.func, ast.Attribute) and node.func.attr == "eq" and ast.unparse(node.func.value) == "grant":
            par = [p for p in ast.walk(fn) if isinstance(p, ast.For) and any(c is node for c in ast.walk(p))]
            its = {ast.unparse(p.iter) for p in par}
            if not ({"reversed(range(i))", "reversed(range(i + 1, len(requests)))"} & its):
                others.append(node.lineno)
    fv.add("grant-assigned-nowhere-else", "ast", [], z3.BoolVal(not others))
    return fv


OPT_REQ = ("lock", "cti", "bte")
OPT_RSP = ("err", "rty")


def verify_arbiter_fanout():
    """C08 (L1 part), for EVERY number of initiators: the statements the real Arbiter.elaborate() issues for ONE ARBITRARY initiator i
    in its second Switch(grant), for every combination of optional signals on the arbiter's bus and on the initiator:
      read-data-always               outside any Case: intr.dat_r := bus.dat_r;  an initiator with a stall input gets a private signal with
                                     init 1 wired to it (so that every non-owner sees a stall)
      owner-drives-the-bus           in Case(i): bus.adr/dat_w/sel (replicated by granularity ratio)/we/stb/cyc := the initiator's;
                                     bus.lock/cti/bte := the initiator's signal or the documented default, iff the bus has the signal
      owner-sees-the-responses       in Case(i): intr.ack := bus.ack; intr.err / rty := the bus's signal or 0, iff the initiator has it;
                                     the private stall signal := bus.stall, or ~bus.ack when the bus has no stall line
      nothing-else-per-initiator     and every optional signal is examined on every path"""
    fv = FnVerifier("wishbone.bus.Arbiter.elaborate[fan-out]", AX)
    fn = find_def(FILE, "Arbiter.elaborate")
    ex = Exec(FILE, "Arbiter", axioms=AX)
    log = hdlrec.Log()
    m, values = hdlrec.module(log)
    ex.contracts["Module"] = lambda ex_, recv, a, kw, q, node: [(m, q)]
    made = []

    def c_signal(ex_, recv, a, kw, q, node):
        if "init" in kw:
            s = hdlrec.signal(values, "intr_bus_stall"); s.init = kw["init"]; made.append(s); return [(s, q)]
        name = ["requests", "grant"][len([x for x in made if x.name in ("requests", "grant")])]
        s = hdlrec.signal(values, name, width=N if name == "requests" else None); made.append(s)
        return [(s, q)]
    ex.contracts["Signal"] = c_signal
    RATIO = z3.Int("granularity_ratio")
    ex.contracts["Cat"] = lambda ex_, recv, a, kw, q, node: [(values.wrap(Expr("cat", "genexp")), q)]
    names = ("adr", "dat_w", "dat_r", "sel", "cyc", "stb", "we", "ack", "stall") + OPT_REQ + OPT_RSP
    bus = SymObj("Interface", "self.bus"); intr = SymObj("Interface", "intr_bus")
    for nm in names:
        bus.init_fields[nm] = hdlrec.signal(values, "bus." + nm)
        intr.init_fields[nm] = hdlrec.signal(values, "intr." + nm)
    bus.init_fields["granularity"] = z3.Int("bus_granularity"); intr.init_fields["granularity"] = z3.Int("intr_granularity")
    opt = OPT_REQ + OPT_RSP + ("stall",)
    has = {(o, f): z3.Bool(f"has_{o}_{f}") for o in ("bus", "intr") for f in opt}

    def which(o):
        return "bus" if o is bus else ("intr" if o is intr else None)

    def c_hasattr(ex_, recv, a, kw, q, node):
        o, f = a
        w = which(o)
        if w and isinstance(f, Opaque) and f.what.startswith("str:") and (w, f.what[4:]) in has:
            return [(has[(w, f.what[4:])], q)]
        raise Unsupported(f"hasattr({o!r}, {f!r})")
    ex.contracts["hasattr"] = c_hasattr

    def c_getattr(ex_, recv, a, kw, q, node):
        o, f, default = a
        w = which(o)
        if not (w and isinstance(f, Opaque) and f.what.startswith("str:") and (w, f.what[4:]) in has):
            raise Unsupported(f"getattr({o!r}, {f!r}, default)")
        name = f.what[4:]
        yes, no = q, q.fork()
        yes.assume(has[(w, name)]); no.assume(z3.Not(has[(w, name)]))
        return [(o.init_fields[name], yes), (values.wrap(Expr("default", values.operand(ex_, default, node))), no)]
    ex.contracts["getattr"] = c_getattr

    class IntrList:
        def length(self, ex_, recv, q, node):
            return N
    self_ = SymObj("Arbiter", "self")
    self_.init_fields.update({"bus": bus, "_intrs": SymObj("list", "self._intrs", model=IntrList())})
    marks = {}

    def loop(ex_, st_node, path):
        it = ast.unparse(st_node.iter)
        if it == "range(len(requests))":
            return [("fall", None, path)]             # the grant logic: the other contract (verify_arbiter_grant)
        if it != "enumerate(self._intrs)":
            ex_.unsupported(st_node, f"loop over {it}")
        body = path.fork()
        body.assume(z3.And(bus.init_fields["granularity"] >= 1, intr.init_fields["granularity"] >= 1))
        start_ = len(log.entries)
        marks["start"] = start_
        out = []
        for kind, _, q2 in ex_.assign(st_node.target, Tup((G, intr)), body, st_node):
            for kind2, val2, q3 in ex_.block(st_node.body, q2):
                if kind2 in ("fall", "continue"):
                    marks.setdefault("ends", []).append((q3, len(log.entries), start_))
                else:
                    out.append((kind2, val2, q3))
        out.append(("fall", None, path))
        return out

    class _Every(dict):
        def get(self, key, default=None):
            return loop
    ex.loop_invariants = _Every()
    q = Path()
    q.env.update({"self": self_, "platform": Opaque("platform")})
    outs = ex.run(fn, q)
    fv.paths = len(outs)
    for k, o in enumerate(outs):
        fv.add("no-exception", f"path{k}", o.path.pc, z3.BoolVal(o.kind == "return"))
    g = lambda o, n: o.init_fields[n].expr

    def val(pc, var):
        for f in pc:
            if f.eq(var):
                return True
            if z3.is_not(f) and f.arg(0).eq(var):
                return False
        return None
    grant = [x for x in made if x.name == "grant"][0].expr
    sw = ("Switch", grant)
    case = ("Case", (Expr("const", G),))
    stall_sig = Expr("sig", "intr_bus_stall")
    defaults = {"lock": Expr("const", z3.IntVal(0)), "cti": Expr("opaque", "global:CycleType.CLASSIC"), "bte": Expr("opaque", "global:BurstTypeExt.LINEAR")}
    n_i = 0
    for qend, upto, start_ in marks.get("ends", []):
        n_i += 1
        lab = f"initiator-path{n_i}"
        mine = [e for e in log.entries[start_:upto] if all(any(f.eq(h) for h in qend.pc) for f in e["path"].pc)]
        V = lambda o, f: val(qend.pc, has[(o, f)])
        unexamined = [f"initiator {f}" for f in OPT_RSP + ("stall",) if V("intr", f) is None] + [f"bus {f}" for f in OPT_REQ if V("bus", f) is None]
        unexamined += [f"initiator {f}" for f in OPT_REQ if V("bus", f) and V("intr", f) is None]
        unexamined += [f"bus {f}" for f in OPT_RSP + ("stall",) if V("intr", f) and V("bus", f) is None]
        fv.add("every-optional-signal-examined", lab, qend.pc, z3.BoolVal(not unexamined))
        exp = [("read-data-always", g(intr, "dat_r"), g(bus, "dat_r"), (sw,))]
        if V("intr", "stall"):
            exp.append(("non-owner-stall-default", g(intr, "stall"), stall_sig, (sw,)))
        exp += [("owner-address", g(bus, "adr"), g(intr, "adr"), (sw, case)), ("owner-write-data", g(bus, "dat_w"), g(intr, "dat_w"), (sw, case)),
                ("owner-select-replicated", g(bus, "sel"), Expr("cat", "genexp"), (sw, case)), ("owner-write-enable", g(bus, "we"), g(intr, "we"), (sw, case)),
                ("owner-strobe", g(bus, "stb"), g(intr, "stb"), (sw, case)), ("owner-cycle", g(bus, "cyc"), g(intr, "cyc"), (sw, case))]
        for f in OPT_REQ:
            if V("bus", f):
                exp.append((f"owner-{f}-or-default", g(bus, f), g(intr, f) if V("intr", f) else Expr("default", defaults[f]), (sw, case)))
        exp.append(("owner-sees-ack", g(intr, "ack"), g(bus, "ack"), (sw, case)))
        for f in OPT_RSP:
            if V("intr", f):
                exp.append((f"owner-sees-{f}-or-zero", g(intr, f), g(bus, f) if V("bus", f) else Expr("default", Expr("const", z3.IntVal(0))), (sw, case)))
        if V("intr", "stall"):
            exp.append(("owner-sees-stall-or-not-ack", stall_sig,
                        g(bus, "stall") if V("bus", "stall") else Expr("default", Expr("op", "Invert", (g(bus, "ack"),))), (sw, case)))
        ok_len = len(mine) == len(exp) and all(e["kind"] == "assign" and e["domain"] == "comb" for e in mine)
        fv.add("nothing-else-per-initiator", lab, qend.pc, z3.BoolVal(ok_len))
        if not ok_len and not getattr(fv, "_dbg", False):
            fv._dbg = True
            fv.debug = (len(mine), len(exp), [(e["dst"], e["src"]) for e in mine], [x[0] for x in exp], [str(f) for f in qend.pc if "has_" in str(f)])
        if ok_len:
            for (nm, dst, srcx, ctx), e in zip(exp, mine):
                fv.add(nm, lab, qend.pc, z3.And(z3.BoolVal(len(e["ctx"]) == len(ctx)), same_expr(e["dst"], dst), same_expr(e["src"], srcx),
                                                *[z3.And(z3.BoolVal(c1[0] == c2[0]), same_expr(c1[1], c2[1])) for c1, c2 in zip(e["ctx"], ctx)]))
        if V("intr", "stall"):
            st = [x for x in made if x.name == "intr_bus_stall"]
            fv.add("private-stall-signal-resets-to-1", lab, qend.pc,
                   z3.BoolVal(len(st) >= 1) if not st else (ex.toint(st[-1].init) == 1))
    fv.add("cover:initiator-paths", "vacuity", [], z3.BoolVal(n_i >= 16))
    from .hdlrec import stores_nothing_on_the_component as _frame
    _frame(fv, ex)
    fv.add_engine_obligations(ex)
    return fv


ALL = [verify_arbiter_grant, verify_arbiter_fanout]
