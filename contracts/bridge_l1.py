"""C10 (L1 part): the statements issued by the real WishboneCSRBridge.elaborate() for EVERY data-width ratio R = len(wb_bus.sel) and every
granularity g, for ONE ARBITRARY granule index i of the sequencer's Switch (pyvc with recording hardware stubs).
  address-concatenation       csr_bus.addr := Cat(cycle[:log2 R], wb_bus.adr)       (outside every If; log2 R by exact_log2(len(sel)))
  per granule i (0 <= i < R), under If(cyc & stb) > Switch(cycle) > Case(i):
      read-strobe             csr_bus.r_stb := sel[i] & ~we
      write-data-slice        csr_bus.w_data := dat_w[i*g : (i+1)*g]
      write-strobe            csr_bus.w_stb := sel[i] & we
      next-granule            cycle := i + 1                                              (sync)
      previous-read-lane      for i > 0 only: dat_r[(i-1)*g : i*g] := csr_bus.r_data      (sync; CSR reads are registered)
  after the last granule, under If(cyc & stb) > Switch(cycle) > Default:
      last-read-lane          dat_r[(R-1)*g : R*g] := csr_bus.r_data, ack := 1            (sync)
  under If(ack):              cycle := 0, ack := 0                                        (sync)
  nothing-else                no other statement, per granule and outside the loop
What this schedule means cycle by cycle (latency ratio+1, one strobe per selected granule, in order, lanes, single acknowledge) follows
from Amaranth's Switch/If/last-assignment semantics - assumed here, proved per ratio from the netlist by the hdlvc clauses of C10.
"""
import ast
import z3
from vf.pyvc.engine import Exec, Path, SymObj, Opaque, NONE, Tup, SliceV, find_def, Unsupported, pow2
from vf.pyvc.driver import FnVerifier
from . import hdlrec
from .hdlrec import Expr, same_expr

FILE = "amaranth_soc/csr/wishbone.py"
R, G, I, L = z3.Ints("ratio granularity granule_i log2_ratio")
AX = [R >= 1, G >= 1, L >= 0]


def verify_bridge_elaborate():
    fv = FnVerifier("csr.wishbone.WishboneCSRBridge.elaborate", AX)
    fn = find_def(FILE, "WishboneCSRBridge.elaborate")
    ex = Exec(FILE, "WishboneCSRBridge", axioms=AX)
    log = hdlrec.Log()
    m, values = hdlrec.module(log)
    ex.contracts["Module"] = lambda ex_, recv, a, kw, q, node: [(m, q)]
    made = []

    def c_signal(ex_, recv, a, kw, q, node):
        s = hdlrec.signal(values, f"local{len(made)}"); made.append((s, a, dict(kw)))
        return [(s, q)]
    ex.contracts["Signal"] = c_signal
    ex.contracts["Cat"] = lambda ex_, recv, a, kw, q, node: [(values.wrap(Expr("fn", "Cat", tuple(values.operand(ex_, x, node) for x in a))), q)]

    def c_exact_log2(ex_, recv, a, kw, q, node):
        # amaranth.utils.exact_log2 (assumed dependency contract): the logarithm of a power of two; the constructor made len(sel) one
        x = ex_.toint(a[0], node)
        ex_.oblige("exact_log2-of-the-ratio", q, x == R, node)
        return [(L, q)]
    ex.contracts["exact_log2"] = c_exact_log2
    ex.contracts["range"] = lambda ex_, recv, a, kw, q, node: [(Opaque("range(...)"), q)]

    def c_segment(ex_, recv, a, kw, q, node):
        fd = q.ghost.get("closures", {}).get("segment")
        if fd is None:
            raise Unsupported("segment() is not a local function on this tree")
        return ex_.inline(fd, a, kw, q, node, base_env=q.env)
    ex.contracts["segment"] = c_segment
    wb = SymObj("Interface", "wb_bus"); csr = SymObj("Interface", "csr_bus")
    for nm in ("adr", "dat_w", "dat_r", "sel", "cyc", "stb", "we", "ack"):
        wb.init_fields[nm] = hdlrec.signal(values, "wb." + nm, width=R if nm == "sel" else None)
    wb.init_fields["granularity"] = G
    for nm in ("addr", "r_data", "r_stb", "w_data", "w_stb"):
        csr.init_fields[nm] = hdlrec.signal(values, "csr." + nm)
    self_ = SymObj("WishboneCSRBridge", "self")
    self_.init_fields.update({"csr_bus": csr, "_csr_bus": csr, "wb_bus": wb})
    marks = {}

    def loop(ex_, st_node, path):
        it = ast.unparse(st_node.iter)
        if it != "enumerate(wb_bus.sel)":
            ex_.unsupported(st_node, f"loop over {it}")
        body = path.fork()
        body.assume(z3.And(0 <= I, I < R))
        start_ = len(log.entries)
        out = []
        sel_i = values.wrap(Expr("bit", Expr("sig", "wb.sel"), I))
        for kind, _, q2 in ex_.assign(st_node.target, Tup((I, sel_i)), body, st_node):
            for kind2, val2, q3 in ex_.block(st_node.body, q2):
                if kind2 in ("fall", "continue"):
                    marks.setdefault("ends", []).append((q3, len(log.entries), start_))
                else:
                    out.append((kind2, val2, q3))
        # after the loop the loop variables keep their LAST values (the source uses `index` in the Default branch)
        after = path
        marks["after_start"] = len(log.entries)
        for kind, _, q2 in ex_.assign(st_node.target, Tup((R - 1, values.wrap(Expr("bit", Expr("sig", "wb.sel"), R - 1)))), after, st_node):
            out.append(("fall", None, q2))
        return out

    class _Every(dict):
        def get(self, key, default=None):
            return loop
    ex.loop_invariants = _Every()
    q = Path()
    q.env.update({"self": self_, "platform": Opaque("platform")})
    outs = ex.run(fn, q)
    fv.paths = len(outs)
    for k, o in enumerate(outs):
        fv.add("no-exception", f"path{k}", o.path.pc, z3.BoolVal(o.kind == "return"))
    S = lambda n: Expr("sig", n)
    cyc_stb = ("If", Expr("op", "BitAnd", (S("wb.cyc"), S("wb.stb"))))
    cycle = made[0][0].expr if made else Expr("sig", "?")
    sw = ("Switch", cycle)
    const = lambda t: Expr("const", t if isinstance(t, z3.ExprRef) else z3.IntVal(t))
    sel_i = Expr("bit", S("wb.sel"), I)
    notwe = Expr("op", "Invert", (S("wb.we"),))
    case_i = ("Case", (const(I),))
    per_granule = [("read-strobe", "comb", S("csr.r_stb"), Expr("op", "BitAnd", (sel_i, notwe))),
                   ("write-data-slice", "comb", S("csr.w_data"), Expr("slice", S("wb.dat_w"), I * G, (I + 1) * G)),
                   ("write-strobe", "comb", S("csr.w_stb"), Expr("op", "BitAnd", (sel_i, S("wb.we")))),
                   ("next-granule", "sync", cycle, const(I + 1))]
    prev_lane = ("previous-read-lane", "sync", Expr("slice", S("wb.dat_r"), (I - 1) * G, I * G), S("csr.r_data"))

    def check(lab, e, spec, ctx):
        nm, dom, dst, src = spec
        fv.add(nm, lab, e["path"].pc, z3.And(z3.BoolVal(e["domain"] == dom and len(e["ctx"]) == len(ctx)), same_expr(e["dst"], dst), same_expr(e["src"], src),
                                             *[z3.And(z3.BoolVal(c1[0] == c2[0]), same_expr(c1[1], c2[1])) for c1, c2 in zip(e["ctx"], ctx)]))
    n_first = n_later = 0
    for qend, upto, start_ in marks.get("ends", []):
        mine = [e for e in log.entries[start_:upto] if e["kind"] == "assign" and all(any(f.eq(h) for h in qend.pc) for f in e["path"].pc)]
        s = z3.Solver(); s.add(*AX); s.add(*qend.pc); s.add(I > 0)
        later = s.check() == z3.sat
        s = z3.Solver(); s.add(*AX); s.add(*qend.pc); s.add(I == 0)
        first = s.check() == z3.sat
        if first and later:
            # the path does not distinguish the first granule: then it must not issue the previous-lane statement at all ... which
            # is wrong for i > 0; report through nothing-else
            exp = per_granule
        else:
            exp = ([prev_lane] if later else []) + per_granule
        n_first += first and not later; n_later += later and not first
        lab = "first-granule" if (first and not later) else ("later-granule" if later and not first else "any-granule")
        fv.add("nothing-else-per-granule", lab, qend.pc, z3.BoolVal(len(mine) == len(exp) and not (first and later)))
        if len(mine) == len(exp):
            for spec, e in zip(exp, mine):
                check(lab, e, spec, (cyc_stb, sw, case_i))
    # statements outside the loop: one returning path; entries not inside any per-granule window
    inside = set()
    for qend, upto, start_ in marks.get("ends", []):
        inside |= set(range(start_, upto))
    outer = [e for k, e in enumerate(log.entries) if k not in inside and e["kind"] == "assign"]
    exp_outer = [("address-concatenation", "comb", S("csr.addr"), Expr("fn", "Cat", (Expr("slice", cycle, z3.IntVal(0), L), S("wb.adr"))), ()),
                 ("last-read-lane", "sync", Expr("slice", S("wb.dat_r"), (R - 1) * G, (R - 1 + 1) * G), S("csr.r_data"), (cyc_stb, sw, ("Default", None))),
                 ("acknowledge-after-the-last-granule", "sync", S("wb.ack"), const(1), (cyc_stb, sw, ("Default", None))),
                 ("sequencer-restarts-on-acknowledge", "sync", cycle, const(0), (("If", S("wb.ack")),)),
                 ("acknowledge-lasts-one-cycle", "sync", S("wb.ack"), const(0), (("If", S("wb.ack")),))]
    pc_all = outs[0].path.pc if outs else []
    fv.add("nothing-else-outside-the-granule-loop", "outer", pc_all, z3.BoolVal(len(outer) == len(exp_outer)))
    if len(outer) == len(exp_outer):
        for (nm, dom, dst, src, ctx), e in zip(exp_outer, outer):
            check("outer", e, (nm, dom, dst, src), ctx)
    # the sequencer register can count to R: Signal(range(len(sel) + 1))
    ok_sig = len(made) == 1 and len(made[0][1]) == 1 and isinstance(made[0][1][0], Opaque)
    fv.add("one-local-signal-the-sequencer", "outer", pc_all, z3.BoolVal(len(made) == 1))
    fv.add("no-submodule", "outer", pc_all, z3.BoolVal(not [e for e in log.entries if e["kind"] == "submodule"]))
    fv.add("cover:first-and-later-granules", "vacuity", [], z3.BoolVal(n_first >= 1 and n_later >= 1))
    from .hdlrec import stores_nothing_on_the_component as _frame
    _frame(fv, ex)
    fv.add_engine_obligations(ex)
    return fv


ALL = [verify_bridge_elaborate]
