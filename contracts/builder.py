"""C17 (L1 part): csr.Builder.__init__ / freeze / add and the body of as_memory_map's loop under contract (pyvc).

Builder abstract state: aw, dw, g (ints), frozen, registered[id] (Bool array), count.
Invariant: aw > 0, dw > 0, g > 0, dw = (dw div g) * g  (granularity divides the data width).
as_memory_map: one arbitrary iteration of `for reg, reg_name, reg_offset in self._registers.values()` is executed against an
arbitrary memory map; what is proved is what the iteration HANDS TO add_resource (explicit address = offset*g/dw exactly,
size = ceil(width/dw), alignment = ceil_log2(size), name = the stored scope path) -- add_resource's own contract (C02)
then gives placement, size rounding and rejection.  No try/except in the function: a refusal by add_resource propagates.
"""
import ast
import z3
from vf.pyvc.engine import (Exec, Path, SymObj, Dyn, Tup, Opaque, NONE, Raised, Spread, find_def, pow2, clog2, POW2_AXIOMS,
                            CLOG2_AXIOMS, T_NONE, T_INT, T_STR, T_COMPONENT, Unsupported)
from vf.pyvc.driver import FnVerifier

FILE = "amaranth_soc/csr/reg.py"
AX = POW2_AXIOMS + CLOG2_AXIOMS
BoolArr = z3.ArraySort(z3.IntSort(), z3.BoolSort())


class RegDict:
    def __init__(self, owner):
        self.owner = owner

    def contains(self, ex, recv, key, q, node):
        return q.ghost[("regs", id(self.owner))][ex.toint(key, node)]

    def getitem(self, ex, recv, key, q, node):
        off = Dyn(f"other_offset{next(SymObj._count)}")
        q.assume(off.wf())
        return [(Tup((Opaque("reg"), Opaque("other_name"), off)), q)]

    def setitem(self, ex, recv, key, value, q, node):
        dom = q.ghost[("regs", id(self.owner))]
        k = ex.toint(key, node)
        q.ghost[("regs", id(self.owner))] = z3.Store(dom, k, True)
        q.ghost[("stored", id(self.owner))] = value
        q.writes.append((self.owner.name, "_registers"))
        return [("fall", None, q)]


def fresh_builder(q):
    b = SymObj("Builder", "self")
    aw, dw, g = z3.Ints("b_aw b_dw b_g")
    fr = z3.Bool("b_frozen")
    b.init_fields.update({"_addr_width": aw, "_data_width": dw, "_granularity": g, "_frozen": fr,
                          "_registers": SymObj("dict", "self._registers", model=RegDict(b)),
                          "_scope_stack": Opaque("scope_stack")})
    q.ghost[("regs", id(b))] = z3.Const("b_registered", BoolArr)
    q.assume(z3.And(aw > 0, dw > 0, g > 0, dw == (dw / g) * g))
    return b, {"aw": aw, "dw": dw, "g": g, "frozen": fr, "dom": q.ghost[("regs", id(b))]}


def base_exec():
    ex = Exec(FILE, "Builder", axioms=AX)
    ex.class_files = {"Builder": FILE}
    ex.isinstance_hook = lambda v, ty, node: (v.tag == T_COMPONENT) if (ty == "Register" and isinstance(v, Dyn)) else None
    return ex


def verify_init():
    fv = FnVerifier("csr.reg.Builder.__init__", AX)
    fn = find_def(FILE, "Builder.__init__")
    ex = base_exec()
    q = Path()
    self_ = SymObj("Builder", "self")
    aw, dw, g = Dyn("addr_width"), Dyn("data_width"), Dyn("granularity")
    q.assume(z3.And(aw.wf(), dw.wf(), g.wf()))
    q.env.update({"self": self_, "addr_width": aw, "data_width": dw, "granularity": g})
    outs = ex.run(fn, q)
    fv.paths = len(outs)
    ints = z3.And(aw.tag == T_INT, aw.ival > 0, dw.tag == T_INT, dw.ival > 0, g.tag == T_INT, g.ival > 0)
    for k, o in enumerate(outs):
        p = o.path
        if o.kind == "raise":
            fv.add("raises-only-TypeError-or-ValueError", f"path{k}", p.pc, z3.BoolVal(o.exc in ("TypeError", "ValueError")))
            fv.add("TypeError-iff-not-positive-ints" if o.exc == "TypeError" else "ValueError-iff-granularity-does-not-divide",
                   f"path{k}", p.pc, z3.Not(ints) if o.exc == "TypeError" else z3.And(ints, dw.ival % g.ival != 0))
        else:
            gt = lambda f: p.heap.get((id(self_), f))
            fv.add("accepts-only-valid-geometry", f"path{k}", p.pc, z3.And(ints, dw.ival % g.ival == 0))
            fv.add("geometry-stored-unfrozen", f"path{k}", p.pc,
                   z3.And(ex.toint(gt("_addr_width")) == aw.ival, ex.toint(gt("_data_width")) == dw.ival,
                          ex.toint(gt("_granularity")) == g.ival, gt("_frozen") == False))
            fv.add("establishes-invariant", f"path{k}", p.pc, dw.ival == (dw.ival / g.ival) * g.ival)
    fv.add_engine_obligations(ex)
    return fv


def verify_add():
    fv = FnVerifier("csr.reg.Builder.add", AX)
    fn = find_def(FILE, "Builder.add")
    ex = base_exec()
    q = Path()
    b, h = fresh_builder(q)
    name, reg, offset = Dyn("name"), Dyn("reg"), Dyn("offset")
    q.assume(z3.And(name.wf(), reg.wf(), offset.wf()))
    q.env.update({"self": b, "name": name, "reg": reg, "offset": offset})
    outs = ex.run(fn, q)
    fv.paths = len(outs)
    n_ret = 0
    for k, o in enumerate(outs):
        p = o.path
        dom1 = p.ghost[("regs", id(b))]
        if o.kind == "raise":
            fv.add("raises-only-TypeError-or-ValueError", f"path{k}", p.pc, z3.BoolVal(o.exc in ("TypeError", "ValueError")))
            fv.add("raise-leaves-builder-unchanged", f"path{k}", p.pc, z3.BoolVal(dom1 is h["dom"] and not p.writes))
            continue
        n_ret += 1
        stored = p.ghost.get(("stored", id(b)))
        ratio = h["dw"] / h["g"]
        fv.add("frozen-builder-refuses", f"path{k}", p.pc, z3.Not(h["frozen"]))
        fv.add("only-registers-accepted", f"path{k}", p.pc, reg.tag == T_COMPONENT)
        fv.add("name-is-a-nonempty-string", f"path{k}", p.pc, z3.And(name.tag == T_STR, name.nonempty))
        fv.add("offset-is-None-or-multiple-of-data-width-over-granularity", f"path{k}", p.pc,
               z3.Or(offset.tag == T_NONE, z3.And(offset.tag == T_INT, offset.ival >= 0, offset.ival % ratio == 0)))
        fv.add("not-added-twice", f"path{k}", p.pc, z3.Not(h["dom"][reg.ident]))
        fv.add("registered-now", f"path{k}", p.pc, dom1[reg.ident])
        ok_shape = (isinstance(stored, tuple) and len(stored) == 3 and stored[0] is reg and stored[2] is offset
                    and isinstance(stored[1], tuple) and len(stored[1]) == 2 and isinstance(stored[1][0], Spread)
                    and stored[1][1] is name)
        fv.add("stored-as-(reg, scope-path + name, offset)", f"path{k}", p.pc, z3.BoolVal(bool(ok_shape)))
        fv.add("returns-the-register", f"path{k}", p.pc, z3.BoolVal(o.value is reg))
    fv.add("cover:some-path-returns", "vacuity", [], z3.BoolVal(n_ret > 0))
    fv.add_engine_obligations(ex)
    return fv


def verify_as_memory_map():
    fv = FnVerifier("csr.reg.Builder.as_memory_map", AX)
    fn = find_def(FILE, "Builder.as_memory_map")
    ex = base_exec()
    calls = []

    def c_memory_map(ex_, recv, args, kwargs, q, node):
        q.ghost["mm_args"] = kwargs
        return [(SymObj("MemoryMap", "memory_map", model=MMStub(calls)), q)]

    ex.contracts["MemoryMap"] = c_memory_map
    ex.contracts["Builder.freeze"] = lambda ex_, recv, a, k, q, n: ex_.inline(find_def(FILE, "Builder.freeze"), [recv], {}, q, n)

    def loop(ex_, st_node, path):
        """one arbitrary stored register: (reg, name, offset) with the facts Builder.add established"""
        body = path.fork()
        width = z3.FreshInt("reg_width")
        off = Dyn("reg_offset")
        b_, h_ = path.env["self"], path.ghost["h"]
        ratio = h_["dw"] / h_["g"]
        body.assume(z3.And(off.wf(), width >= 0,
                           z3.Or(off.tag == T_NONE, z3.And(off.tag == T_INT, off.ival >= 0, off.ival % ratio == 0))))
        reg = SymObj("Register", "reg"); elem = SymObj("Element", "reg.element"); elem.init_fields["width"] = width
        reg.init_fields["element"] = elem
        body.ghost["iter"] = (reg, off, width)
        out = []
        for kind, _, q2 in ex_.assign(st_node.target, Tup((reg, Opaque("reg_name"), off)), body, st_node):
            for kind2, val2, q3 in ex_.block(st_node.body, q2):
                if kind2 == "raise":
                    out.append((kind2, val2, q3))
        out.append(("fall", None, path))
        return out

    ex.loop_invariants[0] = loop
    q = Path()
    b, h = fresh_builder(q)
    q.ghost["h"] = h
    q.env["self"] = b
    outs = ex.run(fn, q)
    fv.paths = len(outs)
    for k, o in enumerate(outs):
        p = o.path
        if o.kind == "raise":
            fv.add("only-add_resource-refusals-propagate", f"path{k}", p.pc, z3.BoolVal(o.exc == "add_resource-refusal"))
            continue
        fv.add("builder-frozen-afterwards", f"path{k}", p.pc, ex.getattr(b, "_frozen", p, None)[0][0] == True)
        a = p.ghost.get("mm_args", {})
        fv.add("map-has-the-builder-geometry", f"path{k}", p.pc,
               z3.And(ex.toint(a.get("addr_width", 0)) == h["aw"], ex.toint(a.get("data_width", 0)) == h["dw"]) if a else z3.BoolVal(False))
        fv.add("returns-the-map-frozen", f"path{k}", p.pc, z3.BoolVal(isinstance(o.value, SymObj) and o.value.cls == "MemoryMap"
                                                                       and ("freeze",) in [c[:1] for c in calls]))
    n_calls = 0
    for (what, p, kw, it) in [c for c in calls if c[0] == "add_resource"]:
        n_calls += 1
        reg, off, width = it
        dw, g = h["dw"], h["g"]
        addr, size, al = kw["addr"], ex.toint(kw["size"]), ex.toint(kw["alignment"])
        lab = f"call{n_calls}"
        if addr is NONE:
            fv.add("implicit-offset-means-implicit-address", lab, p.pc, off.tag == T_NONE)
        else:
            fv.add("explicit-address-is-offset-times-granularity-over-data-width-exactly", lab, p.pc,
                   z3.And(off.tag == T_INT, ex.toint(addr) * dw == off.ival * g))
        fv.add("size-is-ceil(width/data_width)", lab, p.pc, z3.And(size * dw >= width, (size - 1) * dw < width + 0 if True else None, size >= 0))
        fv.add("alignment-is-ceil_log2(size)-so-the-span-is-the-next-power-of-two", lab, p.pc,
               z3.And(al == clog2(size), z3.Implies(size >= 1, z3.And(pow2(al) >= size, z3.Or(al == 0, pow2(al - 1) < size)))))
        fv.add("register-and-name-passed-through", lab, p.pc, z3.BoolVal(kw.get("_reg") is reg and isinstance(kw.get("name"), Opaque)))
    fv.add("cover:add_resource-called", "vacuity", [], z3.BoolVal(n_calls >= 2))
    fv.add_engine_obligations(ex)
    return fv


class MMStub:
    """the freshly created MemoryMap inside as_memory_map: records what is handed to add_resource / freeze.
    add_resource may refuse (its contract, C02): that outcome propagates as an exception."""
    def __init__(self, calls):
        self.calls = calls

    def call_add_resource(self, ex, recv, args, kwargs, q, node):
        kw = dict(kwargs); kw["_reg"] = args[0]
        self.calls.append(("add_resource", q.fork(), kw, q.ghost.get("iter")))
        bad = q.fork()
        return [(Opaque("(start, stop)"), q), (Raised("add_resource-refusal"), bad)]

    def call_freeze(self, ex, recv, args, kwargs, q, node):
        self.calls.append(("freeze", q.fork(), {}, None))
        return [(NONE, q)]


# ---- Cluster / Index: generator-based context managers around the scope stack -----------------------------------------------
class ScopeStack:
    """self._scope_stack: an arbitrary stack of symbolic height `base` plus the values pushed during this execution"""
    def __init__(self, owner):
        self.owner = owner

    def _get(self, q):
        return q.ghost[("stack", id(self.owner))]

    def call_append(self, ex, recv, args, kwargs, q, node):
        base, top = self._get(q)
        q.ghost[("stack", id(self.owner))] = (base, top + (args[0],))
        q.writes.append((self.owner.name, "_scope_stack"))
        return [(NONE, q)]

    def call_pop(self, ex, recv, args, kwargs, q, node):
        base, top = self._get(q)
        q.writes.append((self.owner.name, "_scope_stack"))
        if top:
            q.ghost[("stack", id(self.owner))] = (base, top[:-1])
            return [(top[-1], q)]
        ex.oblige("pop-from-nonempty-stack", q, base > 0, node)       # else IndexError: an internal error
        q.ghost[("stack", id(self.owner))] = (base - 1, ())
        return [(Opaque("older scope element"), q)]


def verify_scope(which):
    """Builder.Cluster(name) / Builder.Index(index), decorated with contextlib.contextmanager (assumed stdlib contract: the code
    up to the single `yield` is __enter__, the code after it is __exit__, an exception of the with-body is raised at the yield).
    REQUIRES on the with-body (frame): it leaves the scope stack as it found it - true for add() (proved: it only reads the
    stack) and for nested Cluster/Index blocks by this same contract (induction on nesting depth)."""
    fv = FnVerifier(f"csr.reg.Builder.{which}", AX)
    fn = find_def(FILE, f"Builder.{which}")
    ex = base_exec()
    q = Path()
    b, h = fresh_builder(q)
    L0 = z3.Int("scope_depth")
    q.assume(L0 >= 0)
    b.init_fields["_scope_stack"] = SymObj("list", "self._scope_stack", model=ScopeStack(b))
    q.ghost[("stack", id(b))] = (L0, ())
    arg = Dyn("name" if which == "Cluster" else "index")
    q.assume(arg.wf())
    q.env.update({"self": b, ("name" if which == "Cluster" else "index"): arg})
    valid = z3.And(arg.tag == T_STR, arg.nonempty) if which == "Cluster" else z3.And(arg.tag == T_INT, arg.ival >= 0)

    def resume(node, p):
        p.ghost["entered"] = True
        exc = p.fork()
        exc.ghost["body_raised"] = True
        return [("fall", None, p), ("raise", "ExceptionOfTheWithBody", exc)]
    ex.yield_resume = resume
    ex.equal_hook = lambda a_, b_, node: z3.BoolVal(True) if a_ is b_ else None      # the popped object IS the pushed one
    outs = ex.run(fn, q)
    fv.paths = len(outs)
    kinds = set()
    for k, (val, p) in enumerate(ex.yields):
        base, top = p.ghost[("stack", id(b))]
        fv.add("inside-the-block-the-stack-is-the-entry-stack-plus-this-scope", f"yield{k}", p.pc,
               z3.And(base == L0, z3.BoolVal(len(top) == 1 and top[0] is arg), valid))
    for k, o in enumerate(outs):
        p = o.path
        base, top = p.ghost[("stack", id(b))]
        restored = z3.And(base == L0, z3.BoolVal(top == ()))
        lab = f"path{k}"
        if o.kind == "raise" and not p.ghost.get("entered"):
            kinds.add("refused")
            fv.add("refusal-is-TypeError-for-an-invalid-scope-name", lab, p.pc, z3.And(z3.BoolVal(o.exc == "TypeError"), z3.Not(valid)))
            fv.add("refusal-leaves-the-stack-unchanged", lab, p.pc, z3.And(restored, z3.BoolVal(not p.writes)))
        elif o.kind == "raise":
            kinds.add("body-raised")
            fv.add("exception-of-the-body-propagates-unchanged", lab, p.pc, z3.BoolVal(o.exc == "ExceptionOfTheWithBody"))
            fv.add("stack-restored-when-the-body-raises", lab, p.pc, restored)
        else:
            kinds.add("normal")
            fv.add("entered-only-with-a-valid-scope-name", lab, p.pc, valid)
            fv.add("stack-restored-on-normal-exit", lab, p.pc, restored)
    fv.add("cover:refusal-normal-exit-and-exceptional-exit-all-explored", "vacuity", [], z3.BoolVal(kinds == {"refused", "body-raised", "normal"} and len(ex.yields) >= 1))
    fv.add_engine_obligations(ex)
    return fv


def verify_cluster():
    return verify_scope("Cluster")


def verify_index():
    return verify_scope("Index")


ALL = [verify_init, verify_add, verify_as_memory_map, verify_cluster, verify_index]
