"""Validation performed by the add() methods of the bus components, under contract (pyvc): wishbone.Decoder.add,
wishbone.Arbiter.add, csr.Decoder.add.  Unbounded in every width / granularity / feature combination.

A bus interface is an object with symbolic addr_width / data_width / granularity and an UNINTERPRETED feature predicate
    HasF(bus, f)     the interface has the optional signal f        (hasattr(bus, f) / Feature(f) in bus.features)
f ranges over the three (two) literal names the source iterates over; the loop over that literal set is UNROLLED exactly
(it carries no state: it either raises or not).  Message strings are dropped.
Clauses
  refuses-exactly-the-excluded-combinations     raise  <=>  one of the documented exclusions holds (or the argument is no interface)
  accepted-window-is-handed-to-the-memory-map   the sub-bus memory map, name, addr (and sparse) reach add_window unchanged and its
                                                result is returned; a refusal by add_window (C02/C18) propagates
  refusal-registers-nothing / registered        `_subs` / `_intrs` are only touched on the accepting path
"""
import ast
import z3
from vf.pyvc.engine import Exec, Path, SymObj, Dyn, Opaque, NONE, Raised, Tup, find_def, Unsupported
from vf.pyvc.driver import FnVerifier

WB = "amaranth_soc/wishbone/bus.py"
CSR = "amaranth_soc/csr/bus.py"
HasF = z3.Function("HasF", z3.IntSort(), z3.IntSort(), z3.BoolSort())
FEATS = {"err": 0, "rty": 1, "stall": 2, "lock": 3, "cti": 4, "bte": 5}


class Feat:
    def __init__(self, name):
        self.name = name


def unroll_literal_set(ex, st_node, path):
    """for x in {<string literals>}: executed once per literal, in sorted order (the body only raises or falls through)"""
    it = st_node.iter
    if not isinstance(it, (ast.Set, ast.Tuple, ast.List)) or not all(isinstance(e, ast.Constant) and isinstance(e.value, str) for e in it.elts):
        ex.unsupported(st_node, "loop over something else than a literal set of strings")
    paths = [path]
    out = []
    for name in sorted(e.value for e in it.elts):
        nxt = []
        for p in paths:
            p.env = dict(p.env); p.env[st_node.target.id] = Feat(name)
            for kind, val, p2 in ex.block(st_node.body, p):
                if kind in ("fall", "continue"):
                    nxt.append(p2)
                elif kind == "break":
                    out.append(("fall", None, p2))
                else:
                    out.append((kind, val, p2))
        paths = nxt
    return out + [("fall", None, p) for p in paths]


class Features:
    """bus.features: membership of Feature(f)"""
    def __init__(self, ident):
        self.ident = ident

    def contains(self, ex, recv, key, q, node):
        if not isinstance(key, Feat) or key.name not in FEATS:
            raise Unsupported(f"membership of {key!r} in features")
        return HasF(self.ident, FEATS[key.name])


def c_hasattr(ex, recv, args, kwargs, q, node):
    o, f = args
    if isinstance(f, Feat) and f.name in FEATS and isinstance(o, SymObj) and hasattr(o, "bus_ident"):
        return [(HasF(o.bus_ident, FEATS[f.name]), q)]
    raise Unsupported(f"hasattr({o!r}, {f!r})")


def c_feature(ex, recv, args, kwargs, q, node):
    if isinstance(args[0], Feat):
        return [(args[0], q)]
    raise Unsupported("Feature() of a non-literal")


def bus(name, ident, kind):
    """an Interface object: geometry by fields; optional signals by HasF(ident, .); memory_map an opaque object"""
    b = SymObj("Interface", name)
    b.bus_ident = ident
    aw, dw, g = z3.Int(f"{name}.aw"), z3.Int(f"{name}.dw"), z3.Int(f"{name}.g")
    sig = SymObj("Signature", f"{name}.signature")
    sig.init_fields.update({"_addr_width": aw, "_data_width": dw, "_granularity": g,
                            "_features": SymObj("frozenset", f"{name}.features", model=Features(ident))})
    b.init_fields["signature"] = sig
    b.init_fields["_memory_map"] = SymObj("MemoryMap", f"{name}.memory_map")
    return b, {"aw": aw, "dw": dw, "g": g}


class SubsDict:
    def __init__(self):
        pass

    def setitem(self, ex, recv, key, value, q, node):
        q.ghost["registered"] = (key, value)
        q.writes.append(("self", "_subs"))
        return [("fall", None, q)]


class IntrList:
    def call_append(self, ex, recv, args, kwargs, q, node):
        q.ghost["registered"] = args[0]
        q.writes.append(("self", "_intrs"))
        return [(NONE, q)]


class MapStub:
    """self.bus.memory_map: add_window may return or refuse (its own contract: C02/C18).
    With (window data width, own data width) given: MemoryMap.add_window called without `sparse` ACCEPTS only a window of the map's own
    data width (memory.py: a wider window and an unspecified translation of a narrower one are both refused with ValueError) - so a
    caller may leave that refusal to the memory map."""
    def __init__(self, widths=None):
        self.widths = widths

    def call_add_window(self, ex, recv, args, kwargs, q, node):
        q.ghost["add_window"] = (args, kwargs)
        bad = q.fork()
        res = Opaque("add_window result")
        q.ghost["add_window_result"] = res
        if self.widths is not None and "sparse" not in kwargs:
            q.assume(self.widths[0] == self.widths[1])
        return [(res, q), (Raised("refused-by-add_window"), bad)]


def setup(file, cls, decoder_name="self"):
    ex = Exec(file, cls, axioms=[])
    ex.class_files = {cls: file, "Interface": file, "Signature": file}
    class _Every(dict):
        def get(self, key, default=None):
            return unroll_literal_set
    ex.loop_invariants = _Every()          # the only loops in these functions are over literal sets of feature names
    ex.contracts["hasattr"] = c_hasattr
    ex.contracts["Feature"] = c_feature
    ex.contracts["flipped"] = lambda ex_, recv, a, k, q, n: [(a[0].unflipped, q)] if hasattr(a[0], "unflipped") else (_ for _ in ()).throw(Unsupported("flipped() of a plain object"))

    def isinst(v, ty, node):
        t = ty.split(".")[-1]
        if t == "FlippedInterface":
            return z3.BoolVal(isinstance(v, SymObj) and hasattr(v, "unflipped"))
        if t == "Interface":
            return z3.BoolVal(isinstance(v, SymObj) and v.cls == "Interface" and not hasattr(v, "unflipped"))
        return None
    ex.isinstance_hook = isinst
    return ex


def sub_cases(kind):
    """the argument of add(): a plain interface, a flipped interface (forwards every attribute), a foreign object"""
    out = []
    for case in ("interface", "flipped", "foreign"):
        if case == "foreign":
            out.append((case, Opaque("not an interface"), None)); continue
        b, h = bus("sub_bus", z3.IntVal(2), kind)
        if case == "flipped":
            fl = SymObj("Interface", "sub_bus")          # same attributes; isinstance(FlippedInterface) true; flipped() gives b
            fl.init_fields = b.init_fields; fl.bus_ident = b.bus_ident; fl.unflipped = b
            out.append((case, fl, h))
        else:
            out.append((case, b, h))
    return out


def verify_wb_decoder_add():
    fv = FnVerifier("wishbone.bus.Decoder.add", [])
    fn = find_def(WB, "Decoder.add")
    n_ok = 0
    for case, sub, sh in sub_cases("wb"):
        ex = setup(WB, "Decoder")
        q = Path()
        self_ = SymObj("Decoder", "self")
        dbus, dh = bus("self.bus", z3.IntVal(1), "wb")
        dbus.init_fields["_memory_map"] = SymObj("MemoryMap", "self.bus.memory_map", model=MapStub())
        self_.init_fields.update({"bus": dbus, "_subs": SymObj("dict", "self._subs", model=SubsDict())})
        name, addr, sparse = Opaque("name"), Opaque("addr"), Dyn("sparse")
        q.assume(sparse.wf())
        q.env.update({"self": self_, "sub_bus": sub, "name": name, "addr": addr, "sparse": sparse})
        outs = ex.run(fn, q)
        fv.paths += len(outs)
        for k, o in enumerate(outs):
            p = o.path
            lab = f"{case}:path{k}"
            if case == "foreign":
                fv.add("foreign-object-refused-with-TypeError", lab, p.pc, z3.BoolVal(o.kind == "raise" and o.exc == "TypeError"))
                fv.add("refusal-registers-nothing", lab, p.pc, z3.BoolVal("registered" not in p.ghost and not p.writes))
                continue
            sp = ex.truth(sparse)
            excluded = z3.Or(sh["g"] > dh["g"],
                             z3.And(z3.Not(sp), sh["dw"] != dh["dw"]),
                             z3.And(sp, sh["g"] != sh["dw"]),
                             *[z3.And(HasF(2, FEATS[f]), z3.Not(HasF(1, FEATS[f]))) for f in ("err", "rty", "stall")])
            if o.kind == "raise" and o.exc != "refused-by-add_window":
                fv.add("raises-only-ValueError", lab, p.pc, z3.BoolVal(o.exc == "ValueError"))
                fv.add("refuses-only-the-excluded-combinations", lab, p.pc, excluded)
                fv.add("refusal-registers-nothing", lab, p.pc, z3.BoolVal("registered" not in p.ghost and not p.writes))
                continue
            fv.add("accepts-only-the-allowed-combinations", lab, p.pc, z3.Not(excluded))
            aw_ = p.ghost.get("add_window")
            mmap = sub.init_fields["_memory_map"]
            ok = aw_ is not None and len(aw_[0]) == 1 and aw_[0][0] is mmap and aw_[1].get("name") is name and aw_[1].get("addr") is addr \
                and aw_[1].get("sparse") is sparse
            fv.add("accepted-window-is-handed-to-the-memory-map-unchanged", lab, p.pc, z3.BoolVal(bool(ok)))
            reg = p.ghost.get("registered")
            fv.add("subordinate-registered-under-its-memory-map", lab, p.pc, z3.BoolVal(reg is not None and reg[0] is mmap and reg[1] is sub))
            if o.kind == "return":
                n_ok += 1
                fv.add("returns-what-add_window-returns", lab, p.pc, z3.BoolVal(o.value is p.ghost.get("add_window_result")))
        fv.add_engine_obligations(ex)
    fv.add("cover:accepting-paths", "vacuity", [], z3.BoolVal(n_ok >= 2))
    return fv


def verify_wb_arbiter_add():
    fv = FnVerifier("wishbone.bus.Arbiter.add", [])
    fn = find_def(WB, "Arbiter.add")
    n_ok = 0
    for case, sub, sh in sub_cases("wb"):
        if case == "flipped":
            continue            # Arbiter.add does not unflip: a flipped interface is judged by isinstance(Interface) alone
        ex = setup(WB, "Arbiter")
        q = Path()
        self_ = SymObj("Arbiter", "self")
        abus, ah = bus("self.bus", z3.IntVal(1), "wb")
        self_.init_fields.update({"bus": abus, "_intrs": SymObj("list", "self._intrs", model=IntrList())})
        q.env.update({"self": self_, "intr_bus": sub})
        outs = ex.run(fn, q)
        fv.paths += len(outs)
        for k, o in enumerate(outs):
            p = o.path
            lab = f"{case}:path{k}"
            if case == "foreign":
                fv.add("foreign-object-refused-with-TypeError", lab, p.pc, z3.BoolVal(o.kind == "raise" and o.exc == "TypeError"))
                fv.add("refusal-registers-nothing", lab, p.pc, z3.BoolVal("registered" not in p.ghost and not p.writes))
                continue
            excluded = z3.Or(sh["aw"] != ah["aw"], sh["g"] < ah["g"], sh["dw"] != ah["dw"],
                             *[z3.And(HasF(1, FEATS[f]), z3.Not(HasF(2, FEATS[f]))) for f in ("err", "rty")])
            if o.kind == "raise":
                fv.add("raises-only-ValueError", lab, p.pc, z3.BoolVal(o.exc == "ValueError"))
                fv.add("refuses-only-the-excluded-combinations", lab, p.pc, excluded)
                fv.add("refusal-registers-nothing", lab, p.pc, z3.BoolVal("registered" not in p.ghost and not p.writes))
            else:
                n_ok += 1
                fv.add("accepts-only-the-allowed-combinations", lab, p.pc, z3.Not(excluded))
                fv.add("initiator-appended", lab, p.pc, z3.BoolVal(p.ghost.get("registered") is sub))
        fv.add_engine_obligations(ex)
    fv.add("cover:accepting-paths", "vacuity", [], z3.BoolVal(n_ok >= 1))
    return fv


def verify_csr_decoder_add():
    fv = FnVerifier("csr.bus.Decoder.add", [])
    fn = find_def(CSR, "Decoder.add")
    n_ok = 0
    for case, sub, sh in sub_cases("csr"):
        ex = setup(CSR, "Decoder")
        q = Path()
        self_ = SymObj("Decoder", "self")
        dbus, dh = bus("self.bus", z3.IntVal(1), "csr")
        # (the subordinate's map has the subordinate's data width, the decoder's map the decoder's: Interface.memory_map setter, Decoder.__init__)
        dbus.init_fields["_memory_map"] = SymObj("MemoryMap", "self.bus.memory_map", model=MapStub((sh["dw"], dh["dw"]) if sh is not None else None))
        self_.init_fields.update({"bus": dbus, "_subs": SymObj("dict", "self._subs", model=SubsDict())})
        name, addr = Opaque("name"), Opaque("addr")
        q.env.update({"self": self_, "sub_bus": sub, "name": name, "addr": addr})
        outs = ex.run(fn, q)
        fv.paths += len(outs)
        for k, o in enumerate(outs):
            p = o.path
            lab = f"{case}:path{k}"
            if case == "foreign":
                fv.add("foreign-object-refused-with-TypeError", lab, p.pc, z3.BoolVal(o.kind == "raise" and o.exc == "TypeError"))
                fv.add("refusal-registers-nothing", lab, p.pc, z3.BoolVal("registered" not in p.ghost and not p.writes))
                continue
            excluded = sh["dw"] != dh["dw"]
            if o.kind == "raise" and o.exc != "refused-by-add_window":
                fv.add("raises-only-ValueError", lab, p.pc, z3.BoolVal(o.exc == "ValueError"))
                fv.add("refuses-only-a-different-data-width", lab, p.pc, excluded)
                fv.add("refusal-registers-nothing", lab, p.pc, z3.BoolVal("registered" not in p.ghost and not p.writes))
                continue
            if o.kind == "raise":
                continue            # the memory map refused (its own contract); an entry left in _subs for a map that is no window is never
                                    # looked at: elaborate() visits the windows of the memory map only (Decoder.elaborate contract)
            fv.add("accepts-only-the-same-data-width", lab, p.pc, z3.Not(excluded))
            aw_ = p.ghost.get("add_window")
            mmap = sub.init_fields["_memory_map"]
            ok = aw_ is not None and len(aw_[0]) == 1 and aw_[0][0] is mmap and aw_[1].get("name") is name and aw_[1].get("addr") is addr \
                and "sparse" not in aw_[1]
            fv.add("accepted-window-is-handed-to-the-memory-map-unchanged", lab, p.pc, z3.BoolVal(bool(ok)))
            reg = p.ghost.get("registered")
            fv.add("subordinate-registered-under-its-memory-map", lab, p.pc, z3.BoolVal(reg is not None and reg[0] is mmap and reg[1] is sub))
            if o.kind == "return":
                n_ok += 1
                fv.add("returns-what-add_window-returns", lab, p.pc, z3.BoolVal(o.value is p.ghost.get("add_window_result")))
        fv.add_engine_obligations(ex)
    fv.add("cover:accepting-paths", "vacuity", [], z3.BoolVal(n_ok >= 2))
    return fv


ALL = [verify_wb_decoder_add, verify_wb_arbiter_add, verify_csr_decoder_add]
