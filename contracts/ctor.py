"""Constructor arithmetic of the peripherals under contract (pyvc): what geometry the constructor derives from its parameters
and hands to MemoryMap / Signature / add_resource / add_window.  Collaborators (event.Monitor, Multiplexer, wiring.Component,
MemoryMap ...) are STUBS that record their arguments: their own behaviour is covered by their own properties.

csr.event.EventMonitor.__init__   (C14)   reg_size = ceil(n / data_width); addr_width = 1 + max(ceil_log2(reg_size), alignment);
                                          both mask registers (size reg_size, rounded to the alignment) fit in 2**addr_width;
                                          enable then pending, implicit addresses; bus geometry = memory-map geometry
csr.wishbone.WishboneCSRBridge.__init__ (C10)  granularity = CSR data width; Wishbone address width = max(0, csr_aw - log2(ratio)),
                                          so 2**wb_aw * ratio >= 2**csr_aw (the whole CSR space is reachable); memory map
                                          (csr_aw, csr_dw) with the CSR map as a window under the given name
"""
import z3
from vf.pyvc.engine import (Empty, Exec, Path, SymObj, Dyn, Opaque, NONE, Raised, Tup, DictLit, find_def, pow2, clog2, POW2_AXIOMS,
                            CLOG2_AXIOMS, T_INT, T_NONE, Unsupported)
from vf.pyvc.driver import FnVerifier
from . import memory_model as mm_

AX = POW2_AXIOMS + CLOG2_AXIOMS


class Recorder:
    """records calls; every recorded callee may also refuse (its own contract)"""
    def __init__(self):
        self.calls = []

    def ctor(self, what, result_cls=None, may_refuse=True, fields=None):
        def h(ex, recv, args, kwargs, q, node):
            obj = SymObj(result_cls or what, f"{what}#{len(self.calls)}")
            if fields:
                obj.init_fields.update(fields(args, kwargs, obj))
            self.calls.append((what, q.fork(), args, kwargs, obj))
            out = [(obj, q)]
            if may_refuse:
                out.append((Raised(f"refused-by-{what}"), q.fork()))
            return out
        return h


class MapModel:
    def __init__(self, rec):
        self.rec = rec

    def call_add_resource(self, ex, recv, args, kwargs, q, node):
        self.rec.calls.append(("add_resource", q.fork(), args, kwargs, recv))
        return [(Opaque("(start, stop)"), q), (Raised("refused-by-add_resource"), q.fork())]

    def call_add_window(self, ex, recv, args, kwargs, q, node):
        self.rec.calls.append(("add_window", q.fork(), args, kwargs, recv))
        return [(Opaque("(start, stop, ratio)"), q), (Raised("refused-by-add_window"), q.fork())]

    def call_freeze(self, ex, recv, args, kwargs, q, node):
        self.rec.calls.append(("freeze", q.fork(), args, kwargs, recv))
        return [(NONE, q)]


def verify_eventmonitor_init():
    FILE = "amaranth_soc/csr/event.py"
    fv = FnVerifier("csr.event.EventMonitor.__init__", AX)
    fn = find_def(FILE, "EventMonitor.__init__")
    ex = Exec(FILE, "EventMonitor", axioms=AX)
    rec = Recorder()
    n = z3.Int("event_count")
    emap = SymObj("EventMap", "event_map"); emap.init_fields["size"] = n
    ex.contracts["event.Monitor"] = rec.ctor("Monitor", fields=lambda a, k, o: {"src": Opaque("monitor.src")})
    ex.contracts["_EventMaskRegister"] = rec.ctor("_EventMaskRegister", may_refuse=False)
    ex.contracts["MemoryMap"] = lambda ex_, recv, a, k, q, node: rec.ctor("MemoryMap")(ex_, recv, a, k, q, node)

    def c_memory_map(ex_, recv, a, k, q, node):
        obj = SymObj("MemoryMap", "memory_map", model=MapModel(rec))
        rec.calls.append(("MemoryMap", q.fork(), a, k, obj))
        return [(obj, q), (Raised("refused-by-MemoryMap"), q.fork())]
    ex.contracts["MemoryMap"] = c_memory_map

    def c_mux(ex_, recv, a, k, q, node):
        obj = SymObj("Multiplexer", "mux")
        b = SymObj("Interface", "mux.bus"); b.init_fields["memory_map"] = a[0]
        obj.init_fields["bus"] = b
        rec.calls.append(("Multiplexer", q.fork(), a, k, obj))
        return [(obj, q), (Raised("refused-by-Multiplexer"), q.fork())]
    ex.contracts["Multiplexer"] = c_mux
    ex.contracts["Signature"] = rec.ctor("Signature", may_refuse=True, fields=lambda a, k, o: dict(k))
    ex.contracts["Out"] = lambda ex_, recv, a, k, q, node: [(("Out", a[0]), q)]
    ex.contracts["In"] = lambda ex_, recv, a, k, q, node: [(("In", a[0]), q)]
    ex.contracts["super"] = lambda ex_, recv, a, k, q, node: [(Opaque("super()"), q)]

    def c_super_init(ex_, recv, a, k, q, node):
        members = a[0]
        self_ = q.env["self"]
        if not isinstance(members, DictLit):
            raise Unsupported("wiring.Component.__init__ with something else than a dict literal")
        q.ghost["members"] = members.items
        for name, (direction, sig) in members.items.items():
            port = SymObj("Interface", f"self.{name}")
            port.init_fields["signature"] = sig
            q.heap[(id(self_), name)] = port
        return [(NONE, q)]
    ex.contracts["super().__init__"] = c_super_init
    ex.isinstance_hook = lambda v, ty, node: None
    q = Path()
    self_ = SymObj("EventMonitor", "self")
    dw, al = Dyn("data_width"), Dyn("alignment")
    q.assume(z3.And(dw.wf(), al.wf(), n >= 0))
    q.env.update({"self": self_, "event_map": emap, "trigger": Opaque("trigger"), "data_width": dw, "alignment": al, "name": Opaque("name")})
    outs = ex.run(fn, q)
    fv.paths = len(outs)
    valid = z3.And(dw.tag == T_INT, dw.ival > 0, al.tag == T_INT, al.ival >= 0)
    n_ok = 0
    for k, o in enumerate(outs):
        p = o.path
        lab = f"path{k}"
        if o.kind == "raise":
            if o.exc.startswith("refused-by-"):
                continue            # a collaborator refused (its own contract); nothing claimed here
            fv.add("raises-only-ValueError-for-a-bad-width-or-alignment", lab, p.pc, z3.And(z3.BoolVal(o.exc == "ValueError"), z3.Not(valid)))
            continue
        n_ok += 1
        fv.add("accepts-only-valid-width-and-alignment", lab, p.pc, valid)
        mine = [c for c in rec.calls if all(any(f.eq(g) for g in p.pc) for f in c[1].pc)]       # calls made on (a prefix of) this path
        mm = [c for c in mine if c[0] == "MemoryMap"]
        ar = [c for c in mine if c[0] == "add_resource"]
        sg = [c for c in mine if c[0] == "Signature"]
        regs = [c for c in mine if c[0] == "_EventMaskRegister"]
        shape = len(mm) == 1 and len(ar) == 2 and len(sg) == 1 and len(regs) == 2
        fv.add("one-map-two-mask-registers-one-signature", lab, p.pc, z3.BoolVal(shape))
        if not shape:
            continue
        A, D, L = (ex.toint(mm[0][3][x]) for x in ("addr_width", "data_width", "alignment"))
        rs = ex.toint(ar[0][3]["size"])
        fv.add("map-data-width-and-alignment-are-the-arguments", lab, p.pc, z3.And(D == dw.ival, L == al.ival))
        fv.add("mask-register-size-is-ceil(events/data_width)", lab, p.pc, z3.And(rs * dw.ival >= n, (rs - 1) * dw.ival < n, rs >= 0))
        fv.add("mask-registers-are-as-wide-as-the-event-count", lab, p.pc,
               z3.And(ex.toint(regs[0][2][0]) == n, ex.toint(regs[1][2][0]) == n))
        fv.add("enable-then-pending-same-size-implicit-address", lab, p.pc,
               z3.And(ex.toint(ar[1][3]["size"]) == rs, z3.BoolVal(ar[0][2][0] is regs[0][4] and ar[1][2][0] is regs[1][4]
                                                                    and "addr" not in ar[0][3] and "addr" not in ar[1][3]
                                                                    and "alignment" not in ar[0][3] and "alignment" not in ar[1][3])))
        fv.add("address-width-is-1+max(ceil_log2(size),alignment)", lab, p.pc, A == 1 + z3.If(clog2(rs) >= L, clog2(rs), L))
        # capacity: the two registers, each rounded up to the map alignment (add_resource's rule, C02), fit into the map
        r1 = z3.If(rs >= 1, rs, 1)
        au = z3.Int("aligned_size")
        fits = z3.Implies(z3.And(au >= r1, au < r1 + pow2(L), au % pow2(L) == 0), 2 * au <= pow2(A))
        m_ = z3.If(clog2(rs) >= L, clog2(rs), L)
        P_ = pow2(L)
        inst = [mm_.lemma_pow2_succ(m_), mm_.lemma_multiples_gap(au, z3.IntVal(0), P_), mm_.lemma_multiples_gap(au, P_, P_),
                mm_.lemma_multiples_gap(au, pow2(clog2(rs)), P_), P_ % P_ == 0, z3.IntVal(0) % P_ == 0]
        fv.add("both-mask-registers-fit-the-address-space", lab, list(p.pc) + inst, fits)
        fv.add("canary:lemma-instances-consistent", lab, list(p.pc) + inst, z3.BoolVal(False), expect_sat="not-unsat")
        fv.add("bus-signature-has-the-map-geometry", lab, p.pc,
               z3.And(ex.toint(sg[0][3]["addr_width"]) == A, ex.toint(sg[0][3]["data_width"]) == D))
        members = p.ghost.get("members", {})
        okm = set(members) == {"src", "bus"} and members["bus"][0] == "In" and members["bus"][1] is sg[0][4] and members["src"][0] == "Out"
        fv.add("ports-are-src-out-and-bus-in", lab, p.pc, z3.BoolVal(bool(okm)))
        busobj = p.heap.get((id(self_), "bus"))
        fv.add("bus-memory-map-is-the-multiplexer's-map-which-is-the-built-map", lab, p.pc,
               z3.BoolVal(busobj is not None and p.heap.get((id(busobj), "memory_map")) is mm[0][4]))
    fv.add("cover:accepting-path", "vacuity", [], z3.BoolVal(n_ok >= 1))
    fv.add_engine_obligations(ex)
    return fv


def verify_wb_csr_bridge_init():
    FILE = "amaranth_soc/csr/wishbone.py"
    fv = FnVerifier("csr.wishbone.WishboneCSRBridge.__init__", AX)
    fn = find_def(FILE, "WishboneCSRBridge.__init__")
    n_ok = 0
    for case in ("interface", "flipped", "foreign"):
        ex = Exec(FILE, "WishboneCSRBridge", axioms=AX)
        rec = Recorder()
        caw, cdw = z3.Ints("csr_aw csr_dw")
        if case == "foreign":
            csr_bus = Opaque("not a csr.Interface")
        else:
            csr_bus = SymObj("Interface", "csr_bus")
            cmap = SymObj("MemoryMap", "csr_bus.memory_map")
            csr_bus.init_fields.update({"addr_width": caw, "data_width": cdw, "memory_map": cmap})
            if case == "flipped":
                csr_bus.unflipped = csr_bus

        def isinst(v, ty, node, case=case):
            t = ty.split(".")[-1]
            if t == "FlippedInterface":
                return z3.BoolVal(case == "flipped")
            if t == "Interface":
                return z3.BoolVal(isinstance(v, SymObj) and v.cls == "Interface")
            return None
        ex.isinstance_hook = isinst
        ex.contracts["flipped"] = lambda ex_, recv, a, k, q, node: [(a[0], q)]
        k_ = z3.Int("log2_ratio")

        def c_exact_log2(ex_, recv, a, kw, q, node):
            # amaranth.utils.exact_log2 (assumed dependency contract): ValueError unless the argument is a power of two, else its log
            x = ex_.toint(a[0], node)
            bad = q.fork()
            bad.ghost["log2_refused"] = True
            q.assume(z3.And(k_ >= 0, pow2(k_) == x))
            q.ghost["log2_of"] = x
            q.ghost["log2_ratio_term"] = k_
            return [(k_, q), (Raised("ValueError"), bad)]
        ex.contracts["exact_log2"] = c_exact_log2
        ex.contracts["wishbone.Signature"] = rec.ctor("Signature", fields=lambda a, k, o: dict(k))     # read-only properties = the arguments
        ex.contracts["In"] = lambda ex_, recv, a, k, q, node: [(("In", a[0]), q)]
        ex.contracts["super"] = lambda ex_, recv, a, k, q, node: [(Opaque("super()"), q)]

        def c_memory_map(ex_, recv, a, k, q, node):
            obj = SymObj("MemoryMap", "wb_map", model=MapModel(rec))
            rec.calls.append(("MemoryMap", q.fork(), a, k, obj))
            return [(obj, q), (Raised("refused-by-MemoryMap"), q.fork())]
        ex.contracts["MemoryMap"] = c_memory_map

        class PortModel:
            """self.wb_bus.memory_map = m goes through wishbone.Interface's setter.  Its contract (proved in
            signatures.verify_memory_map_setters): accepted iff m.data_width == granularity and
            m.addr_width == max(1, addr_width + log2(data_width // granularity)), else ValueError.  The constructor must
            never run into that refusal: obligation `memory-map-fits-the-wishbone-interface`."""
            def setattr(self, ex_, obj, attr, value, q, node):
                if attr != "memory_map":
                    return None
                sig = obj.init_fields["signature"]
                waw_, wdw_, wg_ = (ex_.toint(sig.init_fields[x]) for x in ("addr_width", "data_width", "granularity"))
                call = [c for c in rec.calls if c[0] == "MemoryMap" and c[4] is value]
                if not call:
                    raise Unsupported("memory_map assigned from something else than a fresh MemoryMap")
                maw_, mdw_ = ex_.toint(call[0][3]["addr_width"]), ex_.toint(call[0][3]["data_width"])
                kk = q.ghost.get("log2_ratio_term")
                if kk is None:
                    raise Unsupported("memory_map assigned before the ratio was computed")
                eff = waw_ + kk               # wdw_ // wg_ is the ratio whose exact_log2 is kk (clause granularity/width below)
                # Domain: CSR spaces of at least one Wishbone word (csr_aw >= log2(ratio)).  The complement is the recorded finding
                # C10 `accepts_valid_configuration:csr-space-smaller-than-one-wishbone-word` (there the setter ALWAYS refuses; it is
                # reported natively by the per-configuration part on every run, not hidden here).
                ex_.oblige("memory-map-fits-the-wishbone-interface[csr-space-at-least-one-word]", q,
                           z3.Implies(caw >= kk, z3.And(mdw_ == wg_, maw_ == z3.If(eff >= 1, eff, 1))), node)
                q.heap[(id(obj), attr)] = value
                q.writes.append((obj.name, attr))
                return [("fall", None, q)]

        def c_super_init(ex_, recv, a, k, q, node):
            members = a[0]
            self_ = q.env["self"]
            if not isinstance(members, DictLit):
                raise Unsupported("wiring.Component.__init__ with something else than a dict literal")
            q.ghost["members"] = members.items
            for name, (direction, sig) in members.items.items():
                port = SymObj("WbPort", f"self.{name}", model=PortModel())
                port.init_fields["signature"] = sig
                q.heap[(id(self_), name)] = port
            return [(NONE, q)]
        ex.contracts["super().__init__"] = c_super_init
        q = Path()
        self_ = SymObj("WishboneCSRBridge", "self")
        dw = Dyn("data_width")
        q.assume(z3.And(dw.wf(), caw > 0, cdw > 0))          # invariants of a csr.Interface (its signature validates them)
        q.env.update({"self": self_, "csr_bus": csr_bus, "data_width": dw, "name": Opaque("name")})
        outs = ex.run(fn, q)
        fv.paths += len(outs)
        for kk, o in enumerate(outs):
            p = o.path
            lab = f"{case}:path{kk}"
            if case == "foreign":
                fv.add("foreign-object-refused-with-TypeError", lab, p.pc, z3.BoolVal(o.kind == "raise" and o.exc == "TypeError"))
                continue
            widths = z3.Or(*[cdw == x for x in (8, 16, 32, 64)])
            if o.kind == "raise":
                if o.exc.startswith("refused-by-"):
                    continue
                fv.add("raises-only-ValueError", lab, p.pc, z3.BoolVal(o.exc == "ValueError"))
                if p.ghost.get("log2_refused"):
                    continue        # exact_log2 refused the ratio (not a power of two): the dependency's documented behaviour
                fv.add("refuses-only-unsupported-csr-widths", lab, p.pc, z3.Not(widths))
                continue
            n_ok += 1
            mine = [c for c in rec.calls if all(any(f.eq(g) for g in p.pc) for f in c[1].pc)]
            sg = [c for c in mine if c[0] == "Signature"]; mm = [c for c in mine if c[0] == "MemoryMap"]; aw_ = [c for c in mine if c[0] == "add_window"]
            shape = len(sg) == 1 and len(mm) == 1 and len(aw_) == 1
            fv.add("one-signature-one-map-one-window", lab, p.pc, z3.BoolVal(shape))
            if not shape:
                continue
            W = z3.If(dw.tag == T_NONE, cdw, dw.ival)                    # the Wishbone data width
            waw, wdw, wg = (ex.toint(sg[0][3][x]) for x in ("addr_width", "data_width", "granularity"))
            fv.add("accepts-only-supported-csr-widths", lab, p.pc, widths)
            fv.add("wishbone-data-width-is-the-argument-or-the-csr-width", lab, p.pc, wdw == W)
            fv.add("granularity-is-the-csr-data-width", lab, p.pc, wg == cdw)
            fv.add("ratio-is-a-power-of-two", lab, p.pc, z3.And(k_ >= 0, pow2(k_) == W / cdw))
            fv.add("wishbone-address-width-is-max(0,csr_aw-log2(ratio))", lab, p.pc, waw == z3.If(caw - k_ >= 0, caw - k_, 0))
            inst = [mm_.lemma_pow2_add(waw, k_)]
            fv.add("wishbone-address-space-times-ratio-covers-the-csr-space", lab, list(p.pc) + inst,
                   z3.And(pow2(waw) * pow2(k_) >= pow2(caw), z3.Implies(caw >= k_, pow2(waw) * pow2(k_) == pow2(caw))))
            fv.add("map-has-the-csr-geometry", lab, p.pc, z3.And(ex.toint(mm[0][3]["addr_width"]) == caw, ex.toint(mm[0][3]["data_width"]) == cdw))
            fv.add("csr-map-added-as-the-only-window-under-the-given-name", lab, p.pc,
                   z3.BoolVal(aw_[0][2][0] is csr_bus.init_fields["memory_map"] and aw_[0][3].get("name") is p.env["name"]
                              and "addr" not in aw_[0][3] and "sparse" not in aw_[0][3] and aw_[0][4] is mm[0][4]))
            port = p.heap.get((id(self_), "wb_bus"))
            fv.add("wb_bus-carries-that-map-and-the-bridge-keeps-the-csr-bus", lab, p.pc,
                   z3.BoolVal(port is not None and p.heap.get((id(port), "memory_map")) is mm[0][4] and p.heap.get((id(self_), "_csr_bus")) is csr_bus))
        fv.add_engine_obligations(ex)
    fv.add("cover:accepting-paths", "vacuity", [], z3.BoolVal(n_ok >= 2))
    return fv


def verify_sram_init():
    """wishbone.sram.WishboneSRAM.__init__ (C15), all parameter values:
      refusals        TypeError iff size is not a positive int power of two, or data_width / granularity (default: the data width) is not
                      in {8,16,32,64};  ValueError iff size * granularity < data_width;  nothing else is refused by the constructor itself
      memory          depth = size * granularity // data_width rows of unsigned(data_width) with the given init image
      ports           one read port; one write port of the bus granularity iff writable (writable is taken by truth value)
      bus             wishbone.Signature(addr_width = log2(depth), data_width, granularity)
      memory map      MemoryMap(addr_width = log2(size), data_width = granularity) with the memory as its only resource, named ("mem",),
                      of size `size` at an implicit address; frozen; carried by wb_bus
      geometry        2**bus_addr_width * (data_width // granularity) == size == 2**map_addr_width  when granularity <= data_width
                      (the bus addresses exactly the granules the map describes)"""
    FILE = "amaranth_soc/wishbone/sram.py"
    fv = FnVerifier("wishbone.sram.WishboneSRAM.__init__", AX)
    fn = find_def(FILE, "WishboneSRAM.__init__")
    ex = Exec(FILE, "WishboneSRAM", axioms=AX)
    rec = Recorder()
    logs = []

    def c_exact_log2(ex_, recv, a, kw, q, node):
        x = ex_.toint(a[0], node)
        k_ = z3.Int(f"log2#{len(logs)}"); logs.append((k_, x))
        bad = q.fork(); bad.ghost["log2_refused"] = True
        q.assume(z3.And(k_ >= 0, pow2(k_) == x))
        return [(k_, q), (Raised("ValueError"), bad)]
    ex.contracts["exact_log2"] = c_exact_log2
    ex.contracts["unsigned"] = lambda ex_, recv, a, k, q, node: [(("unsigned", a[0]), q)]
    ex.contracts["MemoryData"] = rec.ctor("MemoryData", fields=lambda a, k, o: dict(k))

    class MemModel:
        def call_read_port(self, ex_, recv, a, k, q, node):
            rec.calls.append(("read_port", q.fork(), a, k, recv)); return [(SymObj("ReadPort", "read_port"), q)]

        def call_write_port(self, ex_, recv, a, k, q, node):
            rec.calls.append(("write_port", q.fork(), a, k, recv)); return [(SymObj("WritePort", "write_port"), q)]

    def c_memory(ex_, recv, a, k, q, node):
        obj = SymObj("Memory", "memory", model=MemModel())
        data = a[0]
        if isinstance(data, SymObj) and "depth" in data.init_fields:
            obj.init_fields["depth"] = data.init_fields["depth"]
        rec.calls.append(("Memory", q.fork(), a, k, obj))
        return [(obj, q)]
    ex.contracts["Memory"] = c_memory
    ex.contracts["Signature"] = rec.ctor("Signature", fields=lambda a, k, o: dict(k))
    ex.contracts["In"] = lambda ex_, recv, a, k, q, node: [(("In", a[0]), q)]
    ex.contracts["super"] = lambda ex_, recv, a, k, q, node: [(Opaque("super()"), q)]

    def c_memory_map(ex_, recv, a, k, q, node):
        obj = SymObj("MemoryMap", "wb_map", model=MapModel(rec))
        rec.calls.append(("MemoryMap", q.fork(), a, k, obj))
        return [(obj, q), (Raised("refused-by-MemoryMap"), q.fork())]
    ex.contracts["MemoryMap"] = c_memory_map

    class PortModel:
        def setattr(self, ex_, obj, attr, value, q, node):
            if attr != "memory_map":
                return None
            q.heap[(id(obj), attr)] = value
            q.writes.append((obj.name, attr))
            return [("fall", None, q), ("raise", "refused-by-memory_map-setter", q.fork())]

    def c_super_init(ex_, recv, a, k, q, node):
        members = a[0]
        self__ = q.env["self"]
        if not isinstance(members, DictLit):
            raise Unsupported("wiring.Component.__init__ with something else than a dict literal")
        q.ghost["members"] = members.items
        for name, (direction, sig) in members.items.items():
            port = SymObj("WbPort", f"self.{name}", model=PortModel())
            port.init_fields["signature"] = sig
            q.heap[(id(self__), name)] = port
        return [(NONE, q)]
    ex.contracts["super().__init__"] = c_super_init
    WR = z3.Bool("writable_is_truthy")
    ex.contracts["bool"] = lambda ex_, recv, a, k, q, node: [(WR, q)] if a[0] is writable else (_ for _ in ()).throw(Unsupported("bool() of something else"))
    writable = Opaque("writable argument")
    init = Opaque("init argument")
    q = Path()
    self_ = SymObj("WishboneSRAM", "self")
    size, dw, g = Dyn("size"), Dyn("data_width"), Dyn("granularity")
    q.assume(z3.And(size.wf(), dw.wf(), g.wf()))
    q.env.update({"self": self_, "size": size, "data_width": dw, "granularity": g, "writable": writable, "init": init})
    outs = ex.run(fn, q)
    fv.paths = len(outs)
    inset = lambda v: z3.Or(*[v == w for w in (8, 16, 32, 64)])
    G = z3.If(g.tag == T_NONE, dw.ival, g.ival)
    n_ok = 0
    for kk, o in enumerate(outs):
        p, lab = o.path, f"path{kk}"
        # the value the engine gave `size & size - 1` on this path (pow2tests ghost): named so the lemma can speak about it
        tests = [r for (x, r) in p.ghost.get("pow2tests", ()) if x is not None]
        size_ok_by_test = z3.And(size.tag == T_INT, size.ival > 0, *[r == 0 for r in tests]) if tests else None
        if o.kind == "raise":
            if o.exc.startswith("refused-by-") or p.ghost.get("log2_refused"):
                continue
            fv.add("raises-only-TypeError-or-ValueError", lab, p.pc, z3.BoolVal(o.exc in ("TypeError", "ValueError")))
            types_ok = z3.And(size.tag == T_INT, size.ival > 0, *([r == 0 for r in tests]), dw.tag == T_INT, inset(dw.ival),
                              z3.Or(g.tag == T_NONE, z3.And(g.tag == T_INT, inset(g.ival))))
            if o.exc == "TypeError":
                fv.add("TypeError-only-for-a-bad-size-or-width", lab, p.pc, z3.Not(types_ok))
            else:
                fv.add("ValueError-only-when-the-memory-is-smaller-than-one-word", lab, p.pc, z3.And(types_ok, size.ival * G < dw.ival))
            continue
        n_ok += 1
        mine = [c for c in rec.calls if all(any(f.eq(h) for h in p.pc) for f in c[1].pc)]
        by = lambda what: [c for c in mine if c[0] == what]
        shape = all(len(by(w)) == 1 for w in ("MemoryData", "Memory", "Signature", "MemoryMap", "add_resource", "freeze", "read_port")) and len(by("write_port")) <= 1
        fv.add("one-memory-one-signature-one-map-one-resource", lab, p.pc, z3.BoolVal(shape))
        if not shape:
            continue
        fv.add("accepts-only-valid-parameters", lab, p.pc,
               z3.And(size.tag == T_INT, size.ival > 0, dw.tag == T_INT, inset(dw.ival), inset(G), size.ival * G >= dw.ival))
        md, sg, mm, ar = by("MemoryData")[0], by("Signature")[0], by("MemoryMap")[0], by("add_resource")[0]
        depth = ex.toint(md[3]["depth"])
        fv.add("memory-depth-is-size-times-granularity-over-data-width", lab, p.pc, depth == (size.ival * G) / dw.ival)
        fv.add("memory-rows-are-unsigned-data-width-with-the-given-init", lab, p.pc,
               z3.BoolVal(isinstance(md[3].get("shape"), tuple) and md[3]["shape"][0] == "unsigned" and md[3]["shape"][1] is dw and md[3].get("init") is init))
        fv.add("memory-built-from-that-data", lab, p.pc, z3.BoolVal(by("Memory")[0][2][0] is md[4]))
        wp = by("write_port")
        w_true = any(f.eq(WR) for f in p.pc); w_false = any(z3.is_not(f) and f.arg(0).eq(WR) for f in p.pc)
        fv.add("write-port-iff-writable", lab, p.pc, z3.BoolVal((w_true and len(wp) == 1) or (w_false and len(wp) == 0)))
        if wp:
            fv.add("write-port-has-the-bus-granularity", lab, p.pc, ex.toint(wp[0][3]["granularity"]) == G if "granularity" in wp[0][3] else z3.BoolVal(False))
        baw, bdw, bg = (ex.toint(sg[3][x]) for x in ("addr_width", "data_width", "granularity"))
        fv.add("bus-geometry", lab, p.pc, z3.And(bdw == dw.ival, bg == G, baw >= 0, pow2(baw) == depth))
        maw, mdw = ex.toint(mm[3]["addr_width"]), ex.toint(mm[3]["data_width"])
        # (C15 quantifies over sizes 2..N: a one-granule memory would need a zero-width memory map, which MemoryMap refuses)
        fv.add("map-geometry", lab, p.pc, z3.Implies(size.ival >= 2, z3.And(mdw == G, maw >= 0, pow2(maw) == size.ival)))
        fv.add("bus-addresses-exactly-the-granules-of-the-map", lab, p.pc, z3.Implies(z3.And(G <= dw.ival, size.ival >= 2), pow2(baw) * (dw.ival / G) == pow2(maw)))
        nm = ar[3].get("name")
        fv.add("memory-is-the-only-resource-named-mem-of-the-full-size", lab, p.pc,
               z3.And(z3.BoolVal(ar[2][0] is by("Memory")[0][4] and ar[4] is mm[4] and "addr" not in ar[3] and "alignment" not in ar[3]
                                 and isinstance(nm, tuple) and len(nm) == 1 and isinstance(nm[0], Opaque) and nm[0].what == "str:mem"),
                      ex.toint(ar[3]["size"]) == size.ival))
        fv.add("map-frozen-after-the-resource", lab, p.pc, z3.BoolVal(by("freeze")[0][4] is mm[4] and len(by("freeze")[0][1].pc) >= len(ar[1].pc)))
        port = p.heap.get((id(self_), "wb_bus"))
        fv.add("wb_bus-carries-that-map", lab, p.pc, z3.BoolVal(port is not None and p.heap.get((id(port), "memory_map")) is mm[4]))
        fv.add("size-and-writable-kept", lab, p.pc, z3.BoolVal(p.heap.get((id(self_), "_size")) is size and p.heap.get((id(self_), "_writable")) is WR))
    fv.add("cover:accepting-paths", "vacuity", [], z3.BoolVal(n_ok >= 2))
    fv.add_engine_obligations(ex)
    return fv


def verify_gpio_init():
    """gpio.Peripheral.__init__ (C16), all parameter values:
      refusals        TypeError iff pin_count is not a positive int or input_stages is not a non-negative int (nothing else by the
                      constructor itself; the builder, the registers and the signatures validate their own arguments)
      registers       exactly four, added to ONE csr.Builder(addr_width, data_width) in the order Mode, Input, Output, SetClr under those
                      names, each constructed for pin_count pins, at implicit offsets; the peripheral keeps what add() returns
      bridge          csr.Bridge over that builder's memory map; the peripheral's bus has the signature csr.Signature(addr_width, data_width)
                      and carries the BRIDGE's memory map (so the addresses software sees are the ones the bridge decodes)
      ports           `pins`: pin_count pin interfaces, `alt_mode`: pin_count bits; pin_count and input_stages kept as given"""
    FILE = "amaranth_soc/gpio.py"
    fv = FnVerifier("gpio.Peripheral.__init__", [])
    fn = find_def(FILE, "Peripheral.__init__")
    ex = Exec(FILE, "Peripheral", axioms=[])
    rec = Recorder()

    class BuilderModel:
        def call_add(self, ex_, recv, a, k, q, node):
            rec.calls.append(("add", q.fork(), a, k, recv))
            return [(a[1], q), (Raised("refused-by-Builder.add"), q.fork())]

        def call_as_memory_map(self, ex_, recv, a, k, q, node):
            mm = SymObj("MemoryMap", "builder map")
            rec.calls.append(("as_memory_map", q.fork(), a, k, mm))
            return [(mm, q), (Raised("refused-by-as_memory_map"), q.fork())]

    def c_builder(ex_, recv, a, k, q, node):
        obj = SymObj("Builder", f"builder#{len(rec.calls)}", model=BuilderModel())
        rec.calls.append(("Builder", q.fork(), a, k, obj))
        return [(obj, q), (Raised("refused-by-Builder"), q.fork())]
    ex.contracts["csr.Builder"] = c_builder
    for nm in ("Mode", "Input", "Output", "SetClr"):
        ex.contracts[f"self.{nm}"] = rec.ctor(nm)

    def c_bridge(ex_, recv, a, k, q, node):
        obj = SymObj("Bridge", "bridge")
        b = SymObj("Interface", "bridge.bus"); b.init_fields["memory_map"] = a[0]
        obj.init_fields["bus"] = b
        rec.calls.append(("Bridge", q.fork(), a, k, obj))
        return [(obj, q), (Raised("refused-by-Bridge"), q.fork())]
    ex.contracts["csr.Bridge"] = c_bridge
    ex.contracts["csr.Signature"] = rec.ctor("Signature", fields=lambda a, k, o: dict(k))
    ex.contracts["PinSignature"] = rec.ctor("PinSignature", may_refuse=False)
    ex.contracts["unsigned"] = lambda ex_, recv, a, k, q, node: [(("unsigned", a[0]), q)]
    ex.contracts["In"] = lambda ex_, recv, a, k, q, node: [(("In", a[0]), q)]

    class OutModel:
        def call_array(self, ex_, recv, a, k, q, node):
            return [(("Out-array", recv.inner, a[0]), q)]

    def c_out(ex_, recv, a, k, q, node):
        o = SymObj("Out", "Out(...)", model=OutModel()); o.inner = a[0]
        return [(o, q)]
    ex.contracts["Out"] = c_out
    ex.contracts["super"] = lambda ex_, recv, a, k, q, node: [(Opaque("super()"), q)]

    class PortModel:
        def setattr(self, ex_, obj, attr, value, q, node):
            if attr != "memory_map":
                return None
            q.heap[(id(obj), attr)] = value
            q.writes.append((obj.name, attr))
            return [("fall", None, q), ("raise", "refused-by-memory_map-setter", q.fork())]

    def c_super_init(ex_, recv, a, k, q, node):
        members = a[0]
        self__ = q.env["self"]
        if not isinstance(members, DictLit):
            raise Unsupported("wiring.Component.__init__ with something else than a dict literal")
        q.ghost["members"] = members.items
        port = SymObj("CsrPort", "self.bus", model=PortModel())
        q.heap[(id(self__), "bus")] = port
        return [(NONE, q)]
    ex.contracts["super().__init__"] = c_super_init
    q = Path()
    self_ = SymObj("Peripheral", "self")
    pc_, st_ = Dyn("pin_count"), Dyn("input_stages")
    aw, dw = Opaque("addr_width argument"), Opaque("data_width argument")
    q.assume(z3.And(pc_.wf(), st_.wf()))
    q.env.update({"self": self_, "pin_count": pc_, "addr_width": aw, "data_width": dw, "input_stages": st_})
    outs = ex.run(fn, q)
    fv.paths = len(outs)
    valid = z3.And(pc_.tag == T_INT, pc_.ival > 0, st_.tag == T_INT, st_.ival >= 0)
    n_ok = 0
    for kk, o in enumerate(outs):
        p, lab = o.path, f"path{kk}"
        if o.kind == "raise":
            if o.exc.startswith("refused-by-"):
                continue
            fv.add("refuses-with-TypeError-only-a-bad-pin-count-or-stage-count", lab, p.pc, z3.And(z3.BoolVal(o.exc == "TypeError"), z3.Not(valid)))
            continue
        n_ok += 1
        fv.add("accepts-only-valid-parameters", lab, p.pc, valid)
        mine = [c for c in rec.calls if all(any(f.eq(h) for h in p.pc) for f in c[1].pc)]
        by = lambda what: [c for c in mine if c[0] == what]
        shape = all(len(by(w)) == 1 for w in ("Builder", "Mode", "Input", "Output", "SetClr", "as_memory_map", "Bridge", "Signature")) and len(by("add")) == 4
        fv.add("one-builder-four-registers-one-bridge", lab, p.pc, z3.BoolVal(shape))
        if not shape:
            continue
        b = by("Builder")[0]
        fv.add("builder-has-the-bus-geometry", lab, p.pc, z3.BoolVal(b[3].get("addr_width") is aw and b[3].get("data_width") is dw and not b[2]))
        adds = by("add")
        names = [c[2][0].what if isinstance(c[2][0], Opaque) else None for c in adds]
        fv.add("registers-added-in-the-order-Mode-Input-Output-SetClr", lab, p.pc,
               z3.BoolVal(names == ["str:Mode", "str:Input", "str:Output", "str:SetClr"] and all(c[4] is b[4] and not c[3] for c in adds)))
        for c, nm in zip(adds, ("Mode", "Input", "Output", "SetClr")):
            made = by(nm)[0]
            fv.add(f"register-{nm}-built-for-pin_count-pins-and-added-itself", lab, p.pc,
                   z3.BoolVal(c[2][1] is made[4] and len(made[2]) == 1 and made[2][0] is pc_ and not made[3]))
        kept = [p.heap.get((id(self_), a)) for a in ("_mode", "_input", "_output", "_setclr")]
        fv.add("peripheral-keeps-the-registers-add-returned", lab, p.pc, z3.BoolVal(all(k is by(nm)[0][4] for k, nm in zip(kept, ("Mode", "Input", "Output", "SetClr")))))
        mmc, br, sg = by("as_memory_map")[0], by("Bridge")[0], by("Signature")[0]
        fv.add("bridge-over-the-builder's-memory-map-after-all-four-registers", lab, p.pc,
               z3.BoolVal(br[2][0] is mmc[4] and mmc[4] is not None and len(mmc[1].pc) >= len(adds[-1][1].pc) and p.heap.get((id(self_), "_bridge")) is br[4]))
        fv.add("bus-signature-has-the-given-geometry", lab, p.pc, z3.BoolVal(sg[3].get("addr_width") is aw and sg[3].get("data_width") is dw))
        members = p.ghost.get("members", {})
        ok_members = (set(members) == {"bus", "pins", "alt_mode"} and members["bus"] == ("In", sg[4])
                      and isinstance(members["pins"], tuple) and members["pins"][0] == "Out-array" and members["pins"][2] is pc_
                      and isinstance(members["alt_mode"], SymObj) and isinstance(getattr(members["alt_mode"], "inner", None), tuple)
                      and members["alt_mode"].inner == ("unsigned", pc_))
        fv.add("ports:bus-in,pins-array-of-pin_count,alt_mode-pin_count-bits", lab, p.pc, z3.BoolVal(bool(ok_members)))
        port = p.heap.get((id(self_), "bus"))
        fv.add("bus-carries-the-bridge's-memory-map", lab, p.pc, z3.BoolVal(port is not None and p.heap.get((id(port), "memory_map")) is mmc[4]))
        fv.add("pin-count-and-stages-kept", lab, p.pc, z3.BoolVal(p.heap.get((id(self_), "_pin_count")) is pc_ and p.heap.get((id(self_), "_input_stages")) is st_))
    fv.add("cover:accepting-paths", "vacuity", [], z3.BoolVal(n_ok >= 1))
    fv.add_engine_obligations(ex)
    return fv


def _bus_component_init(FILE, cls, sig_name, with_map, direction, list_attr):
    """shared shape of the three bus components' constructors: one bus port whose signature is built from the arguments AS GIVEN (the
    feature iterable handed over untouched - it may be a one-shot iterator), a fresh memory map of the matching geometry (decoders),
    an empty collection of subordinates / initiators"""
    qual = {"amaranth_soc/wishbone/bus.py": "wishbone.bus", "amaranth_soc/csr/bus.py": "csr.bus"}[FILE] + f".{cls}.__init__"
    fv = FnVerifier(qual, AX)
    fn = find_def(FILE, f"{cls}.__init__")
    ex = Exec(FILE, cls, axioms=AX)
    rec = Recorder()
    wb = FILE.endswith("wishbone/bus.py")
    aw, dw = z3.Ints("addr_width data_width")
    g = Dyn("granularity")
    k_ = z3.Int("log2_ratio")

    class OneShot:
        def iterated(self, ex_, obj, q, node):
            q.ghost["features_iterated"] = q.ghost.get("features_iterated", 0) + 1
    feats = SymObj("iterable", "features", model=OneShot())
    align = Opaque("alignment argument")

    def c_sig(ex_, recv, a, k, q, node):
        obj = SymObj("Signature", "bus signature")
        obj.init_fields.update(k)
        rec.calls.append(("Signature", q.fork(), a, k, obj))
        ok = q
        # the signature validated its arguments (its own contract, sig_init): on the accepting path they are a legal geometry
        if wb:
            geff = z3.If(g.tag == T_NONE, dw, g.ival)
            ok.assume(z3.And(aw >= 0, z3.Or(*[dw == w for w in (8, 16, 32, 64)]), z3.Or(g.tag == T_NONE, z3.And(g.tag == T_INT, z3.Or(*[g.ival == w for w in (8, 16, 32, 64)]))),
                             geff <= dw))
        else:
            ok.assume(z3.And(aw > 0, dw > 0))
        return [(obj, ok), (Raised("refused-by-Signature"), q.fork())]
    ex.contracts["Signature"] = c_sig

    def c_exact_log2(ex_, recv, a, kw, q, node):
        x = ex_.toint(a[0], node)
        bad = q.fork(); bad.ghost["log2_refused"] = True
        q.assume(z3.And(k_ >= 0, pow2(k_) == x))
        q.ghost["log2_of"] = x
        return [(k_, q), (Raised("ValueError"), bad)]
    ex.contracts["exact_log2"] = c_exact_log2
    ex.contracts["In"] = lambda ex_, recv, a, k, q, node: [(("In", a[0]), q)]
    ex.contracts["Out"] = lambda ex_, recv, a, k, q, node: [(("Out", a[0]), q)]
    ex.contracts["super"] = lambda ex_, recv, a, k, q, node: [(Opaque("super()"), q)]

    def c_memory_map(ex_, recv, a, k, q, node):
        obj = SymObj("MemoryMap", "bus map", model=MapModel(rec))
        rec.calls.append(("MemoryMap", q.fork(), a, k, obj))
        return [(obj, q), (Raised("refused-by-MemoryMap"), q.fork())]
    ex.contracts["MemoryMap"] = c_memory_map

    class PortModel:
        def setattr(self, ex_, obj, attr, value, q, node):
            if attr != "memory_map":
                return None
            q.heap[(id(obj), attr)] = value
            q.writes.append((obj.name, attr))
            return [("fall", None, q), ("raise", "refused-by-memory_map-setter", q.fork())]

    def c_super_init(ex_, recv, a, k, q, node):
        members = a[0]
        self__ = q.env["self"]
        if not isinstance(members, DictLit):
            raise Unsupported("wiring.Component.__init__ with something else than a dict literal")
        q.ghost["members"] = members.items
        port = SymObj("Port", "self.bus", model=PortModel())
        q.heap[(id(self__), "bus")] = port
        return [(NONE, q)]
    ex.contracts["super().__init__"] = c_super_init
    ex.empty_list_factory = lambda q: Empty("list")
    q = Path()
    self_ = SymObj(cls, "self")
    q.assume(g.wf())
    env = {"self": self_, "addr_width": aw, "data_width": dw}
    if wb:
        env.update({"granularity": g, "features": feats})
    if with_map:
        env["alignment"] = align
    if wb and with_map:
        env["name"] = Opaque("name")
    q.env.update(env)
    outs = ex.run(fn, q)
    fv.paths = len(outs)
    n_ok = 0
    for kk, o in enumerate(outs):
        p, lab = o.path, f"path{kk}"
        if o.kind == "raise":
            fv.add("the-constructor-itself-refuses-nothing", lab, p.pc, z3.BoolVal(o.exc.startswith("refused-by-") or bool(p.ghost.get("log2_refused"))))
            continue
        n_ok += 1
        mine = [c for c in rec.calls if all(any(f.eq(h) for h in p.pc) for f in c[1].pc)]
        sg = [c for c in mine if c[0] == "Signature"]; mmc = [c for c in mine if c[0] == "MemoryMap"]
        fv.add("one-signature" + ("-one-memory-map" if with_map else ""), lab, p.pc, z3.BoolVal(len(sg) == 1 and len(mmc) == (1 if with_map else 0)))
        if len(sg) != 1 or len(mmc) != (1 if with_map else 0):
            continue
        kw = sg[0][3]
        same = lambda v, sym: isinstance(v, z3.ExprRef) and v.eq(sym)
        ok_sig = same(kw.get("addr_width"), aw) and same(kw.get("data_width"), dw) and not sg[0][2]
        if wb:
            ok_sig = ok_sig and kw.get("features") is feats and set(kw) == {"addr_width", "data_width", "granularity", "features"}
        else:
            ok_sig = ok_sig and set(kw) == {"addr_width", "data_width"}
        fv.add("signature-built-from-the-arguments-as-given", lab, p.pc, z3.BoolVal(bool(ok_sig)))
        if wb:
            gv = kw.get("granularity")
            if with_map:        # the decoder resolves the default itself
                fv.add("granularity-default-is-the-data-width", lab, p.pc, ex.toint(gv) == z3.If(g.tag == T_NONE, dw, g.ival) if not (gv is g) else g.tag != T_NONE)
            else:               # the arbiter hands the argument (None included) to the signature, which resolves it
                fv.add("granularity-handed-over-as-given", lab, p.pc, z3.BoolVal(gv is g))
            fv.add("feature-iterable-not-consumed-by-the-constructor", lab, p.pc, z3.BoolVal(p.ghost.get("features_iterated", 0) == 0))
        mem = p.ghost.get("members", {})
        fv.add("one-port-named-bus-with-that-signature", lab, p.pc, z3.BoolVal(set(mem) == {"bus"} and mem["bus"] == (direction, sg[0][4])))
        if with_map:
            mk = mmc[0][3]
            geff = z3.If(g.tag == T_NONE, dw, g.ival)
            if wb:
                want_aw = z3.If(aw + k_ >= 1, aw + k_, 1)
                fv.add("map-geometry-matches-the-bus", lab, p.pc,
                       z3.And(ex.toint(mk["addr_width"]) == want_aw, ex.toint(mk["data_width"]) == geff, pow2(k_) == dw / geff, z3.BoolVal(mk.get("alignment") is align)))
            else:
                fv.add("map-geometry-matches-the-bus", lab, p.pc,
                       z3.And(ex.toint(mk["addr_width"]) == aw, ex.toint(mk["data_width"]) == dw, z3.BoolVal(mk.get("alignment") is align)))
            port = p.heap.get((id(self_), "bus"))
            fv.add("bus-carries-that-map", lab, p.pc, z3.BoolVal(port is not None and p.heap.get((id(port), "memory_map")) is mmc[0][4]))
        coll = p.heap.get((id(self_), list_attr))
        fv.add("starts-with-no-subordinates" if with_map else "starts-with-no-initiators", lab, p.pc, z3.BoolVal(isinstance(coll, Empty)))
    fv.add("cover:accepting-paths", "vacuity", [], z3.BoolVal(n_ok >= 1))
    fv.add_engine_obligations(ex)
    return fv


def verify_wb_decoder_init():
    return _bus_component_init("amaranth_soc/wishbone/bus.py", "Decoder", "Signature", True, "In", "_subs")


def verify_wb_arbiter_init():
    return _bus_component_init("amaranth_soc/wishbone/bus.py", "Arbiter", "Signature", False, "Out", "_intrs")


def verify_csr_decoder_init():
    return _bus_component_init("amaranth_soc/csr/bus.py", "Decoder", "Signature", True, "In", "_subs")


ALL = [verify_eventmonitor_init, verify_wb_csr_bridge_init, verify_sram_init, verify_gpio_init, verify_wb_decoder_init, verify_wb_arbiter_init, verify_csr_decoder_init]
