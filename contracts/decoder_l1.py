"""C06 (L1 part): the statements issued by the real csr.Decoder.elaborate(), for ANY number of windows (pyvc with recording hardware
stubs), plus a BOUNDED check of the pairwise OR reduction that follows the loop.

One arbitrary window (sub_map, sub_name, (sub_pat, sub_ratio)) of memory_map.window_patterns() is executed:
  window-ratio-is-one            the internal `assert sub_ratio == 1` (premise: csr.Decoder.add() only accepts buses of the decoder's
                                 data width, so every window has ratio 1 - busadd contract + add_window contract)
  subordinate-looked-up-by-map   the subordinate bus is `self._subs[sub_map]` (registered under its memory map by add(): busadd contract)
  address-and-write-data-always  inside Switch(bus.addr), outside any Case:  sub.addr := bus.addr[:sub.addr_width],  sub.w_data := bus.w_data
  strobes-only-in-the-window     inside Case(sub_pat):  sub.r_stb := bus.r_stb,  sub.w_stb := bus.w_stb
  read-data-collected-once       sub.r_data is appended to the fan-in list exactly once per window
  nothing-else-per-window
  upstream-read-data             after the loop: bus.r_data := (the fan-in reduced to one term) if any window else 0
The reduction loop `while len(l) > 1: l = [a | b for a, b in zip(l[0::2], l[1::2])] + l[len(l) & ~1:]` is extracted from the
real source on every run and executed natively on lists of 0..64 one-bit z3 terms: the single remaining term must be equivalent to
the OR of all of them (bounded stand-in, labelled; `reduction-is-the-or-of-all[<= 64]`).
"""
import ast
import z3
from vf.pyvc.engine import Exec, Path, SymObj, Opaque, NONE, Tup, find_def, Unsupported
from vf.pyvc.driver import FnVerifier
from . import hdlrec
from .hdlrec import Expr, same_expr

FILE = "amaranth_soc/csr/bus.py"


def reduction_bounded(fn, max_len=64):
    """-> (ok, detail): every `while` loop found in fn is run natively on symbolic one-bit lists of every length <= max_len"""
    whiles = [n for n in ast.walk(fn) if isinstance(n, ast.While)]
    if len(whiles) != 1:
        return False, f"{len(whiles)} while loops found (expected the one reduction loop)"
    wh = whiles[0]
    comp_vars = {n.id for c in ast.walk(wh) if isinstance(c, ast.comprehension) for n in ast.walk(c.target) if isinstance(n, ast.Name)}
    names = sorted({n.id for n in ast.walk(wh) if isinstance(n, ast.Name) and isinstance(n.ctx, ast.Store)} - comp_vars)
    if len(names) != 1:
        return False, f"the reduction loop stores to {names}"
    var = names[0]
    src = f"def _reduce({var}):\n" + "\n".join("    " + l for l in ast.unparse(wh).splitlines()) + f"\n    return {var}\n"
    ns = {}
    exec(compile(src, "<reduction loop extracted from csr.Decoder.elaborate>", "exec"), ns)
    for n in range(0, max_len + 1):
        leaves = [z3.BitVec(f"t{i}", 1) for i in range(n)]
        try:
            out = ns["_reduce"](list(leaves))
        except Exception as e:
            return False, f"length {n}: {type(e).__name__}: {e}"
        if n == 0:
            if out != []:
                return False, "length 0: not empty"
            continue
        if len(out) != 1:
            return False, f"length {n}: {len(out)} terms left"
        want = leaves[0]
        for x in leaves[1:]:
            want = want | x
        s = z3.Solver(); s.add(out[0] != want)
        if s.check() != z3.unsat:
            return False, f"length {n}: the remaining term is not the OR of all terms, e.g. {s.model()}"
    return True, f"lengths 0..{max_len}"


def verify_csr_decoder_elaborate():
    fv = FnVerifier("csr.bus.Decoder.elaborate", [])
    fn = find_def(FILE, "Decoder.elaborate")
    ex = Exec(FILE, "Decoder", axioms=[])
    log = hdlrec.Log()
    m, values = hdlrec.module(log)
    ex.contracts["Module"] = lambda ex_, recv, a, kw, q, node: [(m, q)]
    bus = SymObj("Interface", "self.bus")
    for nm in ("addr", "r_data", "r_stb", "w_data", "w_stb"):
        bus.init_fields[nm] = hdlrec.signal(values, "bus." + nm)
    sub = SymObj("Interface", "sub_bus")
    for nm in ("addr", "r_data", "r_stb", "w_data", "w_stb"):
        sub.init_fields[nm] = hdlrec.signal(values, "sub." + nm)
    SAW = z3.Int("sub_addr_width")
    sub.init_fields["addr_width"] = SAW
    sub_map = SymObj("MemoryMap", "sub_map")
    pat = Opaque("sub_pat")
    ratio = z3.Int("sub_ratio")

    class Subs:
        def getitem(self, ex_, recv, key, q, node):
            ex_.oblige("subordinate-looked-up-by-its-memory-map", q, z3.BoolVal(key is sub_map), node)
            return [(sub, q)]

    class MapModel:
        def call_window_patterns(self, ex_, recv, a, kw, q, node):
            return [(("window_patterns",), q)]
    mmap = SymObj("MemoryMap", "self.bus.memory_map", model=MapModel())
    bus.init_fields["memory_map"] = mmap
    self_ = SymObj("Decoder", "self")
    self_.init_fields.update({"bus": bus, "_subs": SymObj("dict", "self._subs", model=Subs())})

    class FanIn:
        """the fan-in list: the elements appended during this execution on top of an abstract earlier content"""
        def call_append(self, ex_, recv, a, kw, q, node):
            q.ghost["fanin"] = tuple(q.ghost.get("fanin", ())) + (a[0],)
            return [(NONE, q)]

        def truth(self, ex_, recv):
            return z3.Bool("some_window_exists")

        def getitem(self, ex_, recv, key, q, node):
            if not (z3.is_int_value(key) and key.as_long() == 0 and q.ghost.get("reduced")):
                raise Unsupported("fan-in list indexed before the reduction / not at 0")
            return [(values.wrap(Expr("or-of-all-windows", "sub.r_data")), q)]
    fanin = SymObj("list", "r_data_fanin", model=FanIn())
    ex.empty_list_factory = lambda q: fanin
    marks = {}

    def loop(ex_, st_node, path):
        if ast.unparse(st_node.iter) != "self.bus.memory_map.window_patterns()":
            ex_.unsupported(st_node, "another loop")
        body = path.fork()
        body.assume(ratio == 1)          # premise, see module docstring
        body.ghost["fanin"] = ()
        marks["start"] = len(log.entries)
        out = []
        for kind, _, q2 in ex_.assign(st_node.target, Tup((sub_map, Opaque("sub_name"), Tup((pat, ratio)))), body, st_node):
            for kind2, val2, q3 in ex_.block(st_node.body, q2):
                if kind2 in ("fall", "continue"):
                    marks.setdefault("ends", []).append((q3, len(log.entries)))
                else:
                    out.append((kind2, val2, q3))
        marks["after"] = len(log.entries)
        out.append(("fall", None, path))
        return out

    class _Every(dict):
        def get(self, key, default=None):
            return loop
    ex.loop_invariants = _Every()

    def while_handler(ex_, st_node, path):
        # contract of the reduction loop (verified boundedly by reduction_bounded on the extracted source): afterwards the list
        # holds one term, the OR of everything collected - or stays empty
        path.ghost["reduced"] = True
        return [("fall", None, path)]
    ex.while_handler = while_handler
    q = Path()
    q.env.update({"self": self_, "platform": Opaque("platform")})
    outs = ex.run(fn, q)
    fv.paths = len(outs)
    for k, o in enumerate(outs):
        fv.add("no-exception", f"path{k}", o.path.pc, z3.BoolVal(o.kind == "return"))
    g = lambda o, n: o.init_fields[n].expr
    for qend, upto in marks.get("ends", []):
        mine = [e for e in log.entries[marks["start"]:upto] if all(any(f.eq(h) for h in qend.pc) for f in e["path"].pc)]
        sw = ("Switch", g(bus, "addr"))
        case = ("Case", (Expr("opaque", "sub_pat"),))
        exp = [("address-forwarded-always", g(sub, "addr"), Expr("slice", g(bus, "addr"), z3.IntVal(0), SAW), (sw,)),
               ("write-data-forwarded-always", g(sub, "w_data"), g(bus, "w_data"), (sw,)),
               ("read-strobe-only-in-the-window", g(sub, "r_stb"), g(bus, "r_stb"), (sw, case)),
               ("write-strobe-only-in-the-window", g(sub, "w_stb"), g(bus, "w_stb"), (sw, case))]
        ok_len = len(mine) == len(exp) and all(e["kind"] == "assign" and e["domain"] == "comb" for e in mine)
        fv.add("nothing-else-per-window", "window", qend.pc, z3.BoolVal(ok_len))
        if ok_len:
            for (nm, dst, srcx, ctx), e in zip(exp, mine):
                fv.add(nm, "window", qend.pc, z3.And(z3.BoolVal(len(e["ctx"]) == len(ctx)), same_expr(e["dst"], dst), same_expr(e["src"], srcx),
                                                      *[z3.And(z3.BoolVal(c1[0] == c2[0]), same_expr(c1[1], c2[1])) for c1, c2 in zip(e["ctx"], ctx)]))
        fi = qend.ghost.get("fanin", ())
        fv.add("read-data-collected-once", "window", qend.pc, z3.BoolVal(len(fi) == 1 and fi[0] is sub.init_fields["r_data"]))
    tail = log.entries[marks.get("after", 0):]
    for e in tail:
        lab = "after-the-loop:" + ("some-window" if any("some_window_exists" in str(f) and not str(f).startswith("Not") for f in e["path"].pc) else "no-window")
        want = Expr("or-of-all-windows", "sub.r_data") if lab.endswith("some-window") else Expr("const", z3.IntVal(0))
        fv.add("upstream-read-data", lab, e["path"].pc, z3.And(z3.BoolVal(e["domain"] == "comb" and not e["ctx"]),
                                                              same_expr(e["dst"], g(bus, "r_data")), same_expr(e["src"], want)))
    fv.add("cover:window-and-both-tails", "vacuity", [], z3.BoolVal(len(marks.get("ends", [])) >= 1 and len(tail) == 2))
    ok, detail = reduction_bounded(fn)
    fv.add("reduction-is-the-or-of-all[<=64, bounded]", "native", [], z3.BoolVal(ok))
    fv.reduction_detail = detail
    fv.add_engine_obligations(ex)
    return fv


ALL = [verify_csr_decoder_elaborate]
