"""C06 (L1 part): the statements issued by the real csr.Decoder.elaborate(), for ANY number of windows (pyvc with recording hardware
stubs), plus a BOUNDED check of the pairwise OR reduction that follows the loop.

One arbitrary window (sub_map, sub_name, (sub_pat, sub_ratio)) of memory_map.window_patterns() is executed:
  window-ratio-is-one            the internal `assert sub_ratio == 1` (premise: csr.Decoder.add() only accepts buses of the decoder's
                                 data width, so every window has ratio 1 - busadd contract + add_window contract)
  subordinate-looked-up-by-map   the subordinate bus is `self._subs[sub_map]` (registered under its memory map by add(): busadd contract)
  address-and-write-data-always  inside Switch(bus.addr), outside any Case:  sub.addr := bus.addr[:sub.addr_width],  sub.w_data := bus.w_data
  strobes-only-in-the-window     inside Case(sub_pat):  sub.r_stb := bus.r_stb,  sub.w_stb := bus.w_stb
  read-data-collected-once       sub.r_data is appended to the fan-in list exactly once per window
  nothing-else-per-window
  upstream-read-data             after the loop: bus.r_data := (the fan-in reduced to one term) if any window else 0
The reduction loop `while len(l) > 1: l = [a | b for a, b in zip(l[0::2], l[1::2])] + l[len(l) & ~1:]` is extracted from the
real source on every run and executed natively on lists of 0..64 one-bit z3 terms: the single remaining term must be equivalent to
the OR of all of them (bounded stand-in, labelled; `reduction-is-the-or-of-all[<= 64]`).
"""
import ast
import z3
from vf.pyvc.engine import Exec, Path, SymObj, Opaque, NONE, Tup, find_def, Unsupported
from vf.pyvc.driver import FnVerifier
from . import hdlrec
from .hdlrec import Expr, same_expr

FILE = "amaranth_soc/csr/bus.py"


def reduction_bounded(fn, max_len=64):
    """-> (ok, detail): every `while` loop found in fn is run natively on symbolic one-bit lists of every length <= max_len"""
    whiles = [n for n in ast.walk(fn) if isinstance(n, ast.While)]
    if len(whiles) != 1:
        return False, f"{len(whiles)} while loops found (expected the one reduction loop)"
    wh = whiles[0]
    comp_vars = {n.id for c in ast.walk(wh) if isinstance(c, ast.comprehension) for n in ast.walk(c.target) if isinstance(n, ast.Name)}
    names = sorted({n.id for n in ast.walk(wh) if isinstance(n, ast.Name) and isinstance(n.ctx, ast.Store)} - comp_vars)
    if len(names) != 1:
        return False, f"the reduction loop stores to {names}"
    var = names[0]
    src = f"def _reduce({var}):\n" + "\n".join("    " + l for l in ast.unparse(wh).splitlines()) + f"\n    return {var}\n"
    ns = {}
    exec(compile(src, "<reduction loop extracted from csr.Decoder.elaborate>", "exec"), ns)
    for n in range(0, max_len + 1):
        leaves = [z3.BitVec(f"t{i}", 1) for i in range(n)]
        try:
            out = ns["_reduce"](list(leaves))
        except Exception as e:
            return False, f"length {n}: {type(e).__name__}: {e}"
        if n == 0:
            if out != []:
                return False, "length 0: not empty"
            continue
        if len(out) != 1:
            return False, f"length {n}: {len(out)} terms left"
        want = leaves[0]
        for x in leaves[1:]:
            want = want | x
        s = z3.Solver(); s.add(out[0] != want)
        if s.check() != z3.unsat:
            return False, f"length {n}: the remaining term is not the OR of all terms, e.g. {s.model()}"
    return True, f"lengths 0..{max_len}"


def verify_csr_decoder_elaborate():
    fv = FnVerifier("csr.bus.Decoder.elaborate", [])
    fn = find_def(FILE, "Decoder.elaborate")
    ex = Exec(FILE, "Decoder", axioms=[])
    log = hdlrec.Log()
    m, values = hdlrec.module(log)
    ex.contracts["Module"] = lambda ex_, recv, a, kw, q, node: [(m, q)]
    bus = SymObj("Interface", "self.bus")
    for nm in ("addr", "r_data", "r_stb", "w_data", "w_stb"):
        bus.init_fields[nm] = hdlrec.signal(values, "bus." + nm)
    sub = SymObj("Interface", "sub_bus")
    for nm in ("addr", "r_data", "r_stb", "w_data", "w_stb"):
        sub.init_fields[nm] = hdlrec.signal(values, "sub." + nm)
    SAW = z3.Int("sub_addr_width")
    sub.init_fields["addr_width"] = SAW
    sub_map = SymObj("MemoryMap", "sub_map")
    pat = Opaque("sub_pat")
    ratio = z3.Int("sub_ratio")

    class Subs:
        def getitem(self, ex_, recv, key, q, node):
            ex_.oblige("subordinate-looked-up-by-its-memory-map", q, z3.BoolVal(key is sub_map), node)
            return [(sub, q)]

    class MapModel:
        def call_window_patterns(self, ex_, recv, a, kw, q, node):
            return [(("window_patterns",), q)]
    mmap = SymObj("MemoryMap", "self.bus.memory_map", model=MapModel())
    bus.init_fields["memory_map"] = mmap
    self_ = SymObj("Decoder", "self")
    self_.init_fields.update({"bus": bus, "_subs": SymObj("dict", "self._subs", model=Subs())})

    class FanIn:
        """the fan-in list: the elements appended during this execution on top of an abstract earlier content"""
        def call_append(self, ex_, recv, a, kw, q, node):
            q.ghost["fanin"] = tuple(q.ghost.get("fanin", ())) + (a[0],)
            return [(NONE, q)]

        def truth(self, ex_, recv):
            return z3.Bool("some_window_exists")

        def getitem(self, ex_, recv, key, q, node):
            if not (z3.is_int_value(key) and key.as_long() == 0 and q.ghost.get("reduced")):
                raise Unsupported("fan-in list indexed before the reduction / not at 0")
            return [(values.wrap(Expr("or-of-all-windows", "sub.r_data")), q)]
    fanin = SymObj("list", "r_data_fanin", model=FanIn())
    ex.empty_list_factory = lambda q: fanin
    marks = {}

    def loop(ex_, st_node, path):
        if ast.unparse(st_node.iter) != "self.bus.memory_map.window_patterns()":
            ex_.unsupported(st_node, "another loop")
        body = path.fork()
        body.assume(ratio == 1)          # premise, see module docstring
        body.ghost["fanin"] = ()
        start_ = len(log.entries)
        marks["start"] = start_
        out = []
        for kind, _, q2 in ex_.assign(st_node.target, Tup((sub_map, Opaque("sub_name"), Tup((pat, ratio)))), body, st_node):
            for kind2, val2, q3 in ex_.block(st_node.body, q2):
                if kind2 in ("fall", "continue"):
                    marks.setdefault("ends", []).append((q3, len(log.entries), start_))
                else:
                    out.append((kind2, val2, q3))
        marks["after"] = len(log.entries)
        out.append(("fall", None, path))
        return out

    class _Every(dict):
        def get(self, key, default=None):
            return loop
    ex.loop_invariants = _Every()

    def while_handler(ex_, st_node, path):
        # contract of the reduction loop (verified boundedly by reduction_bounded on the extracted source): afterwards the list
        # holds one term, the OR of everything collected - or stays empty
        path.ghost["reduced"] = True
        return [("fall", None, path)]
    ex.while_handler = while_handler
    q = Path()
    q.env.update({"self": self_, "platform": Opaque("platform")})
    outs = ex.run(fn, q)
    fv.paths = len(outs)
    for k, o in enumerate(outs):
        fv.add("no-exception", f"path{k}", o.path.pc, z3.BoolVal(o.kind == "return"))
    g = lambda o, n: o.init_fields[n].expr
    for qend, upto, start_ in marks.get("ends", []):
        mine = [e for e in log.entries[start_:upto] if all(any(f.eq(h) for h in qend.pc) for f in e["path"].pc)]
        sw = ("Switch", g(bus, "addr"))
        case = ("Case", (Expr("opaque", "sub_pat"),))
        exp = [("address-forwarded-always", g(sub, "addr"), Expr("slice", g(bus, "addr"), z3.IntVal(0), SAW), (sw,)),
               ("write-data-forwarded-always", g(sub, "w_data"), g(bus, "w_data"), (sw,)),
               ("read-strobe-only-in-the-window", g(sub, "r_stb"), g(bus, "r_stb"), (sw, case)),
               ("write-strobe-only-in-the-window", g(sub, "w_stb"), g(bus, "w_stb"), (sw, case))]
        ok_len = len(mine) == len(exp) and all(e["kind"] == "assign" and e["domain"] == "comb" for e in mine)
        fv.add("nothing-else-per-window", "window", qend.pc, z3.BoolVal(ok_len))
        if ok_len:
            for (nm, dst, srcx, ctx), e in zip(exp, mine):
                fv.add(nm, "window", qend.pc, z3.And(z3.BoolVal(len(e["ctx"]) == len(ctx)), same_expr(e["dst"], dst), same_expr(e["src"], srcx),
                                                      *[z3.And(z3.BoolVal(c1[0] == c2[0]), same_expr(c1[1], c2[1])) for c1, c2 in zip(e["ctx"], ctx)]))
        fi = qend.ghost.get("fanin", ())
        fv.add("read-data-collected-once", "window", qend.pc, z3.BoolVal(len(fi) == 1 and fi[0] is sub.init_fields["r_data"]))
    tail = log.entries[marks.get("after", 0):]
    for e in tail:
        lab = "after-the-loop:" + ("some-window" if any("some_window_exists" in str(f) and not str(f).startswith("Not") for f in e["path"].pc) else "no-window")
        want = Expr("or-of-all-windows", "sub.r_data") if lab.endswith("some-window") else Expr("const", z3.IntVal(0))
        fv.add("upstream-read-data", lab, e["path"].pc, z3.And(z3.BoolVal(e["domain"] == "comb" and not e["ctx"]),
                                                              same_expr(e["dst"], g(bus, "r_data")), same_expr(e["src"], want)))
    fv.add("cover:window-and-both-tails", "vacuity", [], z3.BoolVal(len(marks.get("ends", [])) >= 1 and len(tail) == 2))
    ok, detail = reduction_bounded(fn)
    fv.add("reduction-is-the-or-of-all[<=64, bounded]", "native", [], z3.BoolVal(ok))
    fv.reduction_detail = detail
    from .hdlrec import stores_nothing_on_the_component as _frame
    _frame(fv, ex)
    fv.add_engine_obligations(ex)
    return fv


ALL = [verify_csr_decoder_elaborate]


# ---- wishbone.Decoder.elaborate ----------------------------------------------------------------------------------------
WB_FILE = "amaranth_soc/wishbone/bus.py"
OPT_REQ = ("lock", "cti", "bte")        # optional request signals (forwarded with a default when the decoder lacks them)
OPT_RSP = ("err", "rty", "stall")       # optional response signals


def verify_wb_decoder_elaborate():
    """C07 (L1 part): the statements issued by the real wishbone.Decoder.elaborate() for ONE ARBITRARY window, for every combination
    of optional signals on decoder and subordinate (hasattr() is a free boolean per signal; the paths enumerate them):
      request-forwarded-always       in Switch(bus.adr), outside any Case: sub.adr := bus.adr << log2(ratio), dat_w, sel (replicated by the
                                     ratio), we, stb copied; lock / cti / bte := the decoder's signal, or the documented default when it has none,
                                     and only if the subordinate has the signal
      selected-only-in-the-window    in Case(sub_pat[:bus.addr_width]): sub.cyc := bus.cyc and bus.dat_r := sub.dat_r
      responses-collected-once       ack is appended to its fan-in exactly once; err / rty / stall exactly once iff the subordinate has them
      nothing-else-per-window
      upstream-responses             after the loop: bus.ack := any_of(acks); bus.err / rty / stall := any_of(...) iff the decoder has them
    any_of (the pairwise OR reduction, a nested function) is replaced by its contract and checked natively on 0..64 terms (bounded)."""
    fv = FnVerifier("wishbone.bus.Decoder.elaborate", [])
    fn = find_def(WB_FILE, "Decoder.elaborate")
    ex = Exec(WB_FILE, "Decoder", axioms=[])
    log = hdlrec.Log()
    m, values = hdlrec.module(log)
    ex.contracts["Module"] = lambda ex_, recv, a, kw, q, node: [(m, q)]
    names = ("adr", "dat_w", "dat_r", "sel", "cyc", "stb", "we", "ack") + OPT_REQ + OPT_RSP
    bus = SymObj("Interface", "self.bus"); sub = SymObj("Interface", "sub_bus")
    for nm in names:
        bus.init_fields[nm] = hdlrec.signal(values, "bus." + nm)
        sub.init_fields[nm] = hdlrec.signal(values, "sub." + nm)
    BAW = z3.Int("bus_addr_width")
    bus.init_fields["addr_width"] = BAW
    has = {(o, f): z3.Bool(f"has_{o}_{f}") for o in ("bus", "sub") for f in OPT_REQ + OPT_RSP}

    def which(o):
        return "bus" if o is bus else ("sub" if o is sub else None)

    def c_hasattr(ex_, recv, a, kw, q, node):
        o, f = a
        w = which(o)
        if w and isinstance(f, Opaque) and f.what.startswith("str:") and (w, f.what[4:]) in has:
            return [(has[(w, f.what[4:])], q)]
        raise Unsupported(f"hasattr({o!r}, {f!r})")
    ex.contracts["hasattr"] = c_hasattr

    def c_getattr(ex_, recv, a, kw, q, node):
        o, f, default = a
        w = which(o)
        if not (w and isinstance(f, Opaque) and f.what.startswith("str:") and (w, f.what[4:]) in has):
            raise Unsupported(f"getattr({o!r}, {f!r}, default)")
        name = f.what[4:]
        yes, no = q, q.fork()
        yes.assume(has[(w, name)]); no.assume(z3.Not(has[(w, name)]))
        return [(o.init_fields[name], yes), (values.wrap(Expr("default", values.operand(ex_, default, node))), no)]
    ex.contracts["getattr"] = c_getattr
    RATIO = z3.Int("sub_ratio"); LOG = z3.Int("log2_ratio")
    ex.contracts["exact_log2"] = lambda ex_, recv, a, kw, q, node: [(LOG, q)]
    ex.contracts["Cat"] = lambda ex_, recv, a, kw, q, node: [(values.wrap(Expr("cat", "each bus.sel bit replicated sub_ratio times")), q)]
    sub_map = SymObj("MemoryMap", "sub_map")

    class PatModel:
        def getslice(self, ex_, recv, lo, hi, q, node):
            return values.wrap(Expr("pattern-prefix", ex_.toint(hi, node) if hi is not None else None))
    pat = SymObj("str", "sub_pat", model=PatModel())

    class Subs:
        def getitem(self, ex_, recv, key, q, node):
            ex_.oblige("subordinate-looked-up-by-its-memory-map", q, z3.BoolVal(key is sub_map), node)
            return [(sub, q)]

    class MapModel:
        def call_window_patterns(self, ex_, recv, a, kw, q, node):
            return [(("window_patterns",), q)]
    bus.init_fields["memory_map"] = SymObj("MemoryMap", "self.bus.memory_map", model=MapModel())
    self_ = SymObj("Decoder", "self")
    self_.init_fields.update({"bus": bus, "_subs": SymObj("dict", "self._subs", model=Subs())})
    lists = []

    class FanIn:
        def call_append(self, ex_, recv, a, kw, q, node):
            key = ("fanin", id(recv))
            q.ghost[key] = tuple(q.ghost.get(key, ())) + (a[0],)
            return [(NONE, q)]

    def new_list(q):
        o = SymObj("list", f"fanin{len(lists)}", model=FanIn()); lists.append(o); return o
    ex.empty_list_factory = new_list

    def c_any_of(ex_, recv, a, kw, q, node):
        if not (isinstance(a[0], SymObj) and a[0] in lists):
            raise Unsupported("any_of() of something that is not one of the fan-in lists")
        return [(values.wrap(Expr("or-of-all-windows", lists.index(a[0]))), q)]
    ex.contracts["any_of"] = c_any_of
    marks = {}

    def loop(ex_, st_node, path):
        if ast.unparse(st_node.iter) != "self.bus.memory_map.window_patterns()":
            ex_.unsupported(st_node, "another loop")
        body = path.fork()
        body.assume(z3.And(RATIO >= 1, LOG >= 0))
        start_ = len(log.entries)
        marks["start"] = start_
        out = []
        for kind, _, q2 in ex_.assign(st_node.target, Tup((sub_map, Opaque("sub_name"), Tup((pat, RATIO)))), body, st_node):
            for kind2, val2, q3 in ex_.block(st_node.body, q2):
                if kind2 in ("fall", "continue"):
                    marks.setdefault("ends", []).append((q3, len(log.entries), start_))
                else:
                    out.append((kind2, val2, q3))
        marks["after"] = len(log.entries)
        out.append(("fall", None, path))
        return out

    class _Every(dict):
        def get(self, key, default=None):
            return loop
    ex.loop_invariants = _Every()
    q = Path()
    q.env.update({"self": self_, "platform": Opaque("platform")})
    outs = ex.run(fn, q)
    fv.paths = len(outs)
    for k, o in enumerate(outs):
        fv.add("no-exception", f"path{k}", o.path.pc, z3.BoolVal(o.kind == "return"))
    g = lambda o, n: o.init_fields[n].expr

    def val(pc, var):
        for f in pc:
            if f.eq(var):
                return True
            if z3.is_not(f) and f.arg(0).eq(var):
                return False
        return None
    sw = ("Switch", g(bus, "adr"))
    defaults = {"lock": Expr("const", z3.IntVal(0)), "cti": Expr("opaque", "global:CycleType.CLASSIC"), "bte": Expr("opaque", "global:BurstTypeExt.LINEAR")}
    n_w = 0
    for qend, upto, start_ in marks.get("ends", []):
        n_w += 1
        lab = f"window-path{n_w}"
        mine = [e for e in log.entries[start_:upto] if all(any(f.eq(h) for h in qend.pc) for f in e["path"].pc)]
        exp = [("address-forwarded-shifted-by-log2-ratio", g(sub, "adr"), Expr("op", "LShift", (g(bus, "adr"), Expr("const", LOG))), (sw,)),
               ("write-data-forwarded", g(sub, "dat_w"), g(bus, "dat_w"), (sw,)),
               ("select-replicated", g(sub, "sel"), Expr("cat", "each bus.sel bit replicated sub_ratio times"), (sw,)),
               ("write-enable-forwarded", g(sub, "we"), g(bus, "we"), (sw,)),
               ("strobe-forwarded", g(sub, "stb"), g(bus, "stb"), (sw,))]
        # whether the subordinate has an optional signal must have been EXAMINED on every path (a path that never asks cannot
        # treat the signal correctly both when it is there and when it is not)
        unexamined = [f for f in OPT_REQ + OPT_RSP if val(qend.pc, has[("sub", f)]) is None]
        unexamined += ["decoder " + f for f in OPT_REQ if val(qend.pc, has[("sub", f)]) and val(qend.pc, has[("bus", f)]) is None]
        fv.add("every-optional-signal-examined", lab, qend.pc, z3.BoolVal(not unexamined))
        for f in OPT_REQ:
            if val(qend.pc, has[("sub", f)]):
                hb = val(qend.pc, has[("bus", f)])
                exp.append((f"{f}-forwarded-or-default", g(sub, f), g(bus, f) if hb else Expr("default", defaults[f]), (sw,)))
        case = ("Case", (Expr("pattern-prefix", BAW),))
        exp += [("cycle-only-in-the-window", g(sub, "cyc"), g(bus, "cyc"), (sw, case)),
                ("read-data-from-the-selected-window", g(bus, "dat_r"), g(sub, "dat_r"), (sw, case))]
        ok_len = len(mine) == len(exp) and all(e["kind"] == "assign" and e["domain"] == "comb" for e in mine)
        fv.add("nothing-else-per-window", lab, qend.pc, z3.BoolVal(ok_len))
        if ok_len:
            for (nm, dst, srcx, ctx), e in zip(exp, mine):
                fv.add(nm, lab, qend.pc, z3.And(z3.BoolVal(len(e["ctx"]) == len(ctx)), same_expr(e["dst"], dst), same_expr(e["src"], srcx),
                                                *[z3.And(z3.BoolVal(c1[0] == c2[0]), same_expr(c1[1], c2[1])) for c1, c2 in zip(e["ctx"], ctx)]))
        # fan-in lists in creation order: ack, err, rty, stall
        got = [qend.ghost.get(("fanin", id(l)), ()) for l in lists]
        want = [(sub.init_fields["ack"],)] + [((sub.init_fields[f],) if val(qend.pc, has[("sub", f)]) else ()) for f in OPT_RSP]
        fv.add("responses-collected-once", lab, qend.pc,
               z3.BoolVal(len(got) == 4 and all(len(a) == len(b) and all(x is y for x, y in zip(a, b)) for a, b in zip(got, want))))
    # after the loop
    tails = {}
    for e in log.entries[marks.get("after", 0):]:
        tails.setdefault(tuple(sorted(str(f) for f in e["path"].pc)), []).append(e)
    final = [o for o in outs if o.kind == "return"]
    for k, o in enumerate(final):
        mine = [e for e in log.entries[marks.get("after", 0):] if all(any(f.eq(h) for h in o.path.pc) for f in e["path"].pc)]
        exp = [(g(bus, "ack"), Expr("or-of-all-windows", 0))]
        fv.add("every-optional-response-of-the-decoder-examined", f"after-the-loop{k}", o.path.pc,
               z3.BoolVal(all(val(o.path.pc, has[("bus", f)]) is not None for f in OPT_RSP)))
        for idx, f in enumerate(OPT_RSP, start=1):
            if val(o.path.pc, has[("bus", f)]):
                exp.append((g(bus, f), Expr("or-of-all-windows", idx)))
        ok = len(mine) == len(exp) and all(e["domain"] == "comb" and not e["ctx"] for e in mine)
        fv.add("upstream-responses", f"after-the-loop{k}", o.path.pc,
               z3.And(z3.BoolVal(ok), *([z3.And(same_expr(e["dst"], d), same_expr(e["src"], s_)) for e, (d, s_) in zip(mine, exp)] if ok else [])))
    fv.add("cover:windows-and-tails", "vacuity", [], z3.BoolVal(n_w >= 8 and len(final) >= 8))
    # the reduction: the nested function any_of
    inner = [n for n in ast.walk(fn) if isinstance(n, ast.FunctionDef) and n.name == "any_of"]
    if len(inner) == 1:
        ok, detail = reduction_bounded_fn(inner[0])
    else:
        ok, detail = False, f"{len(inner)} nested functions named any_of"
    fv.add("reduction-is-the-or-of-all[<=64, bounded]", "native", [], z3.BoolVal(ok))
    fv.reduction_detail = detail
    from .hdlrec import stores_nothing_on_the_component as _frame
    _frame(fv, ex)
    fv.add_engine_obligations(ex)
    return fv


def reduction_bounded_fn(fdef, max_len=64):
    """any_of(terms) extracted from the source and run natively on 0..max_len one-bit z3 terms: result == OR of all (0 for none)"""
    src = ast.unparse(fdef)
    ns = {}
    exec(compile(src, "<any_of extracted from wishbone.Decoder.elaborate>", "exec"), ns)
    f = ns[fdef.name]
    for n in range(0, max_len + 1):
        leaves = [z3.BitVec(f"t{i}", 1) for i in range(n)]
        try:
            out = f(list(leaves))
        except Exception as e:
            return False, f"length {n}: {type(e).__name__}: {e}"
        if n == 0:
            if not (isinstance(out, int) and out == 0):
                return False, "no terms: result is not 0"
            continue
        want = leaves[0]
        for x in leaves[1:]:
            want = want | x
        s = z3.Solver(); s.add(out != want)
        if s.check() != z3.unsat:
            return False, f"length {n}: the result is not the OR of all terms"
    return True, f"lengths 0..{max_len}"


ALL = [verify_csr_decoder_elaborate, verify_wb_decoder_elaborate]
