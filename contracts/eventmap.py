"""C13 (L1 part): event.EventMap.add / index / size / freeze / sources under contract (pyvc).

Abstract state of an EventMap: n sources; dom[id] (registered), idx[id] (its index), at[k] (identity of the source numbered k).
Representation invariant: n >= 0; registered identities have an index in [0, n); at[] inverts idx[] on [0, n)
(=> indices are dense and pairwise distinct); insertion position = index (the index given at insertion is the size then,
so dict insertion order -- CPython, assumed -- is ascending index order).
"""
import ast
import z3
from vf.pyvc.engine import Exec, Path, SymObj, Dyn, Tup, Opaque, NONE, Raised, find_def, T_COMPONENT
from vf.pyvc.driver import FnVerifier

FILE = "amaranth_soc/event.py"
IntArr = z3.ArraySort(z3.IntSort(), z3.IntSort())
BoolArr = z3.ArraySort(z3.IntSort(), z3.BoolSort())
_i = z3.Int("ei")


class EMState:
    def __init__(self, tag):
        self.n = z3.Int(f"em_n{tag}")
        self.dom = z3.Const(f"em_dom{tag}", BoolArr)
        self.idx = z3.Const(f"em_idx{tag}", IntArr)
        self.at = z3.Const(f"em_at{tag}", IntArr)

    def copy(self):
        c = EMState.__new__(EMState); c.__dict__.update(self.__dict__); return c


def wf_parts(s):
    return [("size-nonneg", s.n >= 0),
            ("registered-sources-have-an-index-in-range", z3.ForAll([_i], z3.Implies(s.dom[_i], z3.And(0 <= s.idx[_i], s.idx[_i] < s.n, s.at[s.idx[_i]] == _i)))),
            ("every-index-below-size-is-used-exactly-once", z3.ForAll([_i], z3.Implies(z3.And(0 <= _i, _i < s.n), z3.And(s.dom[s.at[_i]], s.idx[s.at[_i]] == _i))))]


def wf(s):
    return z3.And(*[f for _, f in wf_parts(s)])


def st_of(q, obj):
    return q.ghost[("em", id(obj))]


class SrcDict:
    def __init__(self, owner):
        self.owner = owner

    def contains(self, ex, recv, key, q, node):
        return st_of(q, self.owner).dom[ex.toint(key, node)]

    def length(self, ex, recv, q, node):
        return st_of(q, self.owner).n          # len(dict) = number of keys = n (representation invariant)

    def getitem(self, ex, recv, key, q, node):
        s = st_of(q, self.owner)
        k = ex.toint(key, node)
        hit, miss = q.fork(), q
        hit.assume(s.dom[k]); miss.assume(z3.Not(s.dom[k]))
        out = []
        if ex.feasible(hit.pc):
            out.append((Tup((Opaque("src"), s.idx[k])), hit))
        if ex.feasible(miss.pc):
            out.append((Raised("KeyError"), miss))
        return out

    def setitem(self, ex, recv, key, value, q, node):
        s = st_of(q, self.owner).copy()
        k = ex.toint(key, node)
        src, index = value
        ex.oblige(f"dict-store-is-an-insertion@{node.lineno}", q, z3.Not(s.dom[k]), node)
        i = ex.toint(index, node)
        s.at = z3.Store(s.at, i, k)
        s.dom = z3.Store(s.dom, k, True); s.idx = z3.Store(s.idx, k, i); s.n = s.n + 1
        q.ghost[("em", id(self.owner))] = s
        q.writes.append((self.owner.name, "_sources"))
        return [("fall", None, q)]


def fresh(q):
    em = SymObj("EventMap", "self")
    s = EMState("")
    q.ghost[("em", id(em))] = s
    em.init_fields["_sources"] = SymObj("dict", "self._sources", model=SrcDict(em))
    em.init_fields["_frozen"] = z3.Bool("em_frozen")
    q.assume(wf(s))
    return em, s


def base_exec():
    ex = Exec(FILE, "EventMap", axioms=[])
    ex.class_files = {"EventMap": FILE}
    ex.isinstance_hook = lambda v, ty, node: (v.tag == T_COMPONENT) if (ty == "Source" and isinstance(v, Dyn)) else None
    return ex


def verify_add():
    fv = FnVerifier("event.EventMap.add", [])
    fn = find_def(FILE, "EventMap.add")
    ex = base_exec()
    q = Path()
    em, s0 = fresh(q)
    src = Dyn("src"); q.assume(src.wf())
    q.env.update({"self": em, "src": src})
    outs = ex.run(fn, q)
    fv.paths = len(outs)
    frozen0 = em.init_fields["_frozen"]
    for k, o in enumerate(outs):
        p = o.path
        s1 = st_of(p, em)
        if o.kind == "raise":
            fv.add("raises-only-ValueError-or-TypeError", f"path{k}", p.pc, z3.BoolVal(o.exc in ("ValueError", "TypeError")))
            fv.add("raise-leaves-map-unchanged", f"path{k}", p.pc, z3.BoolVal(s1 is s0 and not p.writes))
            fv.add("raises-only-when-frozen-or-not-a-source", f"path{k}", p.pc, z3.Or(frozen0, src.tag != T_COMPONENT))
            continue
        sid = src.ident
        fv.add("frozen-map-refuses", f"path{k}", p.pc, z3.Not(frozen0))
        fv.add("only-sources-accepted", f"path{k}", p.pc, src.tag == T_COMPONENT)
        fv.add("new-source-gets-the-next-index", f"path{k}", p.pc,
               z3.Implies(z3.Not(s0.dom[sid]), z3.And(s1.dom[sid], s1.idx[sid] == s0.n, s1.n == s0.n + 1)))
        fv.add("repeat-is-ignored", f"path{k}", p.pc, z3.Implies(s0.dom[sid], z3.BoolVal(s1 is s0)))
        fv.add("existing-indices-stable", f"path{k}", p.pc,
               z3.ForAll([_i], z3.Implies(s0.dom[_i], z3.And(s1.dom[_i], s1.idx[_i] == s0.idx[_i]))))
        fv.add("nothing-else-registered", f"path{k}", p.pc, z3.ForAll([_i], z3.Implies(z3.And(s1.dom[_i], _i != sid), s0.dom[_i])))
        for nm, f in wf_parts(s1):
            fv.add("wf-preserved:" + nm, f"path{k}", p.pc, f)
    fv.add_engine_obligations(ex)
    return fv


def verify_index():
    fv = FnVerifier("event.EventMap.index", [])
    fn = find_def(FILE, "EventMap.index")
    ex = base_exec()
    q = Path()
    em, s0 = fresh(q)
    src = Dyn("src"); q.assume(src.wf())
    q.env.update({"self": em, "src": src})
    outs = ex.run(fn, q)
    fv.paths = len(outs)
    for k, o in enumerate(outs):
        p = o.path
        fv.add("modifies-nothing", f"path{k}", p.pc, z3.BoolVal(st_of(p, em) is s0 and not p.writes))
        if o.kind == "raise":
            fv.add("raises-only-TypeError-or-KeyError", f"path{k}", p.pc, z3.BoolVal(o.exc in ("TypeError", "KeyError")))
            if o.exc == "KeyError":
                fv.add("KeyError-iff-unknown-source", f"path{k}", p.pc, z3.And(src.tag == T_COMPONENT, z3.Not(s0.dom[src.ident])))
            else:
                fv.add("TypeError-iff-not-a-source", f"path{k}", p.pc, src.tag != T_COMPONENT)
        else:
            r = ex.toint(o.value)
            fv.add("returns-the-registered-index", f"path{k}", p.pc, z3.And(s0.dom[src.ident], r == s0.idx[src.ident], 0 <= r, r < s0.n))
    fv.add_engine_obligations(ex)
    return fv


def verify_size_freeze():
    fv = FnVerifier("event.EventMap.size/freeze", [])
    ex = base_exec()
    q = Path()
    em, s0 = fresh(q)
    q.env["self"] = em
    fn = find_def(FILE, "EventMap.size")
    for k, o in enumerate(ex.run(fn, q.fork())):
        fv.add("size-is-number-of-sources", f"size:path{k}", o.path.pc, z3.And(z3.BoolVal(o.kind == "return"), ex.toint(o.value) == s0.n) if o.kind == "return" else z3.BoolVal(False))
    fn = find_def(FILE, "EventMap.freeze")
    for k, o in enumerate(ex.run(fn, q.fork())):
        p = o.path
        fv.add("freeze-sets-flag-only", f"freeze:path{k}", p.pc,
               z3.And(z3.BoolVal(o.kind == "return" and st_of(p, em) is s0), ex.getattr(em, "_frozen", p, None)[0][0] == True))
    fv.paths = 2
    fv.add_engine_obligations(ex)
    return fv


def verify_sources():
    """sources(): `yield from self._sources.values()` -- the values are exactly the (source, index) pairs (dict semantics, assumed);
    what is proved here is that ascending insertion position = ascending index, i.e. first-addition order."""
    fv = FnVerifier("event.EventMap.sources", [])
    fn = find_def(FILE, "EventMap.sources")
    ok = (len(fn.body) == 2 or len(fn.body) == 1) and isinstance(fn.body[-1], ast.Expr) and isinstance(fn.body[-1].value, ast.YieldFrom) \
        and ast.unparse(fn.body[-1].value.value) == "self._sources.values()"
    fv.add("body-is-yield-from-the-dict-values", "shape", [], z3.BoolVal(bool(ok)))
    q = Path()
    em, s0 = fresh(q)
    a, b = z3.Ints("sa sb")
    fv.add("indices-are-dense-and-distinct", "lemma", list(q.pc),
           z3.ForAll([a, b], z3.Implies(z3.And(s0.dom[a], s0.dom[b], a != b), s0.idx[a] != s0.idx[b])))
    fv.paths = 1
    return fv


ALL = [verify_add, verify_index, verify_size_freeze, verify_sources]
