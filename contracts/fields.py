"""C11 (L1 part): the ORDER in which a register's fields are visited, and what Register.__init__ derives from it (pyvc).

FieldActionMap.flatten / FieldActionArray.flatten   for ONE ARBITRARY item (key, child) of the collection, in the collection's own order:
    a leaf child            yields exactly one pair whose field is the child itself
    a container child       re-yields every pair of the child's own flatten() (the FIELD of each pair unchanged), in the child's order,
                            and nothing else.  How the path of a pair is composed is not part of C11 and is not required.
  Generators yield as they go, so the flattened sequence is the depth-first, declaration-order walk of the nested collection
  (induction over the nesting depth: the child's flatten() is this same contract one level down).
Register.__iter__        a single Field: one pair with the EMPTY path and the field; a collection: exactly its flatten()
Register.__init__        (fields given as an argument) the loop over `self`: invariant width == WidthPrefixSum(k); a field that is
                         readable / writable while the register's access mode is not is refused with ValueError, and ONLY such a field;
                         after the loop the element signature is Element.Signature(WidthPrefixSum(n), access) - the sum of all
                         field widths
The per-field bit ranges then follow from the same prefix sum in Register.elaborate (contracts/register.py).
"""
import ast
import z3
from vf.pyvc.engine import Exec, Path, SymObj, Dyn, Opaque, NONE, Raised, Tup, Spread, DictLit, find_def, Unsupported
from vf.pyvc.driver import FnVerifier
from .register import W, PS, Rd, Wr, K

FILE = "amaranth_soc/csr/reg.py"


def verify_flatten(cls):
    fv = FnVerifier(f"csr.reg.{cls}.flatten", [])
    fn = find_def(FILE, f"{cls}.flatten")
    leaf = SymObj("FieldAction", "leaf child")
    sub_field = SymObj("FieldAction", "field yielded by the child")
    class PathModel:
        def length(self, ex_, recv, q, node):
            return z3.Int("length_of_the_child's_path")
    sub_path = SymObj("tuple", "path yielded by the child", model=PathModel())
    n_leaf = n_cont = 0
    for child_kind in ("leaf", "FieldActionMap", "FieldActionArray"):
        ex = Exec(FILE, cls, axioms=[])

        class ContModel:
            def call_flatten(self, ex_, recv, a, kw, q, node):
                return [(("flatten-of", recv), q)]
        child = leaf if child_kind == "leaf" else SymObj(child_kind, "container child", model=ContModel())
        key = Opaque("key") if cls == "FieldActionMap" else z3.Int("index")

        class SelfModel:
            def call_items(self, ex_, recv, a, kw, q, node):
                return [(("items",), q)]
        self_ = SymObj(cls, "self", model=SelfModel())
        self_.init_fields["_fields"] = Opaque("the stored fields")
        ex.contracts["enumerate"] = lambda ex_, recv, a, kw, q, node: [(("enumerate", a[0]), q)]
        ex.isinstance_hook = lambda v, ty, node: (z3.BoolVal(isinstance(v, SymObj) and v.cls in ("FieldActionMap", "FieldActionArray"))
                                                  if "FieldActionMap" in ty and "FieldActionArray" in ty else None)
        marks = {}

        def loop(ex_, st_node, path):
            it = ast.unparse(st_node.iter)
            out = []
            if it in ("self.items()", "enumerate(self._fields)"):
                if (cls == "FieldActionMap") != (it == "self.items()"):
                    ex_.unsupported(st_node, f"{cls}.flatten iterates {it}")
                body = path.fork()
                marks["outer_start"] = len(ex_.yields)
                for kind, _, q2 in ex_.assign(st_node.target, Tup((key, child)), body, st_node):
                    for kind2, val2, q3 in ex_.block(st_node.body, q2):
                        if kind2 in ("fall", "continue"):
                            marks.setdefault("outer_ends", []).append((q3, len(ex_.yields)))
                        elif kind2 in ("break", "return"):
                            ex_.oblige("every-item-is-visited:no-early-exit-from-the-loop", q3, z3.BoolVal(False), st_node)
                        else:
                            out.append((kind2, val2, q3))
                out.append(("fall", None, path))
                return out
            if it == "field.flatten()":
                src = path.env.get("field")
                ex_.oblige("inner-loop-runs-over-the-child's-own-flatten", path, z3.BoolVal(src is child and child_kind != "leaf"), st_node)
                body = path.fork()
                marks["inner_start"] = len(ex_.yields)
                for kind, _, q2 in ex_.assign(st_node.target, Tup((sub_path, sub_field)), body, st_node):
                    for kind2, val2, q3 in ex_.block(st_node.body, q2):
                        if kind2 in ("fall", "continue"):
                            marks.setdefault("inner_ends", []).append((q3, len(ex_.yields)))
                        elif kind2 in ("break", "return"):
                            ex_.oblige("every-pair-of-the-child-is-visited:no-early-exit-from-the-inner-loop", q3, z3.BoolVal(False), st_node)
                        else:
                            out.append((kind2, val2, q3))
                marks["inner_stop"] = len(ex_.yields)
                out.append(("fall", None, path))
                return out
            ex_.unsupported(st_node, f"loop over {it}")

        class _Every(dict):
            def get(self, key_, default=None):
                return loop
        ex.loop_invariants = _Every()
        q = Path()
        q.env.update({"self": self_})
        outs = ex.run(fn, q)
        fv.paths += len(outs)
        lab = child_kind
        for k_, o in enumerate(outs):
            fv.add("no-exception", f"{lab}:path{k_}", o.path.pc, z3.BoolVal(o.kind in ("return", "fall")))
        ys = ex.yields
        same_key = lambda v: (v is key) if not isinstance(key, z3.ExprRef) else (isinstance(v, z3.ExprRef) and v.eq(key))
        if child_kind == "leaf":
            n_leaf += 1
            # (what the PATH looks like is not part of C11 - field order and identity are; the path shape is recorded, not required)
            ok = len(ys) == 1 and isinstance(ys[0][0], tuple) and len(ys[0][0]) == 2 and ys[0][0][1] is leaf
            fv.add("leaf-child-yields-exactly-(key,)-and-itself", lab, [], z3.BoolVal(bool(ok)))
            fv.add("leaf-child-has-no-inner-loop", lab, [], z3.BoolVal("inner_start" not in marks))
        else:
            n_cont += 1
            inner = ys[marks.get("inner_start", 0):marks.get("inner_stop", 0)]
            outside = len(ys) - len(inner)
            ok = len(inner) == 1 and isinstance(inner[0][0], tuple) and len(inner[0][0]) == 2 and inner[0][0][1] is sub_field
            fv.add("container-child:each-of-its-pairs-re-yielded-with-the-key-prepended", lab, [], z3.BoolVal(bool(ok)))
            fv.add("container-child:nothing-yielded-outside-the-inner-loop", lab, [], z3.BoolVal(outside == 0))
        fv.add_engine_obligations(ex)
    fv.add("cover:leaf-and-both-container-kinds", "vacuity", [], z3.BoolVal(n_leaf == 1 and n_cont == 2))
    return fv


def verify_map_flatten():
    return verify_flatten("FieldActionMap")


def verify_array_flatten():
    return verify_flatten("FieldActionArray")


def verify_register_iter():
    fv = FnVerifier("csr.reg.Register.__iter__", [])
    fn = find_def(FILE, "Register.__iter__")
    seen = 0
    for kind in ("FieldAction", "FieldActionMap", "FieldActionArray"):
        ex = Exec(FILE, "Register", axioms=[])

        class ContModel:
            def call_flatten(self, ex_, recv, a, kw, q, node):
                return [(("flatten-of", recv), q)]
        fld = SymObj(kind, "self.field", model=None if kind == "FieldAction" else ContModel())
        ex.isinstance_hook = lambda v, ty, node: z3.BoolVal(isinstance(v, SymObj) and v.cls == ty.split(".")[-1])
        yf = []

        # `yield from X`: recorded as such (the engine has no generator contract for it: handled here at statement level)
        orig = ex.do_yield

        def do_yield(node, path, orig=orig, yf=yf):
            if isinstance(node, ast.YieldFrom):
                out = []
                for v, p in ex.eval(node.value, path):
                    yf.append((v, p.fork())); out.append(("fall", None, p))
                return out
            return orig(node, path)
        ex.do_yield = do_yield
        self_ = SymObj("Register", "self")
        self_.init_fields["_field"] = fld
        q = Path(); q.env.update({"self": self_})
        outs = ex.run(fn, q)
        fv.paths += len(outs)
        seen += 1
        if kind == "FieldAction":
            ys = ex.yields
            ok = len(ys) == 1 and not yf and isinstance(ys[0][0], tuple) and len(ys[0][0]) == 2 and ys[0][0][0] == () and ys[0][0][1] is fld
            fv.add("single-field:one-pair-with-the-empty-path", kind, [], z3.BoolVal(bool(ok)))
        else:
            ok = not ex.yields and len(yf) == 1 and yf[0][0] == ("flatten-of", fld)
            fv.add("collection:exactly-its-flatten()", kind, [], z3.BoolVal(bool(ok)))
        fv.add_engine_obligations(ex)
    fv.add("cover:three-kinds", "vacuity", [], z3.BoolVal(seen == 3))
    return fv


def verify_register_init_widths():
    """Register.__init__ with the field collection passed as an argument (no class annotations): validation loop and element signature"""
    N = z3.Int("field_count")
    AX = [K >= 0, K < N, N >= 0, W(K) >= 0, PS(K + 1) == PS(K) + W(K), PS(0) == 0]
    fv = FnVerifier("csr.reg.Register.__init__[widths and access]", AX)
    fn = find_def(FILE, "Register.__init__")
    RR, RW_ = z3.Bools("register_readable register_writable")
    n_ok = 0
    for coll in ("dict", "list", "Field"):
        ex = Exec(FILE, "Register", axioms=AX)
        calls = []

        class RegAccess:
            def call_readable(self, ex_, recv, a, kw, q, node):
                return [(RR, q)]

            def call_writable(self, ex_, recv, a, kw, q, node):
                return [(RW_, q)]
        acc = SymObj("Access", "register access", model=RegAccess())

        class FieldAccess:
            def call_readable(self, ex_, recv, a, kw, q, node):
                return [(Rd(K), q)]

            def call_writable(self, ex_, recv, a, kw, q, node):
                return [(Wr(K), q)]
        field = SymObj("FieldAction", "field k")
        port = SymObj("FieldPort", "field.port")
        port.init_fields["shape"] = Opaque("shape k")
        port.init_fields["access"] = SymObj("Access", "field access", model=FieldAccess())
        field.init_fields["port"] = port

        def c_shape_cast(ex_, recv, a, kw, q, node):
            o = SymObj("Shape", "cast shape"); o.init_fields["width"] = W(K)
            return [(o, q)]
        ex.contracts["Shape.cast"] = c_shape_cast
        ex.contracts["Element.Access"] = lambda ex_, recv, a, kw, q, node: [(acc, q), (Raised("ValueError"), q.fork())]
        ex.contracts["hasattr"] = lambda ex_, recv, a, kw, q, node: [(z3.BoolVal(False), q)]      # route: no class annotations / class-level access
        made = {}

        def ctor(name):
            def h(ex_, recv, a, kw, q, node):
                o = SymObj(name, f"{name}(fields)"); made[name] = (o, a)
                return [(o, q), (Raised("TypeError"), q.fork())]
            return h
        ex.contracts["FieldActionMap"] = ctor("FieldActionMap")
        ex.contracts["FieldActionArray"] = ctor("FieldActionArray")
        fields = SymObj({"dict": "dict", "list": "list", "Field": "Field"}[coll], "fields argument")
        if coll == "Field":
            class FieldModel:
                def call_create(self, ex_, recv, a, kw, q, node):
                    o = SymObj("FieldAction", "fields.create()"); made["create"] = (o, a)
                    return [(o, q)]
            fields.model = FieldModel()
        ex.isinstance_hook = lambda v, ty, node: z3.BoolVal(isinstance(v, SymObj) and v.cls == ty.split(".")[-1]) if ty in ("dict", "list", "Field") else None
        ex.contracts["Out"] = lambda ex_, recv, a, kw, q, node: [(("Out", a[0]), q)]
        ex.contracts["Element.Signature"] = lambda ex_, recv, a, kw, q, node: (calls.append(("Element.Signature", q.fork(), a, kw)), [(SymObj("Signature", "element signature"), q)])[1]
        ex.contracts["super"] = lambda ex_, recv, a, kw, q, node: [(Opaque("super()"), q)]

        def c_super_init(ex_, recv, a, kw, q, node):
            q.ghost["members"] = a[0].items if isinstance(a[0], DictLit) else None
            return [(NONE, q)]
        ex.contracts["super().__init__"] = c_super_init
        ex.contracts["'__'.join"] = lambda ex_, recv, a, kw, q, node: [(Opaque("name"), q)]
        ex.contracts['"__".join'] = ex.contracts["'__'.join"]
        state = {}

        def loop(ex_, st_node, path):
            if ast.unparse(st_node.iter) != "self":
                ex_.unsupported(st_node, f"loop over {ast.unparse(st_node.iter)}")
            out = []
            ex_.oblige("invariant-established:width==prefix-sum(0)", path, ex_.toint(path.env["width"]) == PS(0), st_node)
            body = path.fork()
            body.env = dict(body.env); body.env["width"] = PS(K)
            for kind, _, q2 in ex_.assign(st_node.target, Tup((Opaque("field path"), field)), body, st_node):
                for kind2, val2, q3 in ex_.block(st_node.body, q2):
                    if kind2 in ("fall", "continue"):
                        ex_.oblige("invariant-preserved:width==prefix-sum(k+1)", q3, ex_.toint(q3.env["width"]) == PS(K + 1), st_node)
                        ex_.oblige("accepted-field-is-within-the-register's-access-mode", q3,
                                   z3.And(z3.Implies(Rd(K), RR), z3.Implies(Wr(K), RW_)), st_node)
                    elif kind2 == "raise":
                        ex_.oblige("refuses-with-ValueError-only-a-field-the-access-mode-cannot-serve", q3,
                                   z3.And(z3.BoolVal(val2 == "ValueError"), z3.Or(z3.And(Rd(K), z3.Not(RR)), z3.And(Wr(K), z3.Not(RW_)))), st_node)
                        q3.ghost["refused_in_loop"] = True
                        out.append((kind2, val2, q3))
                    else:
                        out.append((kind2, val2, q3))
            after = path
            after.env = dict(after.env); after.env["width"] = PS(N)         # loop exit: all N fields visited
            out.append(("fall", None, after))
            return out

        class _Every(dict):
            def get(self, key_, default=None):
                return loop
        ex.loop_invariants = _Every()
        q = Path()
        self_ = SymObj("Register", "self")
        q.env.update({"self": self_, "fields": fields, "access": Opaque("access argument")})
        outs = ex.run(fn, q)
        fv.paths += len(outs)
        for k_, o in enumerate(outs):
            lab = f"{coll}:path{k_}"
            p = o.path
            if o.kind == "raise":
                continue
            n_ok += 1
            stored = p.heap.get((id(self_), "_field"))
            want = {"dict": made.get("FieldActionMap"), "list": made.get("FieldActionArray"), "Field": made.get("create")}[coll]
            fv.add("field-collection-built-from-the-argument-by-its-kind", lab, p.pc,
                   z3.BoolVal(want is not None and stored is want[0] and (coll == "Field" or (len(want[1]) == 1 and want[1][0] is fields))))
            mine = [c for c in calls if all(any(f.eq(h) for h in p.pc) for f in c[1].pc)]
            fv.add("element-signature-built-once", lab, p.pc, z3.BoolVal(len(mine) == 1))
            if len(mine) == 1:
                a = mine[0][2]
                fv.add("element-width-is-the-sum-of-all-field-widths", lab, p.pc, ex.toint(a[0]) == PS(N) if len(a) == 2 else z3.BoolVal(False))
                fv.add("element-access-is-the-register's", lab, p.pc, z3.BoolVal(len(a) == 2 and a[1] is acc))
            mem = p.ghost.get("members")
            fv.add("one-port-named-element-facing-out", lab, p.pc, z3.BoolVal(isinstance(mem, dict) and set(mem) == {"element"} and isinstance(mem["element"], tuple) and mem["element"][0] == "Out"))
        fv.add_engine_obligations(ex)
    fv.add("cover:accepting-paths", "vacuity", [], z3.BoolVal(n_ok >= 3))
    return fv


def verify_collection_init(cls):
    """FieldActionMap.__init__(fields: dict) / FieldActionArray.__init__(fields: list): the stored collection is built IN THE ORDER of the
    argument, one entry per item (one arbitrary iteration of the loop):
      starts empty; before the loop only an argument that is not a non-empty dict / list is refused;
      an item is refused only if its key is not a non-empty string (map) or it is neither a Field, a dict nor a list;
      a Field item stores what ITS create() returned, a dict item a FieldActionMap built from that dict, a list item a FieldActionArray built
      from that list - under the item's own key (map: `_fields[key] = ...`, insertion order) / appended at the end (array);
      exactly one store per item, none outside the loop, no early exit.
    With flatten() walking `_fields` in its own order this gives: fields are visited in declaration order (dict and list order)."""
    fv = FnVerifier(f"csr.reg.{cls}.__init__", [])
    fn = find_def(FILE, f"{cls}.__init__")
    is_map = cls == "FieldActionMap"
    ex = Exec(FILE, cls, axioms=[])
    ISCOLL, KEY_STR, KEY_NONEMPTY, K_FIELD, K_DICT, K_LIST = z3.Bools("arg_is_the_right_collection key_is_str key_nonempty item_is_Field item_is_dict item_is_list")
    n = z3.Int("item_count")

    class ArgModel:
        def length(self, ex_, recv, q, node):
            return n

        def call_items(self, ex_, recv, a, kw, q, node):
            return [(("items-of", recv), q)]
    fields = SymObj("dict" if is_map else "list", "fields", model=ArgModel())

    class KeyModel:
        def truth(self, ex_, v):
            return KEY_NONEMPTY
    key = SymObj("key", "key", model=KeyModel())
    created = SymObj("FieldAction", "what item.create() returned")

    class ItemModel:
        def call_create(self, ex_, recv, a, kw, q, node):
            q.ghost["made"] = q.ghost.get("made", ()) + (("create", recv),)
            return [(created, q), (Raised("refused-by-create"), q.fork())]
    item = SymObj("item", "one item of the argument", model=ItemModel())
    submap, subarr = SymObj("FieldActionMap", "nested map"), SymObj("FieldActionArray", "nested array")

    def mk(what, obj):
        def h(ex_, recv, a, kw, q, node):
            q.ghost["made"] = q.ghost.get("made", ()) + ((what, tuple(a), dict(kw)),)
            return [(obj, q), (Raised(f"refused-by-{what}"), q.fork())]
        return h
    ex.contracts["FieldActionMap"] = mk("FieldActionMap", submap)
    ex.contracts["FieldActionArray"] = mk("FieldActionArray", subarr)

    def isinst(v, ty, node):
        t = ty.split(".")[-1]
        if v is fields:
            return ISCOLL if t == ("dict" if is_map else "list") else z3.BoolVal(False)
        if v is key and t == "str":
            return KEY_STR
        if v is item:
            return {"Field": K_FIELD, "dict": K_DICT, "list": K_LIST}.get(t)
        return None
    ex.isinstance_hook = isinst

    class StoreModel:
        def setitem(self, ex_, recv, k_, v, q, node):
            q.ghost["stored"] = q.ghost.get("stored", ()) + (("setitem", k_, v),)
            return [("fall", None, q)]

        def call_append(self, ex_, recv, a, kw, q, node):
            q.ghost["stored"] = q.ghost.get("stored", ()) + (("append", None, a[0] if a else None),)
            return [(NONE, q)]
    store = SymObj("store", "self._fields", model=StoreModel())

    class SelfModel:
        def setattr(self, ex_, obj, attr, value, q, node):
            if attr != "_fields":
                return None
            from vf.pyvc.engine import Empty
            empty = (isinstance(value, DictLit) and not value.items) or (isinstance(value, Empty))
            ex_.oblige("the-stored-collection-starts-empty", q, z3.BoolVal(bool(empty)), node)
            q.heap[(id(obj), attr)] = store
            q.writes.append((obj.name, attr))
            q.ghost["store_set"] = q.ghost.get("store_set", 0) + 1
            return [("fall", None, q)]
    self_ = SymObj(cls, "self", model=SelfModel())
    marks = {}

    def loop(ex_, st_node, path):
        it = ast.unparse(st_node.iter)
        if it != ("fields.items()" if is_map else "fields"):
            ex_.unsupported(st_node, f"loop over {it}")
        marks["before"] = path.ghost.get("stored", ())
        out = []
        tgt = Tup((key, item)) if is_map else item
        for kind, _, q2 in ex_.assign(st_node.target, tgt, path.fork(), st_node):
            for kind2, val2, q3 in ex_.block(st_node.body, q2):
                if kind2 in ("fall", "continue"):
                    marks.setdefault("passed", []).append(q3)
                elif kind2 == "raise":
                    marks.setdefault("refused", []).append((val2, q3))
                    out.append((kind2, val2, q3))
                else:
                    ex_.oblige("every-item-is-visited:no-early-exit", q3, z3.BoolVal(False), st_node)
        out.append(("fall", None, path))
        return out

    class _Every(dict):
        def get(self, key_, default=None):
            return loop
    ex.loop_invariants = _Every()
    q = Path(); q.assume(n >= 0)
    q.assume(z3.And(z3.Not(z3.And(K_FIELD, K_DICT)), z3.Not(z3.And(K_FIELD, K_LIST)), z3.Not(z3.And(K_DICT, K_LIST))))      # an object has one class
    q.env.update({"self": self_, "fields": fields})
    outs = ex.run(fn, q)
    fv.paths = len(outs)
    key_ok = z3.And(KEY_STR, KEY_NONEMPTY) if is_map else z3.BoolVal(True)
    n_ok = 0
    for k_, o in enumerate(outs):
        p, lab = o.path, f"path{k_}"
        if o.kind == "raise":
            if o.exc.startswith("refused-by-"):
                continue
            in_loop = any(q3 is p for _, q3 in marks.get("refused", []))
            if in_loop:
                fv.add("only-an-invalid-item-is-refused", lab, p.pc, z3.Not(z3.And(key_ok, z3.Or(K_FIELD, K_DICT, K_LIST))))
            else:
                fv.add("outside-the-loop-only-a-wrong-or-empty-argument-is-refused", lab, p.pc, z3.Or(z3.Not(ISCOLL), n == 0))
            continue
        n_ok += 1
        fv.add("nothing-stored-outside-the-loop", lab, p.pc, z3.BoolVal(p.ghost.get("stored", ()) == () and p.ghost.get("store_set", 0) == 1))
    for k_, q3 in enumerate(marks.get("passed", [])):
        lab = f"item{k_}"
        st = q3.ghost.get("stored", ())[len(marks.get("before", ())):]
        made = q3.ghost.get("made", ())
        fv.add("exactly-one-store-per-item", lab, q3.pc, z3.BoolVal(len(st) == 1))
        if len(st) != 1:
            continue
        how, k2, v = st[0]
        fv.add("stored-under-the-item's-own-key" if is_map else "appended-at-the-end", lab, q3.pc, z3.BoolVal((how == "setitem" and k2 is key) if is_map else how == "append"))
        want = z3.BoolVal(False)
        if v is created:
            want = z3.And(K_FIELD, z3.BoolVal(("create", item) in made))
        elif v is submap:
            want = z3.And(K_DICT, z3.BoolVal(("FieldActionMap", (item,), {}) in made))
        elif v is subarr:
            want = z3.And(K_LIST, z3.BoolVal(("FieldActionArray", (item,), {}) in made))
        fv.add("a-Field-stores-its-create()-a-dict-a-nested-map-a-list-a-nested-array-built-from-the-item", lab, q3.pc, want)
    fv.add("cover:three-item-kinds-stored-and-one-refused", "vacuity", [], z3.BoolVal(len(marks.get("passed", [])) >= 3 and len(marks.get("refused", [])) >= 1 and n_ok >= 1))
    fv.add_engine_obligations(ex)
    return fv


def verify_map_init():
    return verify_collection_init("FieldActionMap")


def verify_array_init():
    return verify_collection_init("FieldActionArray")


ALL = [verify_map_flatten, verify_array_flatten, verify_register_iter, verify_register_init_widths, verify_map_init, verify_array_init]
