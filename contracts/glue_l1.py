"""C14 / C01 (L1 part): the glue elaborate() methods, for every configuration (pyvc with recording hardware stubs).

csr.event.EventMonitor.elaborate   (any number of events, any bus width)
    submodules        the event monitor and the register multiplexer, nothing else
    connections       the component's `src` to the monitor's, the component's `bus` to the multiplexer's (wiring.connect of the flipped port)
    enable            If(enable.element.w_stb): monitor.enable := enable.element.w_data (sync);  enable.element.r_data := monitor.enable
    pending           If(pending.element.w_stb): monitor.clear := pending.element.w_data (comb: a write-one-to-clear pulse, zero otherwise);
                      pending.element.r_data := monitor.pending
    nothing else
csr.reg.Bridge.elaborate           (any number of registers, any names)
    submodules        the multiplexer, and EVERY register of the memory map exactly once (one arbitrary register of resources())
    connection        the component's `bus` to the multiplexer's;  no other statement
"""
import ast
import z3
from vf.pyvc.engine import Exec, Path, SymObj, Opaque, NONE, Tup, find_def, Unsupported
from vf.pyvc.driver import FnVerifier
from . import hdlrec
from .hdlrec import Expr, same_expr


def _stubs(ex, log, values, connects):
    m_holder = {}

    def c_connect(ex_, recv, a, kw, q, node):
        connects.append((q.fork(), a))
        return [(NONE, q)]
    ex.contracts["connect"] = c_connect
    ex.contracts["flipped"] = lambda ex_, recv, a, kw, q, node: [(("flipped", a[0]), q)]
    return m_holder


def verify_eventmonitor_elaborate():
    FILE = "amaranth_soc/csr/event.py"
    fv = FnVerifier("csr.event.EventMonitor.elaborate", [])
    fn = find_def(FILE, "EventMonitor.elaborate")
    ex = Exec(FILE, "EventMonitor", axioms=[])
    log = hdlrec.Log()
    m, values = hdlrec.module(log)
    ex.contracts["Module"] = lambda ex_, recv, a, kw, q, node: [(m, q)]
    connects = []
    _stubs(ex, log, values, connects)
    self_ = SymObj("EventMonitor", "self")
    mon = SymObj("Monitor", "self._monitor")
    for nm in ("enable", "pending", "clear"):
        mon.init_fields[nm] = hdlrec.signal(values, "monitor." + nm)
    mon.init_fields["src"] = SymObj("Source", "monitor.src")
    mux = SymObj("Multiplexer", "self._mux"); mux.init_fields["bus"] = SymObj("Interface", "mux.bus")
    regs = {}
    for nm in ("_enable", "_pending"):
        r = SymObj("Register", "self." + nm)
        el = SymObj("Element", f"self.{nm}.element")
        for s_ in ("r_data", "r_stb", "w_data", "w_stb"):
            el.init_fields[s_] = hdlrec.signal(values, f"{nm[1:]}.{s_}")
        r.init_fields["element"] = el
        regs[nm] = r
    src, bus = SymObj("Source", "self.src"), SymObj("Interface", "self.bus")
    self_.init_fields.update({"_monitor": mon, "_mux": mux, "_enable": regs["_enable"], "_pending": regs["_pending"], "src": src, "bus": bus})
    q = Path(); q.env.update({"self": self_, "platform": Opaque("platform")})
    outs = ex.run(fn, q)
    fv.paths = len(outs)
    for k, o in enumerate(outs):
        fv.add("no-exception", f"path{k}", o.path.pc, z3.BoolVal(o.kind == "return" and o.value is m))
    subs = [e for e in log.entries if e["kind"] == "submodule"]
    fv.add("submodules-are-the-monitor-and-the-multiplexer", "all", [], z3.BoolVal(len(subs) == 2 and {id(e["what"]) for e in subs} == {id(mon), id(mux)}))
    want = [(src, mon.init_fields["src"]), (bus, mux.init_fields["bus"])]
    got = [(a[1][1] if isinstance(a[1], tuple) and a[1][0] == "flipped" else None, a[2]) for _, a in connects if len(a) == 3 and a[0] is m]
    fv.add("source-and-bus-connected-to-the-monitor-and-the-multiplexer", "all", [],
           z3.BoolVal(len(connects) == 2 and len(got) == 2 and all(any(g[0] is w[0] and g[1] is w[1] for g in got) for w in want)))
    S = lambda n: Expr("sig", n)
    exp = [("enable-mask-latched-on-write", "sync", S("monitor.enable"), S("enable.w_data"), (("If", S("enable.w_stb")),)),
           ("enable-mask-read-back", "comb", S("enable.r_data"), S("monitor.enable"), ()),
           ("pending-write-is-a-clear-pulse", "comb", S("monitor.clear"), S("pending.w_data"), (("If", S("pending.w_stb")),)),
           ("pending-mask-read-back", "comb", S("pending.r_data"), S("monitor.pending"), ())]
    asg = [e for e in log.entries if e["kind"] == "assign"]
    fv.add("nothing-else", "all", [], z3.BoolVal(len(asg) == len(exp)))
    if len(asg) == len(exp):
        for (nm, dom, dst, srcx, ctx), e in zip(exp, asg):
            fv.add(nm, "all", e["path"].pc, z3.And(z3.BoolVal(e["domain"] == dom and len(e["ctx"]) == len(ctx)), same_expr(e["dst"], dst), same_expr(e["src"], srcx),
                                                   *[z3.And(z3.BoolVal(c1[0] == c2[0]), same_expr(c1[1], c2[1])) for c1, c2 in zip(e["ctx"], ctx)]))
    from .hdlrec import stores_nothing_on_the_component as _frame
    _frame(fv, ex)
    fv.add_engine_obligations(ex)
    return fv


def verify_csr_bridge_elaborate():
    FILE = "amaranth_soc/csr/reg.py"
    fv = FnVerifier("csr.reg.Bridge.elaborate", [])
    fn = find_def(FILE, "Bridge.elaborate")
    ex = Exec(FILE, "Bridge", axioms=[])
    log = hdlrec.Log()
    m, values = hdlrec.module(log)
    ex.contracts["Module"] = lambda ex_, recv, a, kw, q, node: [(m, q)]
    connects = []
    _stubs(ex, log, values, connects)
    ex.contracts['"__".join'] = lambda ex_, recv, a, kw, q, node: [(Opaque("submodule name"), q)]
    ex.contracts["'__'.join"] = ex.contracts['"__".join']

    class MapModel:
        def call_resources(self, ex_, recv, a, kw, q, node):
            return [(("resources",), q)]
    mmap = SymObj("MemoryMap", "self.bus.memory_map", model=MapModel())
    bus = SymObj("Interface", "self.bus"); bus.init_fields["memory_map"] = mmap
    mux = SymObj("Multiplexer", "self._mux"); mux.init_fields["bus"] = SymObj("Interface", "mux.bus")
    self_ = SymObj("Bridge", "self")
    self_.init_fields.update({"bus": bus, "_mux": mux})
    reg = SymObj("Register", "one register of the map")
    marks = {}

    def loop(ex_, st_node, path):
        if ast.unparse(st_node.iter) != "self.bus.memory_map.resources()":
            ex_.unsupported(st_node, f"loop over {ast.unparse(st_node.iter)}")
        body = path.fork()
        lo = len(log.entries)
        out = []
        for kind, _, q2 in ex_.assign(st_node.target, Tup((reg, Opaque("its name"), Opaque("its range"))), body, st_node):
            for kind2, val2, q3 in ex_.block(st_node.body, q2):
                if kind2 in ("fall", "continue"):
                    marks.setdefault("ends", []).append((q3, lo, len(log.entries)))
                elif kind2 in ("break", "return"):
                    ex_.oblige("every-register-is-visited:no-early-exit", q3, z3.BoolVal(False), st_node)
                else:
                    out.append((kind2, val2, q3))
        out.append(("fall", None, path))
        return out

    class _Every(dict):
        def get(self, key, default=None):
            return loop
    ex.loop_invariants = _Every()
    q = Path(); q.env.update({"self": self_, "platform": Opaque("platform")})
    outs = ex.run(fn, q)
    fv.paths = len(outs)
    for k, o in enumerate(outs):
        fv.add("no-exception", f"path{k}", o.path.pc, z3.BoolVal(o.kind == "return" and o.value is m))
    inside = set()
    for qend, lo, hi in marks.get("ends", []):
        inside |= set(range(lo, hi))
        mine = log.entries[lo:hi]
        fv.add("each-register-becomes-a-submodule-exactly-once", "register", qend.pc,
               z3.BoolVal(len(mine) == 1 and mine[0]["kind"] == "submodule" and mine[0]["what"] is reg))
    outer = [e for k, e in enumerate(log.entries) if k not in inside]
    fv.add("outside-the-loop-only-the-multiplexer-submodule", "all", [], z3.BoolVal(len(outer) == 1 and outer[0]["kind"] == "submodule" and outer[0]["what"] is mux))
    fv.add("bus-connected-to-the-multiplexer", "all", [],
           z3.BoolVal(len(connects) == 1 and len(connects[0][1]) == 3 and connects[0][1][0] is m and connects[0][1][1] == ("flipped", bus)
                      and connects[0][1][2] is mux.init_fields["bus"]))
    fv.add("cover:one-register-iteration", "vacuity", [], z3.BoolVal(len(marks.get("ends", [])) >= 1))
    from .hdlrec import stores_nothing_on_the_component as _frame
    _frame(fv, ex)
    fv.add_engine_obligations(ex)
    return fv


ALL = [verify_eventmonitor_elaborate, verify_csr_bridge_elaborate]
