"""C16 (L1 part): the statements issued by the real gpio.Peripheral.elaborate() for ONE ARBITRARY pin n of ANY pin count, with a
synchroniser of ANY depth (pyvc with recording hardware stubs).
  synchroniser-chain             loop invariant over the stages: stage s registers (sync domain) the previous element of the chain,
                                 chain(0) = pin.i, chain(s+1) = the flip-flop of stage s;
                                 the Input field of pin n reads chain(input_stages)  ( = pin.i itself for depth 0)
  set-clear-decoding             If(setclr.pin[n].set.w_stb & .w_data): output.pin[n].set := 1, likewise clr
  mode-table                     Switch(mode.pin[n].data): INPUT_ONLY: o := output data, oe := 0; PUSH_PULL: o := data, oe := 1;
                                 OPEN_DRAIN: o := 0, oe := ~data; ALTERNATE: o := data, oe := 0 and alt_mode[n] := 1 (only there)
  only-this-pin                  every statement of the iteration mentions pin n's own objects only (index n everywhere)
  nothing-else-per-pin
"""
import ast
import z3
from vf.pyvc.engine import Exec, Path, SymObj, Opaque, NONE, Tup, find_def, Unsupported
from vf.pyvc.driver import FnVerifier
from . import hdlrec
from .hdlrec import Expr, same_expr

FILE = "amaranth_soc/gpio.py"
PIN, S, STAGES = z3.Ints("pin_n stage_s input_stages")
AX = [PIN >= 0, STAGES >= 0]


def verify_gpio_elaborate():
    fv = FnVerifier("gpio.Peripheral.elaborate", AX)
    fn = find_def(FILE, "Peripheral.elaborate")
    ex = Exec(FILE, "Peripheral", axioms=AX)
    log = hdlrec.Log()
    m, values = hdlrec.module(log)
    ex.contracts["Module"] = lambda ex_, recv, a, kw, q, node: [(m, q)]
    ffs = []

    def c_signal(ex_, recv, a, kw, q, node):
        s = values.wrap(Expr("ff", q.ghost.get("stage")), "ff")
        ffs.append((q.fork(), dict(kw)))
        return [(s, q)]
    ex.contracts["Signal"] = c_signal
    ex.contracts["connect"] = lambda ex_, recv, a, kw, q, node: [(NONE, q)]
    ex.contracts["flipped"] = lambda ex_, recv, a, kw, q, node: [(a[0], q)]
    self_ = SymObj("Peripheral", "self")
    for nm in ("_mode", "_input", "_output", "_setclr", "alt_mode", "bus"):
        self_.init_fields[nm] = hdlrec.signal(values, nm)
    self_.init_fields["_bridge"] = SymObj("Bridge", "self._bridge")
    self_.init_fields["_bridge"].init_fields["bus"] = hdlrec.signal(values, "bridge.bus")
    self_.init_fields["input_stages"] = STAGES
    self_.init_fields["pins"] = Opaque("pins")
    pin = hdlrec.signal(values, "pin")
    state = {}

    def loop(ex_, st_node, path):
        it = ast.unparse(st_node.iter)
        out = []
        if it == "enumerate(self.pins)":
            body = path.fork()
            state["start"] = len(log.entries)
            for kind, _, q2 in ex_.assign(st_node.target, Tup((PIN, pin)), body, st_node):
                for kind2, val2, q3 in ex_.block(st_node.body, q2):
                    if kind2 in ("fall", "continue"):
                        state.setdefault("ends", []).append((q3, len(log.entries), state["start"]))
                    else:
                        out.append((kind2, val2, q3))
            out.append(("fall", None, path))
            return out
        if it == "range(self.input_stages)":
            # invariant: pin_i_sync == chain(stage);  chain(0) = pin.i, chain(s+1) = the flip-flop created in stage s
            cur = path.env["pin_i_sync"]
            ex_.oblige("synchroniser-chain-starts-at-the-pin-input", path, same_expr(cur.expr, Expr("attr", Expr("sig", "pin"), "i")), st_node)
            body = path.fork()
            body.assume(z3.And(0 <= S, S < STAGES))
            body.env = dict(body.env)
            body.env[st_node.target.id] = S
            body.env["pin_i_sync"] = values.wrap(Expr("chain", S))
            body.ghost["stage"] = S
            for kind2, val2, q3 in ex_.block(st_node.body, body):
                if kind2 in ("fall", "continue"):
                    ex_.oblige("synchroniser-chain-advances-to-this-stage's-flip-flop", q3, same_expr(q3.env["pin_i_sync"].expr, Expr("ff", S)), st_node)
                    ex_.oblige("stage-flip-flop-name-is-released", q3, z3.BoolVal("pin_i_sync_ff" not in q3.env), st_node)
                else:
                    out.append((kind2, val2, q3))
            after = path
            after.env = dict(after.env)
            after.env["pin_i_sync"] = values.wrap(Expr("chain", STAGES))
            out.append(("fall", None, after))
            return out
        ex_.unsupported(st_node, f"loop over {it}")

    class _Every(dict):
        def get(self, key, default=None):
            return loop
    ex.loop_invariants = _Every()
    q = Path()
    q.env.update({"self": self_, "platform": Opaque("platform")})
    outs = ex.run(fn, q)
    fv.paths = len(outs)
    for k, o in enumerate(outs):
        fv.add("no-exception", f"path{k}", o.path.pc, z3.BoolVal(o.kind == "return"))
    A = lambda base, *path: _path(base, path)

    def _path(base, path):
        e = Expr("sig", base)
        for p_ in path:
            e = Expr("bit", e, p_) if isinstance(p_, z3.ExprRef) else Expr("attr", e, p_)
        return e
    fld = lambda reg: A(reg, "f", "pin", PIN)
    pin_e = Expr("sig", "pin")
    out_data = Expr("attr", fld("_output"), "data")
    one, zero = Expr("const", z3.IntVal(1)), Expr("const", z3.IntVal(0))
    mode_sw = ("Switch", Expr("attr", fld("_mode"), "data"))
    case = lambda name: ("Case", (Expr("opaque", f"global:PinMode.{name}"),))
    cond = lambda which: ("If", Expr("op", "BitAnd", (Expr("attr", Expr("attr", fld("_setclr"), which), "w_stb"),
                                                       Expr("attr", Expr("attr", fld("_setclr"), which), "w_data"))))
    exp = [("stage-registers-the-previous-chain-element", "sync", Expr("ff", S), Expr("chain", S), ()),
           ("input-field-reads-the-end-of-the-chain", "comb", Expr("attr", fld("_input"), "r_data"), Expr("chain", STAGES), ()),
           ("set-decoding", "comb", Expr("attr", fld("_output"), "set"), one, (cond("set"),)),
           ("clear-decoding", "comb", Expr("attr", fld("_output"), "clr"), one, (cond("clr"),)),
           ("input-only:o", "comb", Expr("attr", pin_e, "o"), out_data, (mode_sw, case("INPUT_ONLY"))),
           ("input-only:oe", "comb", Expr("attr", pin_e, "oe"), zero, (mode_sw, case("INPUT_ONLY"))),
           ("push-pull:o", "comb", Expr("attr", pin_e, "o"), out_data, (mode_sw, case("PUSH_PULL"))),
           ("push-pull:oe", "comb", Expr("attr", pin_e, "oe"), one, (mode_sw, case("PUSH_PULL"))),
           ("open-drain:o", "comb", Expr("attr", pin_e, "o"), zero, (mode_sw, case("OPEN_DRAIN"))),
           ("open-drain:oe", "comb", Expr("attr", pin_e, "oe"), Expr("op", "Invert", (out_data,)), (mode_sw, case("OPEN_DRAIN"))),
           ("alternate:o", "comb", Expr("attr", pin_e, "o"), out_data, (mode_sw, case("ALTERNATE"))),
           ("alternate:oe", "comb", Expr("attr", pin_e, "oe"), zero, (mode_sw, case("ALTERNATE"))),
           ("alternate:flag-raised-only-there", "comb", Expr("bit", Expr("sig", "alt_mode"), PIN), one, (mode_sw, case("ALTERNATE")))]
    n_p = 0
    for qend, upto, start_ in state.get("ends", []):
        n_p += 1
        mine = [e for e in log.entries[start_:upto] if e["kind"] == "assign"]
        ok_len = len(mine) == len(exp)
        fv.add("nothing-else-per-pin", "pin", qend.pc, z3.BoolVal(ok_len))
        if ok_len:
            for (nm, dom, dst, srcx, ctx), e in zip(exp, mine):
                fv.add(nm, "pin", e["path"].pc, z3.And(z3.BoolVal(e["domain"] == dom and len(e["ctx"]) == len(ctx)), same_expr(e["dst"], dst),
                                                       same_expr(e["src"], srcx),
                                                       *[z3.And(z3.BoolVal(c1[0] == c2[0]), same_expr(c1[1], c2[1])) for c1, c2 in zip(e["ctx"], ctx)]))
    # (whether the flip-flops are reset_less is NOT claimed: C16 quantifies over register transactions and pin waveforms, not over
    #  resets of the clock domain)
    fv.add("cover:one-pin-iteration", "vacuity", [], z3.BoolVal(n_p >= 1 and len(ffs) >= 1))
    from .hdlrec import stores_nothing_on_the_component as _frame
    _frame(fv, ex)
    fv.add_engine_obligations(ex)
    return fv


def verify_output_field_elaborate():
    """gpio.Peripheral.Output._FieldAction.elaborate (the per-pin output bit): exactly
         If / Elif (set != clr):   storage := set          (sync)
         If / Elif (port.w_stb):   storage := port.w_data  (sync)      (which of the two has priority is not claimed: see below)
         port.r_data := storage,  data := storage          (comb)
       and nothing else; no submodule; nothing stored on the component"""
    from vf.pyvc.engine import Exec, Path, SymObj, Opaque, find_def
    FILE_ = "amaranth_soc/gpio.py"
    fv = FnVerifier("gpio.Peripheral.Output._FieldAction.elaborate", [])
    fn = find_def(FILE_, "Peripheral.Output._FieldAction.elaborate")
    ex = Exec(FILE_, "Peripheral.Output._FieldAction", axioms=[])
    log = hdlrec.Log()
    m, values = hdlrec.module(log)
    ex.contracts["Module"] = lambda ex_, recv, a, kw, q, node: [(m, q)]
    self_ = SymObj("_FieldAction", "self")
    port = SymObj("FieldPort", "self.port")
    for nm in ("r_data", "r_stb", "w_data", "w_stb"):
        port.init_fields[nm] = hdlrec.signal(values, "port." + nm)
    self_.init_fields["port"] = port
    for nm in ("data", "set", "clr", "_storage"):
        self_.init_fields[nm] = hdlrec.signal(values, nm)
    orig_cmp = ex.e_Compare

    def e_compare(e, p):
        # a comparison of two hardware values is a hardware expression (recorded), not a Python truth value
        if len(e.ops) == 1 and isinstance(e.ops[0], (ast.Eq, ast.NotEq)):
            out = []
            for vals, q in ex.eval_seq([e.left, e.comparators[0]], p):
                if isinstance(vals, (list, tuple)) and all(isinstance(v, SymObj) and hasattr(v, "expr") for v in vals):
                    out.append((values.wrap(Expr("op", type(e.ops[0]).__name__, (vals[0].expr, vals[1].expr))), q))
                else:
                    return orig_cmp(e, p)
            return out
        return orig_cmp(e, p)
    ex.e_Compare = e_compare
    q = Path(); q.env.update({"self": self_, "platform": Opaque("platform")})
    outs = ex.run(fn, q)
    fv.paths = len(outs)
    for k, o in enumerate(outs):
        fv.add("returns-the-module", f"path{k}", o.path.pc, z3.BoolVal(o.kind == "return" and o.value is m))
    S = lambda n: Expr("sig", n)
    got = [e for e in log.entries if e["kind"] == "assign"]
    fv.add("exactly-four-statements", "all", [], z3.BoolVal(len(got) == 4))
    sync = [e for e in got if e["domain"] == "sync"]
    comb = [e for e in got if e["domain"] == "comb"]
    # the two storage updates: which of them is the `If` and which the `Elif` is NOT claimed - the Output register and the SetClr register
    # sit at different addresses of one bus, their write strobes never coincide, so the priority cannot be observed
    def one(src, cond):
        hits = [e for e in sync if len(e["ctx"]) == 1 and e["ctx"][0][0] in ("If", "Elif")
                and z3.is_true(z3.simplify(z3.And(same_expr(e["dst"], S("_storage")), same_expr(e["src"], src), same_expr(e["ctx"][0][1], cond))))]
        return len(hits) == 1
    neq = [Expr("op", "NotEq", (S("set"), S("clr"))), Expr("op", "NotEq", (S("clr"), S("set")))]
    fv.add("a-set-or-clear-request-loads-the-set-bit", "all", [], z3.BoolVal(len(sync) == 2 and any(one(S("set"), c) for c in neq)))
    fv.add("a-register-write-loads-the-written-bit", "all", [], z3.BoolVal(len(sync) == 2 and one(S("port.w_data"), S("port.w_stb"))))
    fv.add("the-first-storage-update-opens-the-chain(If)", "all", [], z3.BoolVal(len(sync) == 2 and sync[0]["ctx"][0][0] == "If"))
    for nm, dst in (("bus-read-returns-the-storage", S("port.r_data")), ("data-output-is-the-storage", S("data"))):
        hits = [e for e in comb if not e["ctx"] and z3.is_true(z3.simplify(z3.And(same_expr(e["dst"], dst), same_expr(e["src"], S("_storage")))))]
        fv.add(nm, "all", [], z3.BoolVal(len(comb) == 2 and len(hits) == 1))
    fv.add("no-submodule", "all", [], z3.BoolVal(not [e for e in log.entries if e["kind"] == "submodule"]))
    from .hdlrec import stores_nothing_on_the_component as _frame
    _frame(fv, ex)
    fv.add_engine_obligations(ex)
    return fv


ALL = [verify_gpio_elaborate, verify_output_field_elaborate]
