"""Recording stubs for the hardware-description objects used inside elaborate(): Module, m.d.<domain>, m.If / m.Switch / m.Case,
m.submodules, signals and expressions over them.  pyvc executes the real elaborate() with these stubs; what is recorded is WHICH
statements are issued, in which order, under which nest of If/Switch/Case conditions, with which (symbolic) indices and slice
bounds.  What a statement means in hardware is Amaranth's semantics - assumed here, validated per configuration by hdlvc.
"""
import ast
import z3
from vf.pyvc.engine import SymObj, Opaque, NONE, SliceV, Unsupported


class Expr:
    """an expression over signals: ("sig", name) | ("bit", name, index term) | ("slice", name, lo, hi) | ("op", opname, args) | ("const", term)"""
    def __init__(self, *t):
        self.t = t

    def __repr__(self):
        return f"Expr{self.t!r}"


class Log:
    def __init__(self):
        self.entries = []       # dicts: kind ('assign'|'submodule'), domain, dst, src, ctx (tuple), path (fork of the path at issue time), seq
        self.seq = 0

    def add(self, q, **kw):
        self.seq += 1
        kw.update(ctx=tuple(q.ghost.get("hdl_ctx", ())), path=q.fork(), seq=self.seq)
        self.entries.append(kw)


class ValueModel:
    """signals and expressions: indexing, slicing, operators, .eq()"""
    def __init__(self, log):
        self.log = log

    def wrap(self, expr, name="expr"):
        o = SymObj("Value", name, model=self)
        o.expr = expr
        return o

    def operand(self, ex, v, node):
        if isinstance(v, SymObj) and hasattr(v, "expr"):
            return v.expr
        if isinstance(v, (z3.ArithRef, int)):
            return Expr("const", v if isinstance(v, z3.ArithRef) else z3.IntVal(v))
        if isinstance(v, Opaque):
            return Expr("opaque", v.what)
        raise Unsupported(f"operand {v!r} in a hardware expression")

    def getitem(self, ex, recv, key, q, node):
        if isinstance(key, SliceV):
            return [(self.wrap(Expr("slice", recv.expr, key.lo, key.hi)), q)]
        return [(self.wrap(Expr("bit", recv.expr, ex.toint(key, node))), q)]

    def getslice(self, ex, recv, lo, hi, q, node):
        return self.wrap(Expr("slice", recv.expr, ex.toint(lo, node) if lo is not None else z3.IntVal(0),
                              ex.toint(hi, node) if hi is not None else None))

    def binop(self, ex, recv, op, other, q, node):
        return self.wrap(Expr("op", type(op).__name__, (recv.expr, self.operand(ex, other, node))))

    def unop(self, ex, recv, op, q, node):
        return self.wrap(Expr("op", type(op).__name__, (recv.expr,)))

    def call_eq(self, ex, recv, args, kwargs, q, node):
        return [(("assign", recv.expr, self.operand(ex, args[0], node)), q)]

    def length(self, ex, recv, q, node):
        if getattr(recv, "width", None) is None:
            raise Unsupported(f"len() of {recv.name}")
        return recv.width

    def getattr(self, ex, recv, attr, q, node):
        # attribute chains through register / field objects (self._mode.f.pin[n].data ...): recorded as a path
        return [(self.wrap(Expr("attr", recv.expr, attr)), q)]

    def __getattr__(self, name):
        # any other method of a value (.any(), .all(), .bool(), .replicate(n), .word_select(i, w), ...): recorded as an operator
        if name.startswith("call_"):
            op = name[len("call_"):]

            def call(ex, recv, args, kwargs, q, node):
                return [(self.wrap(Expr("method", op, (recv.expr,) + tuple(self.operand(ex, a, node) for a in args))), q)]
            return call
        raise AttributeError(name)


class DomainModel:
    def __init__(self, log, which):
        self.log, self.which = log, which

    def binop(self, ex, recv, op, value, q, node):
        if not isinstance(op, ast.Add):
            raise Unsupported("operator on a clock domain other than +=")
        stmts = [value] if (isinstance(value, tuple) and len(value) == 3 and value[0] == "assign") else list(value)
        for st in stmts:
            if not (isinstance(st, tuple) and len(st) == 3 and st[0] == "assign"):
                raise Unsupported(f"statement {st!r} added to m.d.{self.which}")
            self.log.add(q, kind="assign", domain=self.which, dst=st[1], src=st[2])
        return recv


class CtxModel:
    """m.If(c) / m.Switch(x) / m.Case(v): pushed on the path's context stack while the body runs"""
    def __init__(self, item):
        self.item = item

    def enter(self, ex, obj, q, node):
        q.ghost["hdl_ctx"] = tuple(q.ghost.get("hdl_ctx", ())) + (self.item,)

    def exit(self, ex, obj, q, node):
        q.ghost["hdl_ctx"] = tuple(q.ghost.get("hdl_ctx", ()))[:-1]


class SubmodulesModel:
    def __init__(self, log):
        self.log = log

    def setitem(self, ex, recv, key, value, q, node):
        self.log.add(q, kind="submodule", how="named", what=value)
        return [("fall", None, q)]

    def binop(self, ex, recv, op, value, q, node):
        self.log.add(q, kind="submodule", how="anonymous", what=value)
        return recv

    def setattr(self, ex, obj, attr, value, q, node):
        self.log.add(q, kind="submodule", how="named:" + attr, what=value)
        return [("fall", None, q)]


class ModuleModel:
    def __init__(self, log, values):
        self.log, self.values = log, values

    def _ctx(self, kind, payload):
        return SymObj("HdlContext", kind, model=CtxModel((kind, payload)))

    def call_If(self, ex, recv, args, kwargs, q, node):
        return [(self._ctx("If", self.values.operand(ex, args[0], node)), q)]

    def call_Elif(self, ex, recv, args, kwargs, q, node):
        return [(self._ctx("Elif", self.values.operand(ex, args[0], node)), q)]

    def call_Else(self, ex, recv, args, kwargs, q, node):
        return [(self._ctx("Else", None), q)]

    def call_Switch(self, ex, recv, args, kwargs, q, node):
        return [(self._ctx("Switch", self.values.operand(ex, args[0], node)), q)]

    def call_Case(self, ex, recv, args, kwargs, q, node):
        return [(self._ctx("Case", tuple(self.values.operand(ex, a, node) for a in args)), q)]

    def call_Default(self, ex, recv, args, kwargs, q, node):
        return [(self._ctx("Default", None), q)]


def module(log):
    values = ValueModel(log)
    m = SymObj("Module", "m", model=ModuleModel(log, values))
    d = SymObj("Domains", "m.d")
    for dom in ("comb", "sync"):
        d.init_fields[dom] = SymObj("Domain", f"m.d.{dom}", model=DomainModel(log, dom))
    m.init_fields["d"] = d
    m.init_fields["submodules"] = SymObj("Submodules", "m.submodules", model=SubmodulesModel(log))
    return m, values


def signal(values, name, width=None):
    o = values.wrap(Expr("sig", name), name)
    o.width = width
    return o


def same_expr(a, b):
    """structural equality of two recorded expressions as a z3 formula (symbolic indices compared by ==)"""
    if type(a) is not type(b):
        return z3.BoolVal(False)
    if isinstance(a, Expr):
        if len(a.t) != len(b.t) or a.t[0] != b.t[0]:
            return z3.BoolVal(False)
        return z3.And(*[same_expr(x, y) for x, y in zip(a.t[1:], b.t[1:])]) if len(a.t) > 1 else z3.BoolVal(True)
    if isinstance(a, tuple):
        if len(a) != len(b):
            return z3.BoolVal(False)
        return z3.And(*[same_expr(x, y) for x, y in zip(a, b)]) if a else z3.BoolVal(True)
    if isinstance(a, z3.ExprRef):
        return a == b
    if a is None or isinstance(a, (str, int)):
        return z3.BoolVal(a == b)
    return z3.BoolVal(a is b)


def stores_nothing_on_the_component(fv, ex, extra_roots=()):
    """C19 at statement level: on NO path of the executed elaborate() is an attribute of the component (or of an object reached from it)
    re-bound.  (Item stores and mutating method calls on such objects are outside the stubs' vocabulary and make the run `unsupported`;
    consuming a one-shot iterator kept on the component mutates without a store and is NOT excluded by this clause.)"""
    roots = ("self",) + tuple(extra_roots)
    bad = [w for w in ex.all_writes if any(w[0] == r or w[0].startswith(r + ".") for r in roots)]
    fv.add("stores-nothing-on-the-component", "all-paths", [], z3.BoolVal(not bad))
    return bad
