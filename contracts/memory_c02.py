"""C02 contracts: MemoryMap allocation (amaranth_soc/memory.py), discharged by pyvc.

Each `verify_*` builds the symbolic pre-state (`requires`), runs the REAL function body from /repo, and turns each
`ensures` clause into obligations per path.  Callee contracts (`c_*`) are the single source used both as proof goals
of the callee and as assumptions at call sites.
"""
import z3
from vf.pyvc.engine import (Exec, Path, Dyn, Rng, Tup, Opaque, NONE, Raised, SymObj, find_def, pow2, POW2_AXIOMS, POW2_AXIOMS_LIN,
                            T_NONE, T_INT, T_COMPONENT, T_OTHER, Unsupported, AbsSeq)
from vf.pyvc.driver import FnVerifier
from . import memory_model as mm
from .memory_replay import make_replay, make_static_replay

FILE = "amaranth_soc/memory.py"
AX = POW2_AXIOMS


def least_multiple_ge(r, value, al):
    """r is the least multiple of 2**al that is >= value"""
    P = pow2(al)
    return z3.And(r >= value, r < value + P, r % P == 0)


# ---- callee contracts (call-site form) ---------------------------------------------------------------
def c_align_up(ex, recv, args, kwargs, q, node):
    v, al = ex.toint(args[0], node), ex.toint(args[1], node)
    ex.oblige("pre:_align_up:value>=0", q, v >= 0, node)
    ex.oblige("pre:_align_up:alignment>=0", q, al >= 0, node)
    r = z3.FreshInt("aligned")
    q.assume(least_multiple_ge(r, v, al))
    return [(r, q)]


def c_align_to(ex, recv, args, kwargs, q, node):
    """call-site contract of self.align_to(alignment) (proved in verify_align_to): raises ValueError for a bad alignment,
    otherwise moves the cursor to the least multiple of 2**max(alignment, self.alignment) and returns it"""
    al = as_dyn(args[0], q)
    h = q.ghost[("handles", id(recv))]
    cur = ex.toint(ex.getattr(recv, "_next_addr", q, node)[0][0])
    bad = q.fork(); bad.assume(z3.Not(z3.And(al.tag == T_INT, al.ival >= 0)))
    q.assume(z3.And(al.tag == T_INT, al.ival >= 0))
    r = z3.FreshInt("cursor")
    q.assume(least_multiple_ge(r, cur, z3.If(al.ival >= h["al"], al.ival, h["al"])))
    q.heap[(id(recv), "_next_addr")] = r
    q.writes.append((recv.name, "_next_addr"))
    out = [(r, q)]
    if ex.feasible(bad.pc):
        out.append((Raised("ValueError"), bad))
    return out


def car_post(view, aw, al_map, next_addr, addr, size, step, alignment, start, stop):
    """post-condition of MemoryMap._compute_addr_range on normal return (range(start, stop, step))"""
    P = pow2(alignment)
    eff_size = z3.If(size.ival > 1, size.ival, 1)
    return [
        ("explicit-addr-honoured", z3.Implies(addr.tag != T_NONE, z3.And(addr.tag == T_INT, addr.ival >= 0, start == addr.ival,
                                                                         addr.ival % pow2(al_map) == 0))),
        ("implicit-addr-first-aligned-after-cursor", z3.Implies(addr.tag == T_NONE, least_multiple_ge(start, next_addr, alignment))),
        ("size-is-int", z3.And(size.tag == T_INT, size.ival >= 0)),
        ("size-rounded", least_multiple_ge(stop - start, eff_size, alignment)),
        ("in-bounds", z3.And(0 <= start, start < stop, stop <= pow2(aw))),
        ("disjoint-from-existing", mm.no_overlap(view, start, stop)),
    ]


def c_compute_addr_range(ex, recv, args, kwargs, q, node):
    """call-site contract of self._compute_addr_range(addr, size, step=1, *, alignment)"""
    self_ = recv
    addr, size = args[0], args[1]
    step = ex.toint(args[2], node) if len(args) > 2 else z3.IntVal(1)
    alignment = ex.toint(kwargs["alignment"], node)
    h = q.ghost[("handles", id(self_))]
    view = mm.view_of(q, self_)
    ex.oblige("pre:_compute_addr_range:alignment>=0", q, alignment >= 0, node)
    ex.oblige("pre:_compute_addr_range:step>=1", q, step >= 1, node)
    addr = as_dyn(addr, q); size = as_dyn(size, q)
    # may raise ValueError (modifies nothing); otherwise returns a range satisfying car_post
    bad = q.fork()
    start, stop = z3.FreshInt("start"), z3.FreshInt("stop")
    cur_next = ex.toint(ex.getattr(self_, "_next_addr", q, node)[0][0])
    for _, f in car_post(view, h["aw"], h["al"], cur_next, addr, size, step, alignment, start, stop):
        q.assume(f)
    q.ghost["car_call"] = {"start": start, "stop": stop, "alignment": alignment, "addr": addr}
    out = []
    if ex.feasible(q.pc):
        out.append((Rng(start, stop, step), q))
    out.append((Raised("ValueError"), bad))
    return out


def align_layer(fv, lab, p, h, v, start, stop, cuts, extra=()):
    """Obligations `wf-align-preserved:*` for a path that inserted [start, stop): the second invariant layer
    (memory_model.wf_align_parts) holds for the new view, given it held before.  Premises: the path condition, the layer for
    the old view, `cuts` (clauses of this same path that are proved as their own obligations: cut rule), the definitions of
    Al/Dv/fdiv unfolded at the terms of this path, and ground instances of the Lean lemmas."""
    call = p.ghost.get("car_call")
    al = h["al"]
    inst = [mm.def_Al(start, al), mm.def_Al(stop - start, al)]
    if call is not None:
        A = call["alignment"]
        inst.append(mm.def_Al(call["addr"].ival, al))
        inst += [mm.def_Al(start, A), mm.def_Al(stop - start, A),
                 mm.lemma_aligned_coarser(start, A, al), mm.lemma_aligned_coarser(stop - start, A, al)]
    pre = list(p.pc) + [h["wf_align"]] + list(cuts) + inst + list(extra)
    for nm, f in mm.wf_align_parts(v, al):
        fv.add("wf-align-preserved:" + nm, lab, pre, f, axioms=POW2_AXIOMS_LIN)
    if not getattr(fv, "_align_canary", False):
        fv._align_canary = True
        fv.add("canary:wf-align-premises-consistent", lab, pre, z3.BoolVal(False), expect_sat="not-unsat", axioms=POW2_AXIOMS_LIN)


def as_dyn(v, q):
    """view an engine value as a tagged value"""
    if isinstance(v, Dyn):
        return v
    d = Dyn(f"lit{next(SymObj._count)}")
    if v is NONE:
        q.assume(d.tag == T_NONE)
    elif isinstance(v, (z3.ArithRef, int)):
        q.assume(z3.And(d.tag == T_INT, d.ival == (v if isinstance(v, z3.ArithRef) else z3.IntVal(v))))
    else:
        raise Unsupported(f"as_dyn({v!r})")
    return d


# ---- state equality (failure atomicity) ----------------------------------------------------------------
def unchanged(ex, q, obj, handles, view0, node=None):
    v = mm.view_of(q, obj)
    nxt = ex.getattr(obj, "_next_addr", q, node)[0][0]
    frz = ex.getattr(obj, "_frozen", q, node)[0][0]
    conj = [nxt == handles["next"], frz == handles["frozen"], v.n == view0.n]
    for f in ("S", "E", "T", "V", "isres", "iswin", "rS", "rE", "wS", "wE", "wT"):
        a, b = getattr(v, f), getattr(view0, f)
        conj.append(z3.BoolVal(True) if a.eq(b) else a == b)
    ns_changed = q.ghost.get(("ns_version", id(obj)), 0) != 0
    conj.append(z3.BoolVal(not ns_changed))
    return z3.And(*conj)


def fresh_self(q, name="self"):
    m, h = mm.new_map(name, q)
    q.ghost[("handles", id(m))] = h
    return m, h


def base_exec():
    ex = Exec(FILE, "MemoryMap", axioms=AX)
    ex.contracts["self._align_up"] = c_align_up
    ex.contracts["self._compute_addr_range"] = c_compute_addr_range
    ex.contracts["self.align_to"] = c_align_to
    ex.contracts["MemoryMap.Name"] = mm.name_contract
    ex.contracts["''.join"] = lambda ex, recv, a, k, q, n: [(Opaque("str"), q)]
    ex.contracts["\", \".join"] = lambda ex, recv, a, k, q, n: [(Opaque("str"), q)]
    ex.isinstance_hook = isinstance_hook
    return ex


def isinstance_hook(v, ty, node):
    if isinstance(v, SymObj) and ty == "MemoryMap":
        return z3.BoolVal(v.cls == "MemoryMap")
    if isinstance(v, Opaque) and ty == "MemoryMap":
        return z3.BoolVal(False)
    if isinstance(v, Dyn) and ty == "MemoryMap":
        return z3.BoolVal(False)
    return None


# ---- verification of each function ---------------------------------------------------------------------
def verify_align_up():
    fv = FnVerifier("MemoryMap._align_up", AX)
    fn = find_def(FILE, "MemoryMap._align_up")
    ex = Exec(FILE, "MemoryMap", axioms=AX)
    v, a = z3.Ints("value alignment")
    outs = ex.run(fn, Path(pc=[v >= 0, a >= 0], env={"value": v, "alignment": a}))
    fv.paths = len(outs)
    for k, o in enumerate(outs):
        def _call(value, alignment):
            from amaranth_soc.memory import MemoryMap
            return MemoryMap._align_up(value, alignment)
        fv.default_replay = make_static_replay(_call, [v, a], o, ex)
        if o.kind != "return":
            fv.add("no-exception", f"path{k}", o.path.pc, z3.BoolVal(False)); continue
        r = ex.toint(o.value)
        fv.add("result-is-least-multiple-ge", f"path{k}", o.path.pc, least_multiple_ge(r, v, a))
        fv.add("result-unique", f"path{k}", o.path.pc,
               z3.Implies(a >= 0, z3.And(r - v < pow2(a), r >= v)))
    fv.add("canary:result-equals-value", "vacuity", [v >= 0, a >= 0], z3.BoolVal(False), expect_sat=True)
    fv.add_engine_obligations(ex)
    return fv


def verify_align_to():
    fv = FnVerifier("MemoryMap.align_to", AX)
    fn = find_def(FILE, "MemoryMap.align_to")
    ex = base_exec()
    q = Path()
    self_, h = fresh_self(q)
    al = Dyn("alignment"); q.assume(al.wf())
    view0 = h["view"]
    q.env.update({"self": self_, "alignment": al})
    outs = ex.run(fn, q)
    fv.paths = len(outs)
    for k, o in enumerate(outs):
        p = o.path
        fv.default_replay = make_replay("align_to", h, [(None, al)], o, ex, self_)
        if o.kind == "raise":
            fv.add("raises-only-ValueError", f"path{k}", p.pc, z3.BoolVal(o.exc == "ValueError"))
            fv.add("raise-leaves-state-unchanged", f"path{k}", p.pc, unchanged(ex, p, self_, h, view0))
            fv.add("raise-only-for-bad-alignment", f"path{k}", p.pc, z3.Not(z3.And(al.tag == T_INT, al.ival >= 0)))
        else:
            r = ex.toint(o.value)
            eff = z3.If(al.ival >= h["al"], al.ival, h["al"])
            nxt = ex.getattr(self_, "_next_addr", p, None)[0][0]
            fv.add("returns-aligned-cursor", f"path{k}", p.pc, least_multiple_ge(r, h["next"], eff))
            fv.add("stores-aligned-cursor", f"path{k}", p.pc, nxt == r)
            v = mm.view_of(p, self_)
            fv.add("ranges-untouched", f"path{k}", p.pc, z3.BoolVal(v is view0 or all(getattr(v, f).eq(getattr(view0, f)) for f in mm.MapView.FIELDS)))
            for nm, f in mm.wf_map_parts(v, h["aw"], h["dw"], h["al"], nxt):
                fv.add("wf-preserved:" + nm, f"path{k}", p.pc, f)
            fv.add("accepts-valid-alignment", f"path{k}", p.pc, z3.And(al.tag == T_INT, al.ival >= 0))
    fv.add_engine_obligations(ex)
    return fv


def verify_compute_addr_range():
    fv = FnVerifier("MemoryMap._compute_addr_range", AX)
    fn = find_def(FILE, "MemoryMap._compute_addr_range")
    ex = base_exec()
    del ex.contracts["self._compute_addr_range"]
    q = Path()
    self_, h = fresh_self(q)
    addr, size = Dyn("addr"), Dyn("size")
    step, alignment = z3.Int("step"), z3.Int("alignment")
    q.assume(z3.And(addr.wf(), size.wf(), step >= 1, alignment >= 0))
    view0 = h["view"]
    q.env.update({"self": self_, "addr": addr, "size": size, "step": step, "alignment": alignment})
    fv.scope_hints = [view0.n == 0, view0.n == 1]
    outs = ex.run(fn, q)
    fv.paths = len(outs)
    n_ret = 0
    for k, o in enumerate(outs):
        p = o.path
        fv.default_replay = make_replay("_compute_addr_range", h, [(None, addr), (None, size), (None, step), ("alignment", alignment)], o, ex, self_)
        if o.kind == "raise":
            fv.add("raises-only-ValueError", f"path{k}", p.pc, z3.BoolVal(o.exc == "ValueError"))
            fv.add("raise-leaves-state-unchanged", f"path{k}", p.pc, unchanged(ex, p, self_, h, view0))
        else:
            n_ret += 1
            r = o.value
            fv.add("returns-range", f"path{k}", p.pc, z3.BoolVal(isinstance(r, Rng)))
            for nm, f in car_post(view0, h["aw"], h["al"], h["next"], addr, size, step, alignment, r.start, r.stop):
                fv.add(nm, f"path{k}", p.pc, f)
            fv.add("step-kept", f"path{k}", p.pc, r.step == step)
            fv.add("modifies-nothing", f"path{k}", p.pc, unchanged(ex, p, self_, h, view0))
    fv.add("cover:some-path-returns", "vacuity", [], z3.BoolVal(n_ret > 0))
    fv.add_engine_obligations(ex)
    return fv


def verify_add_resource():
    fv = FnVerifier("MemoryMap.add_resource", AX)
    fn = find_def(FILE, "MemoryMap.add_resource")
    ex = base_exec()
    q = Path()
    self_, h = fresh_self(q)
    resource, size, addr, alignment = Dyn("resource"), Dyn("size"), Dyn("addr"), Dyn("alignment")
    name = Opaque("name")
    q.assume(z3.And(resource.wf(), size.wf(), addr.wf(), alignment.wf()))
    view0 = h["view"]
    # id() is injective on live objects and no object is both a wiring.Component and a MemoryMap:
    # a component's identity is not the identity of a registered window
    q.assume(z3.Implies(resource.tag == T_COMPONENT, z3.Not(view0.iswin[resource.ident])))
    q.env.update({"self": self_, "resource": resource, "name": name, "size": size, "addr": addr, "alignment": alignment})
    fv.scope_hints = [view0.n == 0, view0.n == 1]
    outs = ex.run(fn, q)
    fv.paths = len(outs)
    n_ret = 0
    for k, o in enumerate(outs):
        p = o.path
        fv.default_replay = make_replay("add_resource", h, [(None, resource), ("name", "NAME"), ("size", size), ("addr", addr), ("alignment", alignment)], o, ex, self_)
        if o.kind == "raise":
            fv.add("raises-only-ValueError-or-TypeError", f"path{k}", p.pc, z3.BoolVal(o.exc in ("ValueError", "TypeError")))
            fv.add("raise-leaves-state-unchanged", f"path{k}", p.pc, unchanged(ex, p, self_, h, view0))
            continue
        n_ret += 1
        start, stop = [ex.toint(x) for x in o.value]
        v = mm.view_of(p, self_)
        nxt = ex.getattr(self_, "_next_addr", p, None)[0][0]
        eff = z3.If(alignment.tag == T_NONE, h["al"], z3.If(alignment.ival >= h["al"], alignment.ival, h["al"]))
        eff_size = z3.If(size.ival > 1, size.ival, 1)
        pos = p.ghost.get("insert_pos")
        clauses = [
            ("frozen-map-refuses", z3.Not(h["frozen"])),
            ("resource-is-component", resource.tag == T_COMPONENT),
            ("not-added-twice", z3.Not(view0.isres[resource.ident])),
            ("explicit-addr-honoured", z3.Implies(addr.tag != T_NONE, start == addr.ival)),
            ("implicit-addr-first-aligned-after-cursor", z3.Implies(addr.tag == T_NONE, least_multiple_ge(start, h["next"], eff))),
            ("size-covers-request-rounded", least_multiple_ge(stop - start, eff_size, eff)),
            ("in-bounds", z3.And(0 <= start, start < stop, stop <= pow2(h["aw"]))),
            ("disjoint-from-existing", mm.no_overlap(view0, start, stop)),
            ("cursor-advanced-to-end", nxt == stop),
            ("recorded-in-ranges", mm.inserted(view0, v, pos, start, stop, z3.IntVal(1), resource.ident) if pos is not None else z3.BoolVal(False)),
            ("recorded-as-resource", z3.And(v.isres[resource.ident], v.rS[resource.ident] == start, v.rE[resource.ident] == stop)),
            ("others-unchanged", z3.ForAll([mm._i], z3.Implies(mm._i != resource.ident, z3.And(
                v.isres[mm._i] == view0.isres[mm._i], v.iswin[mm._i] == view0.iswin[mm._i],
                v.rS[mm._i] == view0.rS[mm._i], v.rE[mm._i] == view0.rE[mm._i],
                v.wS[mm._i] == view0.wS[mm._i], v.wE[mm._i] == view0.wE[mm._i], v.wT[mm._i] == view0.wT[mm._i])))),
            ("not-a-window", z3.Not(v.iswin[resource.ident]) if True else None),
            ("frozen-flag-untouched", ex.getattr(self_, "_frozen", p, None)[0][0] == h["frozen"]),
        ]
        for nm, f in clauses:
            fv.add(nm, f"path{k}", p.pc, f)
        for nm, f in mm.wf_map_parts(v, h["aw"], h["dw"], h["al"], nxt):
            fv.add("wf-preserved:" + nm, f"path{k}", p.pc, f)
        cd = dict(clauses)
        align_layer(fv, f"path{k}", p, h, v, start, stop,
                    [cd[c] for c in ("recorded-in-ranges", "others-unchanged", "not-a-window", "explicit-addr-honoured")])
    fv.add("cover:some-path-returns", "vacuity", [], z3.BoolVal(n_ret > 0))
    fv.add_engine_obligations(ex)
    return fv


# ---- add_window -----------------------------------------------------------------------------------------
def c_is_available_ast(ex, e, recv, q):
    """self._namespace.is_available(*queries, reasons=...) -- availability is an uninterpreted fact here (C18)."""
    return [(z3.FreshBool("name_available"), q)]


c_is_available_ast.takes_ast = True


def c_inline_method(qual):
    def h(ex, recv, args, kwargs, q, node):
        fn = find_def(FILE, qual)
        return ex.inline(fn, [recv] + list(args), kwargs, q, node)
    return h


def verify_add_window():
    fv = FnVerifier("MemoryMap.add_window", AX)
    fn = find_def(FILE, "MemoryMap.add_window")
    n_ret = 0
    for case in ("map", "not-a-map"):
        ex = base_exec()
        ex.contracts["self._namespace.is_available"] = c_is_available_ast
        ex.contracts["MemoryMap.freeze"] = c_inline_method("MemoryMap.freeze")
        q = Path()
        self_, h = fresh_self(q)
        view0 = h["view"]
        name, addr, sparse = Dyn("name"), Dyn("addr"), Dyn("sparse")
        q.assume(z3.And(name.wf(), addr.wf(), sparse.wf()))
        if case == "map":
            window, wh = mm.new_map("window", q)
            q.ghost[("handles", id(window))] = wh
            # a MemoryMap is not a wiring.Component; id() injective: the window's identity is not a registered resource
            q.assume(z3.Not(view0.isres[window.ref]))
        else:
            window = Opaque("not a MemoryMap")
        q.env.update({"self": self_, "window": window, "name": name, "addr": addr, "sparse": sparse})
        fv.scope_hints = [z3.And(view0.n == 0, wh["view"].n == 0), z3.And(view0.n == 1, wh["view"].n == 0)] if case == "map" else [view0.n == 0]
        outs = ex.run(fn, q)
        fv.paths += len(outs)
        for k, o in enumerate(outs):
            p = o.path
            lab = f"{case}:path{k}"
            fv.default_replay = make_replay("add_window", h, [(None, ("MAP", wh, window)), ("name", ("NAMEDYN", name)), ("addr", addr), ("sparse", sparse)],
                                            o, ex, self_) if case == "map" else None
            if o.kind == "raise":
                fv.add("raises-only-ValueError-or-TypeError", lab, p.pc, z3.BoolVal(o.exc in ("ValueError", "TypeError")))
                fv.add("raise-leaves-state-unchanged", lab, p.pc, unchanged(ex, p, self_, h, view0))
                if case == "map":
                    wf_now = ex.getattr(window, "_frozen", p, None)[0][0]
                    fv.add("raise-leaves-window-unfrozen", lab, p.pc, wf_now == wh["frozen"])
                continue
            fv.add("non-map-is-refused", lab, p.pc, z3.BoolVal(case == "map"))
            if case != "map":
                continue
            n_ret += 1
            start, stop, step = [ex.toint(x) for x in o.value]
            v = mm.view_of(p, self_)
            nxt = ex.getattr(self_, "_next_addr", p, None)[0][0]
            dw, wdw, waw, wal = h["dw"], wh["dw"], wh["aw"], wh["al"]
            dense = z3.Not(ex.truth(sparse))
            ratio1 = z3.Or(z3.Not(dense), dw == wdw)
            eff1 = z3.If(h["al"] >= waw, h["al"], waw)
            pos = p.ghost.get("insert_pos")
            clauses = [
                ("frozen-map-refuses", z3.Not(h["frozen"])),
                ("not-added-twice", z3.Not(view0.iswin[window.ref])),
                ("window-not-wider", wdw <= dw),
                ("mode-given-when-widths-differ", z3.Implies(wdw != dw, sparse.tag != T_NONE)),
                ("dense-needs-integer-ratio", z3.Implies(z3.And(wdw != dw, dense), dw % wdw == 0)),
                ("ratio-reported", z3.Implies(ratio1, step == 1)),
                ("dense-ratio-reported", z3.Implies(z3.Not(ratio1), z3.And(step * wdw == dw, step >= 2))),
                ("explicit-addr-honoured", z3.Implies(addr.tag != T_NONE, start == addr.ival)),
                ("implicit-addr-first-aligned-after-cursor[ratio1]",
                 z3.Implies(z3.And(ratio1, addr.tag == T_NONE), least_multiple_ge(start, h["next"], eff1))),
                ("size-covers-window[ratio1]", z3.Implies(ratio1, least_multiple_ge(stop - start, pow2(waw), eff1))),
                ("size-covers-window-span-over-ratio[dense]", z3.Implies(z3.Not(ratio1), stop - start >= pow2(waw) / step)),
                ("in-bounds", z3.And(0 <= start, start < stop, stop <= pow2(h["aw"]))),
                ("disjoint-from-existing", mm.no_overlap(view0, start, stop)),
                ("cursor-advanced-to-end", nxt == stop),
                ("window-frozen", ex.getattr(window, "_frozen", p, None)[0][0] == True),
                ("recorded-in-ranges", mm.inserted(view0, v, pos, start, stop, step, window.ref) if pos is not None else z3.BoolVal(False)),
                ("recorded-as-window", z3.And(v.iswin[window.ref], v.wS[window.ref] == start, v.wE[window.ref] == stop,
                                              v.wT[window.ref] == step)),
                ("others-unchanged", z3.ForAll([mm._i], z3.Implies(mm._i != window.ref, z3.And(
                    v.isres[mm._i] == view0.isres[mm._i], v.iswin[mm._i] == view0.iswin[mm._i],
                    v.rS[mm._i] == view0.rS[mm._i], v.rE[mm._i] == view0.rE[mm._i],
                    v.wS[mm._i] == view0.wS[mm._i], v.wE[mm._i] == view0.wE[mm._i], v.wT[mm._i] == view0.wT[mm._i])))),
                ("frozen-flag-untouched", ex.getattr(self_, "_frozen", p, None)[0][0] == h["frozen"]),
            ]
            for nm, f in clauses:
                fv.add(nm, lab, p.pc, f)
            for nm, f in mm.wf_map_parts(v, h["aw"], h["dw"], h["al"], nxt):
                fv.add("wf-preserved:" + nm, lab, p.pc, f)
            cd = dict(clauses)
            # the new entry is a window: its geometry (by identity) is the window map's, its ratio passed the power-of-two test
            extra = [mm.geometry_link(window.ref, waw, wdw, wal), mm.def_fdiv(pow2(waw), step)]
            extra += [mm.lemma_pow2_test(x, r, wal) for x, r in p.ghost.get("pow2tests", ())]
            align_layer(fv, lab, p, h, v, start, stop,
                        [cd[c] for c in ("recorded-in-ranges", "others-unchanged", "explicit-addr-honoured", "ratio-reported",
                                         "dense-ratio-reported", "size-covers-window[ratio1]", "size-covers-window-span-over-ratio[dense]")],
                        extra)
        fv.add_engine_obligations(ex)
    fv.add("cover:some-path-returns", "vacuity", [], z3.BoolVal(n_ret > 0))
    return fv


def verify_freeze():
    fv = FnVerifier("MemoryMap.freeze", AX)
    fn = find_def(FILE, "MemoryMap.freeze")
    ex = base_exec()
    q = Path()
    self_, h = fresh_self(q)
    view0 = h["view"]
    q.env["self"] = self_
    outs = ex.run(fn, q)
    fv.paths = len(outs)
    for k, o in enumerate(outs):
        p = o.path
        fv.add("no-exception", f"path{k}", p.pc, z3.BoolVal(o.kind == "return"))
        fv.add("sets-frozen", f"path{k}", p.pc, ex.getattr(self_, "_frozen", p, None)[0][0] == True)
        fv.add("nothing-else-changes", f"path{k}", p.pc, z3.And(ex.getattr(self_, "_next_addr", p, None)[0][0] == h["next"],
                                                                  z3.BoolVal(mm.view_of(p, self_) is view0)))
    fv.add_engine_obligations(ex)
    return fv


# ---- resources() / windows(): generators over filter(closure, self._ranges.items()) ---------------------------
def loop_filter_items(ex, st_node, path):
    """for <targets> in filter(<closure>, self._ranges.items()): one arbitrary iteration.
    _RangeMap.items() contract (proved in rangemap.verify_items): yields (key_k, value_k) for k = 0..n-1 in order.
    filter() (builtin, assumed): passes exactly the items for which the closure is truthy, in order."""
    it = st_node.iter
    if not (isinstance(it, ast.Call) and ast.unparse(it.func) == "filter" and len(it.args) == 2 and isinstance(it.args[0], ast.Name)):
        ex.unsupported(st_node, "loop iterable")
    out = []
    for src, q in ex.eval(it.args[1], path):
        if not (isinstance(src, tuple) and src and src[0] == "items"):
            ex.unsupported(st_node, "filter source")
        owner = src[1]
        v = mm.view_of(q, owner)
        k = z3.FreshInt("iter_idx")
        body = q.fork()
        body.assume(z3.And(0 <= k, k < v.n))
        item = Tup((Rng(v.S[k], v.E[k], v.T[k]), mm.Ref(v.V[k])))
        closure = body.ghost["closures"][it.args[0].id]
        for keep, q2 in ex.inline(closure, [item], {}, body, st_node, base_env=body.env):
            if isinstance(keep, Raised):
                out.append(("raise", keep.exc, q2)); continue
            q2.assume(ex.truth(keep))
            q2.ghost["iter_idx"] = k
            for kind, _, q3 in ex.assign(st_node.target, item, q2, st_node):
                for kind2, val2, q4 in ex.block(st_node.body, q3):
                    if kind2 == "raise":
                        out.append((kind2, val2, q4))
        out.append(("fall", None, q))
    return out


import ast


def _verify_listing(method, kind):
    fv = FnVerifier(f"MemoryMap.{method}", AX)
    fn = find_def(FILE, f"MemoryMap.{method}")
    ex = base_exec()
    ex.loop_invariants[0] = loop_filter_items
    q = Path()
    self_, h = fresh_self(q)
    view0 = h["view"]
    q.env["self"] = self_
    outs = ex.run(fn, q)
    fv.paths = len(outs)
    for k, o in enumerate(outs):
        fv.add("no-exception", f"path{k}", o.path.pc, z3.BoolVal(o.kind == "return"))
        fv.add("modifies-nothing", f"path{k}", o.path.pc, unchanged(ex, o.path, self_, h, view0))
    for k, (val, p) in enumerate(ex.yields):
        idx = p.ghost["iter_idx"]
        member = view0.isres if kind == "res" else view0.iswin
        obj, name, rng = val
        fv.add("only-registered-items-are-reported", f"yield{k}", p.pc, member[view0.V[idx]])
        fv.add("reports-the-object-of-the-k-th-range", f"yield{k}", p.pc, obj.ident == view0.V[idx])
        if kind == "res":
            fv.add("reports-exactly-the-handed-out-range", f"yield{k}", p.pc,
                   z3.And(ex.toint(rng[0]) == view0.S[idx], ex.toint(rng[1]) == view0.E[idx],
                          ex.toint(rng[0]) == view0.rS[view0.V[idx]], ex.toint(rng[1]) == view0.rE[view0.V[idx]]))
        else:
            fv.add("reports-exactly-the-handed-out-range", f"yield{k}", p.pc,
                   z3.And(ex.toint(rng[0]) == view0.S[idx], ex.toint(rng[1]) == view0.E[idx], ex.toint(rng[2]) == view0.T[idx],
                          ex.toint(rng[0]) == view0.wS[view0.V[idx]], ex.toint(rng[2]) == view0.wT[view0.V[idx]]))
        fv.add("name-is-the-registered-name", f"yield{k}", p.pc,
               z3.BoolVal(isinstance(name, mm.NameOf)) if not isinstance(name, mm.NameOf) else name.ident == view0.V[idx])
    # order: items come in index order and wf gives E[i] <= S[j] for i<j  => ascending, pairwise disjoint report
    i, j = z3.Ints("oi oj")
    fv.add("index-order-is-ascending-address-order", "lemma", list(q.pc),
           z3.ForAll([i, j], z3.Implies(z3.And(0 <= i, i < j, j < view0.n), z3.And(view0.S[i] < view0.S[j], view0.E[i] <= view0.S[j]))))
    fv.add("every-registered-object-is-reported", "lemma", list(q.pc),
           z3.ForAll([i], z3.Implies((view0.isres if kind == "res" else view0.iswin)[i],
                                     z3.And(0 <= view0.idx[i], view0.idx[i] < view0.n, view0.V[view0.idx[i]] == i))))
    fv.add("cover:yields", "vacuity", [], z3.BoolVal(len(ex.yields) > 0))
    fv.add_engine_obligations(ex)
    return fv


def verify_resources():
    return _verify_listing("resources", "res")


def verify_windows():
    return _verify_listing("windows", "win")


def verify_init():
    """MemoryMap.__init__ establishes the representation invariant (empty map) or raises ValueError."""
    fv = FnVerifier("MemoryMap.__init__", AX)
    fn = find_def(FILE, "MemoryMap.__init__")
    ex = base_exec()
    from vf.pyvc.engine import Empty
    ex.contracts["_RangeMap"] = lambda ex, recv, a, k, q, n: [(Opaque("fresh _RangeMap"), q)]
    ex.contracts["_Namespace"] = lambda ex, recv, a, k, q, n: [(Opaque("fresh _Namespace"), q)]
    q = Path()
    self_ = SymObj("MemoryMap", "self")
    aw, dw, al = Dyn("addr_width"), Dyn("data_width"), Dyn("alignment")
    q.assume(z3.And(aw.wf(), dw.wf(), al.wf()))
    q.env.update({"self": self_, "addr_width": aw, "data_width": dw, "alignment": al})
    outs = ex.run(fn, q)
    fv.paths = len(outs)
    valid = z3.And(aw.tag == T_INT, aw.ival > 0, dw.tag == T_INT, dw.ival > 0, al.tag == T_INT, al.ival >= 0)
    n_ret = 0
    for k, o in enumerate(outs):
        p = o.path
        if o.kind == "raise":
            fv.add("raises-only-ValueError", f"path{k}", p.pc, z3.BoolVal(o.exc == "ValueError"))
            fv.add("raises-only-for-invalid-geometry", f"path{k}", p.pc, z3.Not(valid))
            continue
        n_ret += 1
        g = lambda f: p.heap.get((id(self_), f))
        fv.add("accepts-only-valid-geometry", f"path{k}", p.pc, valid)
        fv.add("geometry-stored", f"path{k}", p.pc, z3.And(ex.toint(g("_addr_width")) == aw.ival, ex.toint(g("_data_width")) == dw.ival,
                                                           ex.toint(g("_alignment")) == al.ival))
        fv.add("cursor-starts-at-0-unfrozen", f"path{k}", p.pc, z3.And(ex.toint(g("_next_addr")) == 0, g("_frozen") == False))
        fv.add("containers-fresh-and-empty", f"path{k}", p.pc,
               z3.BoolVal(isinstance(g("_resources"), Empty) and isinstance(g("_windows"), Empty)
                          and isinstance(g("_ranges"), Opaque) and isinstance(g("_namespace"), Opaque)))
        # the empty view satisfies the representation invariant
        v = mm.MapView("_empty")
        pre = [v.n == 0, z3.ForAll([mm._i], z3.And(z3.Not(v.isres[mm._i]), z3.Not(v.iswin[mm._i])))]
        for nm, f in mm.wf_map_parts(v, aw.ival, dw.ival, al.ival, z3.IntVal(0)):
            fv.add("establishes-wf:" + nm, f"path{k}", p.pc + pre, f)
        for nm, f in mm.wf_align_parts(v, al.ival):
            fv.add("establishes-wf-align:" + nm, f"path{k}", p.pc + pre, f)
    fv.add("cover:some-path-returns", "vacuity", [], z3.BoolVal(n_ret > 0))
    fv.add_engine_obligations(ex)
    return fv


def verify_rangemap_init():
    fv = FnVerifier("_RangeMap.__init__", AX)
    fn = find_def(FILE, "_RangeMap.__init__")
    ex = base_exec()
    from vf.pyvc.engine import Empty
    q = Path()
    self_ = SymObj("_RangeMap", "self")
    q.env["self"] = self_
    outs = ex.run(fn, q)
    fv.paths = len(outs)
    for k, o in enumerate(outs):
        p = o.path
        fv.add("no-exception", f"path{k}", p.pc, z3.BoolVal(o.kind == "return"))
        fv.add("all-four-containers-empty", f"path{k}", p.pc,
               z3.BoolVal(all(isinstance(p.heap.get((id(self_), f)), Empty) for f in ("_keys", "_values", "_starts", "_stops"))))
    fv.add_engine_obligations(ex)
    return fv
