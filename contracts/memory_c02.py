"""C02 contracts: MemoryMap allocation (amaranth_soc/memory.py), discharged by pyvc.

Each `verify_*` builds the symbolic pre-state (`requires`), runs the REAL function body from /repo, and turns each
`ensures` clause into obligations per path.  Callee contracts (`c_*`) are the single source used both as proof goals
of the callee and as assumptions at call sites.
"""
import z3
from vf.pyvc.engine import (Exec, Path, Dyn, Rng, Tup, Opaque, NONE, Raised, SymObj, find_def, pow2, POW2_AXIOMS,
                            T_NONE, T_INT, T_COMPONENT, T_OTHER, Unsupported, AbsSeq)
from vf.pyvc.driver import FnVerifier
from . import memory_model as mm
from .memory_replay import make_replay

FILE = "amaranth_soc/memory.py"
AX = POW2_AXIOMS


def least_multiple_ge(r, value, al):
    """r is the least multiple of 2**al that is >= value"""
    P = pow2(al)
    return z3.And(r >= value, r < value + P, r % P == 0)


# ---- callee contracts (call-site form) ---------------------------------------------------------------
def c_align_up(ex, recv, args, kwargs, q, node):
    v, al = ex.toint(args[0], node), ex.toint(args[1], node)
    ex.oblige("pre:_align_up:value>=0", q, v >= 0, node)
    ex.oblige("pre:_align_up:alignment>=0", q, al >= 0, node)
    r = z3.FreshInt("aligned")
    q.assume(least_multiple_ge(r, v, al))
    return [(r, q)]


def car_post(view, aw, al_map, next_addr, addr, size, step, alignment, start, stop):
    """post-condition of MemoryMap._compute_addr_range on normal return (range(start, stop, step))"""
    P = pow2(alignment)
    eff_size = z3.If(size.ival > 1, size.ival, 1)
    return [
        ("explicit-addr-honoured", z3.Implies(addr.tag != T_NONE, z3.And(addr.tag == T_INT, addr.ival >= 0, start == addr.ival,
                                                                         addr.ival % pow2(al_map) == 0))),
        ("implicit-addr-first-aligned-after-cursor", z3.Implies(addr.tag == T_NONE, least_multiple_ge(start, next_addr, alignment))),
        ("size-is-int", z3.And(size.tag == T_INT, size.ival >= 0)),
        ("size-rounded", least_multiple_ge(stop - start, eff_size, alignment)),
        ("in-bounds", z3.And(0 <= start, start < stop, stop <= pow2(aw))),
        ("disjoint-from-existing", mm.no_overlap(view, start, stop)),
    ]


def c_compute_addr_range(ex, recv, args, kwargs, q, node):
    """call-site contract of self._compute_addr_range(addr, size, step=1, *, alignment)"""
    self_ = recv
    addr, size = args[0], args[1]
    step = ex.toint(args[2], node) if len(args) > 2 else z3.IntVal(1)
    alignment = ex.toint(kwargs["alignment"], node)
    h = q.ghost[("handles", id(self_))]
    view = mm.view_of(q, self_)
    ex.oblige("pre:_compute_addr_range:alignment>=0", q, alignment >= 0, node)
    ex.oblige("pre:_compute_addr_range:step>=1", q, step >= 1, node)
    addr = as_dyn(addr, q); size = as_dyn(size, q)
    # may raise ValueError (modifies nothing); otherwise returns a range satisfying car_post
    bad = q.fork()
    start, stop = z3.FreshInt("start"), z3.FreshInt("stop")
    cur_next = ex.toint(ex.getattr(self_, "_next_addr", q, node)[0][0])
    for _, f in car_post(view, h["aw"], h["al"], cur_next, addr, size, step, alignment, start, stop):
        q.assume(f)
    out = []
    if ex.feasible(q.pc):
        out.append((Rng(start, stop, step), q))
    out.append((Raised("ValueError"), bad))
    return out


def as_dyn(v, q):
    """view an engine value as a tagged value"""
    if isinstance(v, Dyn):
        return v
    d = Dyn(f"lit{next(SymObj._count)}")
    if v is NONE:
        q.assume(d.tag == T_NONE)
    elif isinstance(v, (z3.ArithRef, int)):
        q.assume(z3.And(d.tag == T_INT, d.ival == (v if isinstance(v, z3.ArithRef) else z3.IntVal(v))))
    else:
        raise Unsupported(f"as_dyn({v!r})")
    return d


# ---- state equality (failure atomicity) ----------------------------------------------------------------
def unchanged(ex, q, obj, handles, view0, node=None):
    v = mm.view_of(q, obj)
    nxt = ex.getattr(obj, "_next_addr", q, node)[0][0]
    frz = ex.getattr(obj, "_frozen", q, node)[0][0]
    conj = [nxt == handles["next"], frz == handles["frozen"], v.n == view0.n]
    for f in ("S", "E", "T", "V", "isres", "iswin", "rS", "rE", "wS", "wE", "wT"):
        a, b = getattr(v, f), getattr(view0, f)
        conj.append(z3.BoolVal(True) if a.eq(b) else a == b)
    ns_changed = q.ghost.get(("ns_version", id(obj)), 0) != 0
    conj.append(z3.BoolVal(not ns_changed))
    return z3.And(*conj)


def fresh_self(q, name="self"):
    m, h = mm.new_map(name, q)
    q.ghost[("handles", id(m))] = h
    return m, h


def base_exec():
    ex = Exec(FILE, "MemoryMap", axioms=AX)
    ex.contracts["self._align_up"] = c_align_up
    ex.contracts["self._compute_addr_range"] = c_compute_addr_range
    ex.contracts["MemoryMap.Name"] = mm.name_contract
    ex.contracts["''.join"] = lambda ex, recv, a, k, q, n: [(Opaque("str"), q)]
    ex.contracts["\", \".join"] = lambda ex, recv, a, k, q, n: [(Opaque("str"), q)]
    ex.isinstance_hook = isinstance_hook
    return ex


def isinstance_hook(v, ty, node):
    if isinstance(v, SymObj) and ty == "MemoryMap":
        return z3.BoolVal(v.cls == "MemoryMap")
    if isinstance(v, Opaque) and ty == "MemoryMap":
        return z3.BoolVal(False)
    if isinstance(v, Dyn) and ty == "MemoryMap":
        return z3.BoolVal(False)
    return None


# ---- verification of each function ---------------------------------------------------------------------
def verify_align_up():
    fv = FnVerifier("MemoryMap._align_up", AX)
    fn = find_def(FILE, "MemoryMap._align_up")
    ex = Exec(FILE, "MemoryMap", axioms=AX)
    v, a = z3.Ints("value alignment")
    outs = ex.run(fn, Path(pc=[v >= 0, a >= 0], env={"value": v, "alignment": a}))
    fv.paths = len(outs)
    for k, o in enumerate(outs):
        if o.kind != "return":
            fv.add("no-exception", f"path{k}", o.path.pc, z3.BoolVal(False)); continue
        r = ex.toint(o.value)
        fv.add("result-is-least-multiple-ge", f"path{k}", o.path.pc, least_multiple_ge(r, v, a))
        fv.add("result-unique", f"path{k}", o.path.pc,
               z3.Implies(a >= 0, z3.And(r - v < pow2(a), r >= v)))
    fv.add("canary:result-equals-value", "vacuity", [v >= 0, a >= 0], z3.BoolVal(False), expect_sat=True)
    fv.add_engine_obligations(ex)
    return fv


def verify_align_to():
    fv = FnVerifier("MemoryMap.align_to", AX)
    fn = find_def(FILE, "MemoryMap.align_to")
    ex = base_exec()
    q = Path()
    self_, h = fresh_self(q)
    al = Dyn("alignment"); q.assume(al.wf())
    view0 = h["view"]
    q.env.update({"self": self_, "alignment": al})
    outs = ex.run(fn, q)
    fv.paths = len(outs)
    for k, o in enumerate(outs):
        p = o.path
        fv.default_replay = make_replay("align_to", h, [(None, al)], o, ex, self_)
        if o.kind == "raise":
            fv.add("raises-only-ValueError", f"path{k}", p.pc, z3.BoolVal(o.exc == "ValueError"))
            fv.add("raise-leaves-state-unchanged", f"path{k}", p.pc, unchanged(ex, p, self_, h, view0))
            fv.add("raise-only-for-bad-alignment", f"path{k}", p.pc, z3.Not(z3.And(al.tag == T_INT, al.ival >= 0)))
        else:
            r = ex.toint(o.value)
            eff = z3.If(al.ival >= h["al"], al.ival, h["al"])
            nxt = ex.getattr(self_, "_next_addr", p, None)[0][0]
            fv.add("returns-aligned-cursor", f"path{k}", p.pc, least_multiple_ge(r, h["next"], eff))
            fv.add("stores-aligned-cursor", f"path{k}", p.pc, nxt == r)
            v = mm.view_of(p, self_)
            fv.add("ranges-untouched", f"path{k}", p.pc, z3.BoolVal(v is view0 or all(getattr(v, f).eq(getattr(view0, f)) for f in mm.MapView.FIELDS)))
            for nm, f in mm.wf_map_parts(v, h["aw"], h["dw"], h["al"], nxt):
                fv.add("wf-preserved:" + nm, f"path{k}", p.pc, f)
            fv.add("accepts-valid-alignment", f"path{k}", p.pc, z3.And(al.tag == T_INT, al.ival >= 0))
    fv.add_engine_obligations(ex)
    return fv


def verify_compute_addr_range():
    fv = FnVerifier("MemoryMap._compute_addr_range", AX)
    fn = find_def(FILE, "MemoryMap._compute_addr_range")
    ex = base_exec()
    del ex.contracts["self._compute_addr_range"]
    q = Path()
    self_, h = fresh_self(q)
    addr, size = Dyn("addr"), Dyn("size")
    step, alignment = z3.Int("step"), z3.Int("alignment")
    q.assume(z3.And(addr.wf(), size.wf(), step >= 1, alignment >= 0))
    view0 = h["view"]
    q.env.update({"self": self_, "addr": addr, "size": size, "step": step, "alignment": alignment})
    outs = ex.run(fn, q)
    fv.paths = len(outs)
    n_ret = 0
    for k, o in enumerate(outs):
        p = o.path
        fv.default_replay = make_replay("_compute_addr_range", h, [(None, addr), (None, size), (None, step), ("alignment", alignment)], o, ex, self_)
        if o.kind == "raise":
            fv.add("raises-only-ValueError", f"path{k}", p.pc, z3.BoolVal(o.exc == "ValueError"))
            fv.add("raise-leaves-state-unchanged", f"path{k}", p.pc, unchanged(ex, p, self_, h, view0))
        else:
            n_ret += 1
            r = o.value
            fv.add("returns-range", f"path{k}", p.pc, z3.BoolVal(isinstance(r, Rng)))
            for nm, f in car_post(view0, h["aw"], h["al"], h["next"], addr, size, step, alignment, r.start, r.stop):
                fv.add(nm, f"path{k}", p.pc, f)
            fv.add("step-kept", f"path{k}", p.pc, r.step == step)
            fv.add("modifies-nothing", f"path{k}", p.pc, unchanged(ex, p, self_, h, view0))
    fv.add("cover:some-path-returns", "vacuity", [], z3.BoolVal(n_ret > 0))
    fv.add_engine_obligations(ex)
    return fv


def verify_add_resource():
    fv = FnVerifier("MemoryMap.add_resource", AX)
    fn = find_def(FILE, "MemoryMap.add_resource")
    ex = base_exec()
    q = Path()
    self_, h = fresh_self(q)
    resource, size, addr, alignment = Dyn("resource"), Dyn("size"), Dyn("addr"), Dyn("alignment")
    name = Opaque("name")
    q.assume(z3.And(resource.wf(), size.wf(), addr.wf(), alignment.wf()))
    view0 = h["view"]
    # id() is injective on live objects and no object is both a wiring.Component and a MemoryMap:
    # a component's identity is not the identity of a registered window
    q.assume(z3.Implies(resource.tag == T_COMPONENT, z3.Not(view0.iswin[resource.ident])))
    q.env.update({"self": self_, "resource": resource, "name": name, "size": size, "addr": addr, "alignment": alignment})
    outs = ex.run(fn, q)
    fv.paths = len(outs)
    n_ret = 0
    for k, o in enumerate(outs):
        p = o.path
        fv.default_replay = make_replay("add_resource", h, [(None, resource), ("name", "NAME"), ("size", size), ("addr", addr), ("alignment", alignment)], o, ex, self_)
        if o.kind == "raise":
            fv.add("raises-only-ValueError-or-TypeError", f"path{k}", p.pc, z3.BoolVal(o.exc in ("ValueError", "TypeError")))
            fv.add("raise-leaves-state-unchanged", f"path{k}", p.pc, unchanged(ex, p, self_, h, view0))
            continue
        n_ret += 1
        start, stop = [ex.toint(x) for x in o.value]
        v = mm.view_of(p, self_)
        nxt = ex.getattr(self_, "_next_addr", p, None)[0][0]
        eff = z3.If(alignment.tag == T_NONE, h["al"], z3.If(alignment.ival >= h["al"], alignment.ival, h["al"]))
        eff_size = z3.If(size.ival > 1, size.ival, 1)
        pos = p.ghost.get("insert_pos")
        clauses = [
            ("frozen-map-refuses", z3.Not(h["frozen"])),
            ("resource-is-component", resource.tag == T_COMPONENT),
            ("not-added-twice", z3.Not(view0.isres[resource.ident])),
            ("explicit-addr-honoured", z3.Implies(addr.tag != T_NONE, start == addr.ival)),
            ("implicit-addr-first-aligned-after-cursor", z3.Implies(addr.tag == T_NONE, least_multiple_ge(start, h["next"], eff))),
            ("size-covers-request-rounded", least_multiple_ge(stop - start, eff_size, eff)),
            ("in-bounds", z3.And(0 <= start, start < stop, stop <= pow2(h["aw"]))),
            ("disjoint-from-existing", mm.no_overlap(view0, start, stop)),
            ("cursor-advanced-to-end", nxt == stop),
            ("recorded-in-ranges", mm.inserted(view0, v, pos, start, stop, z3.IntVal(1), resource.ident) if pos is not None else z3.BoolVal(False)),
            ("recorded-as-resource", z3.And(v.isres[resource.ident], v.rS[resource.ident] == start, v.rE[resource.ident] == stop)),
            ("others-unchanged", z3.ForAll([mm._i], z3.Implies(mm._i != resource.ident, z3.And(
                v.isres[mm._i] == view0.isres[mm._i], v.iswin[mm._i] == view0.iswin[mm._i],
                v.rS[mm._i] == view0.rS[mm._i], v.rE[mm._i] == view0.rE[mm._i],
                v.wS[mm._i] == view0.wS[mm._i], v.wE[mm._i] == view0.wE[mm._i], v.wT[mm._i] == view0.wT[mm._i])))),
            ("not-a-window", z3.Not(v.iswin[resource.ident]) if True else None),
            ("frozen-flag-untouched", ex.getattr(self_, "_frozen", p, None)[0][0] == h["frozen"]),
        ]
        for nm, f in clauses:
            fv.add(nm, f"path{k}", p.pc, f)
        for nm, f in mm.wf_map_parts(v, h["aw"], h["dw"], h["al"], nxt):
            fv.add("wf-preserved:" + nm, f"path{k}", p.pc, f)
    fv.add("cover:some-path-returns", "vacuity", [], z3.BoolVal(n_ret > 0))
    fv.add_engine_obligations(ex)
    return fv
