"""C03 contracts: resource lookup through windows (amaranth_soc/memory.py), discharged by pyvc.

Recursion over the tree of maps is handled the deductive way: the recursive call on a child is replaced by the SAME
contract stated for the child (measure: height of the tree below the map; trees only).  Child facts are carried by
uninterpreted functions of the child's identity:
    Dec(c, a)          id of the resource child c decodes address a to, DecNone(c, a) when none
    Has(c, r)          child c (recursively) contains resource r
    FS/FE/FW(c, r)     start / end / width that child c reports for resource r (find_resource)
and a yielded child ResourceInfo is an arbitrary record satisfying the child's `yield contract` Y(c, info).

Domain (as the property states): sparse and ratio-1 windows at any level; dense windows (ratio > 1) only over leaf maps
(`tree_domain`, a REQUIRES on the tree).  That every range of such a leaf is a multiple of the ratio is no longer assumed:
  * the second layer of the representation invariant (memory_model.wf_align_parts: ranges are multiples of 2**alignment of
    their map; a window's ratio divides 2**alignment of the window's map) is proved inductive in C02;
  * a leaf map promises its parent "start and size are multiples of 2**my_alignment, width == my data_width" (obligations
    `yield-contract:leaf-*` / `find-contract:leaf-*` below);
  * the parent combines both by a ground instance of the Lean lemma int_mod_trans (lemmas/Align.lean).
"""
import ast
import z3
from vf.pyvc.engine import (Exec, Path, Dyn, Rng, Tup, Opaque, NONE, Raised, SymObj, Spread, find_def, pow2, POW2_AXIOMS,
                            T_NONE, T_INT, Unsupported)
from vf.pyvc.driver import FnVerifier
from . import memory_model as mm
from .memory_c02 import fresh_self, unchanged, isinstance_hook

FILE = "amaranth_soc/memory.py"
AX = POW2_AXIOMS
I = z3.IntSort()
Dec = z3.Function("Dec", I, I, I)
DecNone = z3.Function("DecNone", I, I, z3.BoolSort())
Has = z3.Function("Has", I, I, z3.BoolSort())
FS, FE, FW = z3.Function("FS", I, I, I), z3.Function("FE", I, I, I), z3.Function("FW", I, I, I)
AWc, DWc, ALc = mm.AWc, mm.DWc, mm.ALc      # geometry of a child map by identity
Leaf = z3.Function("Leaf", I, z3.BoolSort())


class MaybeRef:
    """result of decode_address on a child: a resource identity or None"""
    def __init__(self, is_none, ident):
        self.is_none, self.ident = is_none, ident


class PathSym:
    """a ResourceInfo path: by ResourceInfo's own invariant (validated in its constructor) a NON-EMPTY tuple of names"""
    def __init__(self, name):
        self.name = name


class InfoV:
    """a ResourceInfo value"""
    def __init__(self, resource, path, start, end, width):
        self.resource, self.path, self.start, self.end, self.width = resource, path, start, end, width


def info_obj(iv, name="info"):
    o = SymObj("ResourceInfo", f"{name}{next(SymObj._count)}")
    o.init_fields.update({"_resource": iv.resource, "_path": iv.path, "_start": iv.start, "_end": iv.end, "_width": iv.width})
    return o


def c_resource_info(ex, recv, args, kwargs, q, node):
    """contract of ResourceInfo(resource, path, start, end, width) (proved in verify_resource_info_init): the validation
    never fires when path is a non-empty tuple and 0 <= start < end, width >= 0 are ints; fields are stored."""
    resource, path, start, end, width = args
    nonempty = isinstance(path, PathSym) or (isinstance(path, tuple) and len(path) > 0 and
                                             any(not isinstance(x, Spread) or isinstance(x.value, PathSym) for x in path))
    ex.oblige("pre:ResourceInfo:path-nonempty-tuple", q, z3.BoolVal(bool(nonempty)), node)
    s, e, w = ex.toint(start, node), ex.toint(end, node), ex.toint(width, node)
    ex.oblige("pre:ResourceInfo:start>=0", q, s >= 0, node)
    ex.oblige("pre:ResourceInfo:end>start", q, e > s, node)
    ex.oblige("pre:ResourceInfo:width>=0", q, w >= 0, node)
    return [(info_obj(InfoV(resource, path, s, e, w)), q)]


def translate_pre(s, e, w, rho, wdw):
    return [("size-multiple-of-ratio", (e - s) % rho == 0), ("start-multiple-of-ratio", s % rho == 0),
            ("dense-only-at-full-width", z3.Or(rho == 1, w == wdw))]


def c_translate(ex, recv, args, kwargs, q, node):
    """contract of MemoryMap._translate(resource_info, window, window_name, window_range) (proved in verify_translate)"""
    info, window, wname, wrange = args
    gi = lambda f: ex.getattr(info, f, q, node)[0][0]
    s, e, w = ex.toint(gi("_start")), ex.toint(gi("_end")), ex.toint(gi("_width"))
    wdw = ex.toint(ex.getattr(window, "data_width", q, node)[0][0]) if isinstance(window, SymObj) else DWc(window.ident)
    for nm, f in translate_pre(s, e, w, wrange.step, wdw):
        ex.oblige("pre:_translate:" + nm, q, f, node)
    ex.oblige("pre:_translate:ratio>=1", q, wrange.step >= 1, node)
    start = z3.FreshInt("tr_start"); end = z3.FreshInt("tr_end")
    q.assume(z3.And(start == wrange.start + s / wrange.step, end == start + (e - s) / wrange.step))
    if wname is NONE:
        path = gi("_path")
    elif isinstance(wname, (mm.NameOf, Opaque)):
        path = Tup((wname, Spread(gi("_path"))))
    else:
        raise Unsupported("window name of unknown None-ness at _translate call site")
    return [(info_obj(InfoV(gi("_resource"), path, start, end, w * wrange.step)), q)]


def base_exec():
    ex = Exec(FILE, "MemoryMap", axioms=AX)
    ex.class_files = {"ResourceInfo": FILE, "MemoryMap": FILE}
    ex.contracts["ResourceInfo"] = c_resource_info
    ex.contracts["self._translate"] = c_translate
    ex.isinstance_hook = isinstance_hook
    return ex


def translation_lemma(fv, label, pre, b, s, e, rho, a):
    """(b + s/rho <= a < b + e/rho)  <=>  (s <= (a-b)*rho < e)   for rho >= 1, rho | s, rho | (e-s).
    z3 cannot do this in one step (div/mod by a symbolic divisor); it is split into cut lemmas, each an obligation, and the
    last step only uses conclusions of earlier ones (cut rule).  The same statement is proved once and for all in Lean
    (lemmas/Window.lean: dense_window_translation)."""
    sq, dq = s / rho, (e - s) / rho
    c1 = z3.And(s == rho * sq, (e - s) == rho * dq)
    fv.add("lemma:divisible-means-exact-quotient", label, pre, c1)
    x, y = z3.Ints("lx ly")
    c2 = e / rho == sq + dq
    fv.add("lemma:quotient-of-sum", label, pre + [c1], c2)
    ps, pe = z3.Ints("ps pe")          # polynomial core with the quotients as plain variables
    core = z3.Implies(z3.And(rho >= 1, s == rho * ps, e == rho * pe),
                      z3.And(b + ps <= a, a < b + pe) == z3.And(s <= (a - b) * rho, (a - b) * rho < e))
    fv.add("lemma:polynomial-core", label, [], core)
    inst = z3.substitute(core, (ps, sq), (pe, e / rho))
    claim = z3.And(b + s / rho <= a, a < b + e / rho) == z3.And(s <= (a - b) * rho, (a - b) * rho < e)
    fv.add("lemma:translated-range-contains-a-iff-child-range-contains-(a-b)*ratio", label, pre + [c1, c2, inst], claim)
    return claim


# ---- ResourceInfo.__init__ ---------------------------------------------------------------------------------
def verify_resource_info_init():
    fv = FnVerifier("ResourceInfo.__init__", AX)
    fn = find_def(FILE, "ResourceInfo.__init__")
    ex = Exec(FILE, "ResourceInfo", axioms=AX)
    n_ret = 0
    for shape in ("nonempty-tuple", "empty-tuple", "not-a-tuple"):
        q = Path()
        self_ = SymObj("ResourceInfo", "self")
        start, end, width = Dyn("start"), Dyn("end"), Dyn("width")
        q.assume(z3.And(start.wf(), end.wf(), width.wf()))
        path = {"nonempty-tuple": Tup((Opaque("name0"), Spread(Opaque("rest")))), "empty-tuple": Tup(()), "not-a-tuple": Opaque("path")}[shape]
        q.env.update({"self": self_, "resource": mm.Ref(z3.Int("res_id")), "path": path, "start": start, "end": end, "width": width})
        ex.isinstance_hook = lambda v, ty, node: z3.BoolVal(False) if isinstance(v, Opaque) and ty == "tuple" else None
        outs = ex.run(fn, q)
        fv.paths += len(outs)
        valid = z3.And(z3.BoolVal(shape == "nonempty-tuple"), start.tag == T_INT, start.ival >= 0, end.tag == T_INT,
                       end.ival > start.ival, width.tag == T_INT, width.ival >= 0)
        for k, o in enumerate(outs):
            p = o.path
            lab = f"{shape}:path{k}"
            if o.kind == "raise":
                fv.add("raises-only-TypeError", lab, p.pc, z3.BoolVal(o.exc == "TypeError"))
                fv.add("raises-only-for-invalid-arguments", lab, p.pc, z3.Not(valid))
            else:
                n_ret += 1
                g = lambda f: p.heap.get((id(self_), f))
                fv.add("accepts-only-valid-arguments", lab, p.pc, valid)
                fv.add("fields-stored", lab, p.pc, z3.And(ex.toint(g("_start")) == start.ival, ex.toint(g("_end")) == end.ival,
                                                           ex.toint(g("_width")) == width.ival,
                                                           z3.BoolVal(isinstance(g("_resource"), mm.Ref))))
        fv.add_engine_obligations(ex); ex.obligations = []
    fv.add("cover:some-path-returns", "vacuity", [], z3.BoolVal(n_ret > 0))
    return fv


# ---- _translate ----------------------------------------------------------------------------------------------
def verify_translate():
    fv = FnVerifier("MemoryMap._translate", AX)
    fn = find_def(FILE, "MemoryMap._translate")
    for named in (True, False):
        ex = base_exec()
        q = Path()
        s, e, w, b, stop, rho, wdw = z3.Ints("s e w b wstop rho wdw")
        child_path = PathSym("child_path")
        info = info_obj(InfoV(mm.Ref(z3.Int("res_id")), child_path, s, e, w))
        window = SymObj("MemoryMap", "window"); window.init_fields["_data_width"] = wdw
        wname = Opaque("window_name") if named else NONE
        # requires: what all_resources()/find_resource() establish (see their obligations pre:_translate:*)
        q.assume(z3.And(rho >= 1, s >= 0, e > s, w >= 0, b >= 0, *[f for _, f in translate_pre(s, e, w, rho, wdw)]))
        q.env.update({"resource_info": info, "window": window, "window_name": wname, "window_range": Rng(b, stop, rho)})
        outs = ex.run(fn, q)
        fv.paths += len(outs)
        for k, o in enumerate(outs):
            p = o.path
            lab = f"{'named' if named else 'anonymous'}:path{k}"
            fv.default_replay = _translate_replay(ex, o, named, (s, e, w, b, stop, rho, wdw))
            fv.add("no-exception", lab, p.pc, z3.BoolVal(o.kind == "return"))
            if o.kind != "return":
                continue
            r = o.value
            g = lambda f: ex.getattr(r, f, p, None)[0][0]
            fv.add("start-is-base-plus-start-over-ratio", lab, p.pc, ex.toint(g("_start")) == b + s / rho)
            fv.add("end-is-base-plus-end-over-ratio", lab, p.pc, ex.toint(g("_end")) == b + e / rho)
            fv.add("width-multiplied-by-ratio", lab, p.pc, ex.toint(g("_width")) == w * rho)
            fv.add("same-resource", lab, p.pc, z3.BoolVal(g("_resource") is info.init_fields["_resource"]))
            pth = g("_path")
            if named:
                ok = isinstance(pth, tuple) and len(pth) == 2 and pth[0] is wname and isinstance(pth[1], Spread) and pth[1].value is child_path
            else:
                ok = pth is child_path
            fv.add("window-name-prefixed-anonymous-adds-nothing", lab, p.pc, z3.BoolVal(bool(ok)))
        # the arithmetic heart: membership in the translated range <=> membership of the child address in the child range
        a = z3.Int("a")
        translation_lemma(fv, "named" if named else "anonymous", list(q.pc), b, s, e, rho, a)
        s2, e2 = z3.Ints("s2 e2")
        fv.add("lemma:translation-preserves-order-and-disjointness", "named" if named else "anonymous",
               list(q.pc) + [e <= s2, s2 < e2, s2 % rho == 0, (e2 - s2) % rho == 0],
               z3.And(b + e / rho <= b + s2 / rho, b + s2 / rho < b + e2 / rho))
        fv.add_engine_obligations(ex)
    return fv


def _translate_replay(ex, outcome, named, params):
    from .memory_replay import ev

    def replay(model):
        from amaranth_soc.memory import MemoryMap, ResourceInfo
        s, e, w, b, stop, rho, wdw = [ev(model, t) for t in params]
        res = object()
        info = ResourceInfo(res, ("leaf",), s, e, w)
        window = MemoryMap(addr_width=8, data_width=max(wdw, 1))
        got = {}
        try:
            r = MemoryMap._translate(info, window, MemoryMap.Name("win") if named else None, range(b, max(stop, b + 1), rho))
            got = {"kind": "return", "start": r.start, "end": r.end, "width": r.width, "path": [tuple(n) for n in r.path],
                   "same_resource": r.resource is res}
        except Exception as ex_:
            got = {"kind": "raise", "exc": type(ex_).__name__, "msg": str(ex_)[:100]}
        pred = {"kind": outcome.kind}
        if outcome.kind == "return":
            g = lambda f: ex.getattr(outcome.value, f, outcome.path, None)[0][0]
            pred.update({"start": ev(model, ex.toint(g("_start"))), "end": ev(model, ex.toint(g("_end"))), "width": ev(model, ex.toint(g("_width")))})
        else:
            pred["exc"] = outcome.exc
        agree = got["kind"] == pred["kind"] and all(got.get(k) == pred.get(k) for k in ("start", "end", "width", "exc") if k in pred)
        spec = {"start": b + s // rho, "end": b + e // rho, "width": w * rho, "path": [("win",), ("leaf",)] if named else [("leaf",)]}
        return agree, {"confirmed": agree, "how": "real MemoryMap._translate called with the counter-model's values; outcome compared "
                       "with the engine's prediction for this path", "arguments": {"start": s, "end": e, "width": w, "base": b,
                       "ratio": rho, "window_data_width": wdw, "named_window": named}, "real_outcome": got,
                       "engine_prediction": pred, "property_says": spec}
    return replay


# ---- decode_address ------------------------------------------------------------------------------------------
def c_child_decode(ex, recv, args, kwargs, q, node):
    """the function's own contract, on a child (recursive call): any integer address; result is Dec(child, a) or None"""
    a = ex.toint(args[0], node)
    return [(MaybeRef(DecNone(recv.ident, a), Dec(recv.ident, a)), q)]


def verify_decode_address():
    fv = FnVerifier("MemoryMap.decode_address", AX)
    fn = find_def(FILE, "MemoryMap.decode_address")
    ex = base_exec()
    ex.contracts["assignment.decode_address"] = c_child_decode
    q = Path()
    self_, h = fresh_self(q)
    v = h["view"]
    a = z3.Int("address")
    q.env.update({"self": self_, "address": a})
    fv.scope_hints = [v.n == 0, v.n == 1]
    outs = ex.run(fn, q)
    fv.paths = len(outs)
    i = z3.Int("di")
    inside = lambda k: z3.And(0 <= k, k < v.n, v.S[k] <= a, a < v.E[k])
    for k, o in enumerate(outs):
        p = o.path
        fv.add("no-exception", f"path{k}", p.pc, z3.BoolVal(o.kind == "return"))
        if o.kind != "return":
            continue
        r = o.value
        fv.add("modifies-nothing", f"path{k}", p.pc, unchanged(ex, p, self_, h, v))
        if r is NONE:
            fv.add("none-only-outside-every-range", f"path{k}", p.pc, z3.ForAll([i], z3.Not(inside(i))))
        elif isinstance(r, mm.Ref):
            fv.add("own-resource-iff-address-in-its-range", f"path{k}", p.pc,
                   z3.Exists([i], z3.And(inside(i), v.isres[v.V[i]], v.V[i] == r.ident)))
        elif isinstance(r, MaybeRef):
            fv.add("through-window-decodes-child-at-(a-base)*ratio", f"path{k}", p.pc,
                   z3.Exists([i], z3.And(inside(i), v.iswin[v.V[i]],
                                         r.is_none == DecNone(v.V[i], (a - v.S[i]) * v.T[i]),
                                         r.ident == Dec(v.V[i], (a - v.S[i]) * v.T[i]))))
        else:
            fv.add("result-shape", f"path{k}", p.pc, z3.BoolVal(False))
    fv.add_engine_obligations(ex)
    return fv


# ---- all_resources ---------------------------------------------------------------------------------------------
def child_yield_contract(c, rho, ci):
    """Y(c, info): what the (same) contract promises about every ResourceInfo a child map c yields / finds (proved for `self`
    in verify_all_resources / verify_find_resource: `yield-contract:*`, `find-contract:*`), plus the tree's domain
    restriction (dense windows only over leaf maps) and the ground lemma instances that turn "multiple of 2**alignment of
    the child" and "ratio divides 2**alignment of the child" (window geometry, second invariant layer) into "multiple of
    the ratio"."""
    a = ALc(c)
    return z3.And(0 <= ci.start, ci.start < ci.end, ci.end <= pow2(AWc(c)), ci.width >= 0,
                  z3.Implies(Leaf(c), z3.And(ci.width == DWc(c), mm.Al(ci.start, a), mm.Al(ci.end - ci.start, a))),
                  z3.Implies(rho > 1, Leaf(c)),                                   # tree_domain (requires)
                  mm.lemma_dvd_trans(ci.start, a, rho), mm.lemma_dvd_trans(ci.end - ci.start, a, rho))


def leaf_definition(ident, v):
    """Leaf(m) is DEFINED as: m has no windows"""
    w = z3.Int("lw")
    return Leaf(ident) == z3.ForAll([w], z3.Not(v.iswin[w]))


def loop_all_resources(ex, st_node, path):
    """for addr_range, assignment in self._ranges.items(): one arbitrary iteration k (the loop carries no state)"""
    out = []
    for src, q in ex.eval(st_node.iter, path):
        owner = src[1]
        v = mm.view_of(q, owner)
        k = z3.FreshInt("iter_idx")
        body = q.fork()
        body.assume(z3.And(0 <= k, k < v.n))
        body.ghost["iter_idx"] = k
        if "wf_align_at" in body.ghost:
            body.assume(body.ghost["wf_align_at"](k))
        item = Tup((Rng(v.S[k], v.E[k], v.T[k]), mm.Ref(v.V[k], cls="MemoryMapChild")))
        for kind, _, q2 in ex.assign(st_node.target, item, body, st_node):
            for kind2, val2, q3 in ex.block(st_node.body, q2):
                if kind2 == "raise":
                    out.append((kind2, val2, q3))
        out.append(("fall", None, q))
    return out


def loop_child_infos(ex, st_node, path):
    """for resource_info in assignment.all_resources(): one arbitrary child ResourceInfo satisfying the child's contract"""
    out = []
    k = path.ghost["iter_idx"]
    self_ = path.env["self"]
    v = mm.view_of(path, self_)
    c = v.V[k]
    body = path.fork()
    cs, ce, cw = z3.FreshInt("ci_start"), z3.FreshInt("ci_end"), z3.FreshInt("ci_width")
    ci = InfoV(mm.Ref(z3.FreshInt("ci_res")), PathSym("child_path"), cs, ce, cw)
    body.assume(child_yield_contract(c, v.T[k], ci))
    # window geometry: the instance at k of the second invariant layer (in the pre-state, see verify_all_resources), with
    # the definition of fdiv unfolded at this window
    body.assume(mm.def_fdiv(pow2(AWc(c)), v.T[k]))
    body.ghost["child_info"] = ci
    body.env = dict(body.env); body.env[st_node.target.id] = info_obj(ci, "child_info")
    for kind2, val2, q3 in ex.block(st_node.body, body):
        if kind2 == "raise":
            out.append((kind2, val2, q3))
    out.append(("fall", None, path))
    return out


def c_child_all_resources(ex, recv, args, kwargs, q, node):
    return [(("child_infos", recv), q)]


def verify_all_resources(qualname="MemoryMap.all_resources", pre_hook=None, yield_hook=None, only_hook=False):
    """pre_hook(q, self_, h, named) may add premises (further invariant layers); yield_hook(fv, lab, p, path_value, idx, ci,
    named, self_, h) may add clauses per yield (used by contracts/naming.py for the origin-of-names layer)"""
    fv = FnVerifier(qualname, AX)
    fn = find_def(FILE, "MemoryMap.all_resources")
    n_y = 0
    for named in (True, False):
        ex = base_exec()
        ex.loop_invariants[0] = loop_all_resources
        ex.loop_invariants[1] = loop_child_infos
        ex.contracts["assignment.all_resources"] = c_child_all_resources
        q = Path()
        self_, h = fresh_self(q)
        v = h["view"]
        q.env["self"] = self_
        # second layer of the representation invariant (proved inductive in C02): used through its instance at the
        # iteration index (loop_all_resources)
        q.ghost["wf_align_at"] = h["wf_align_at"]
        q.assume(leaf_definition(self_.ref, v))
        if pre_hook is not None:
            pre_hook(q, self_, h, named)
        # the name stored with a window is either None (anonymous) or a Name: two cases
        mm.IdDictModel.window_name_case = named
        outs = ex.run(fn, q)
        fv.paths += len(outs)
        for k, o in enumerate(outs):
            fv.add("no-exception", f"{named}:path{k}", o.path.pc, z3.BoolVal(o.kind == "return"))
        for k, (val, p) in enumerate(ex.yields):
            n_y += 1
            idx = p.ghost["iter_idx"]
            lab = f"{'named' if named else 'anonymous'}:yield{k}"
            g = lambda f: ex.getattr(val, f, p, None)[0][0]
            st, en, wd = ex.toint(g("_start")), ex.toint(g("_end")), ex.toint(g("_width"))
            ci = p.ghost.get("child_info")
            if yield_hook is not None:
                yield_hook(fv, lab, p, g("_path"), idx, ci, named, self_, h)
                if only_hook:
                    continue
            if ci is None:
                fv.add("own-resource-reported-at-its-range", lab, p.pc,
                       z3.And(v.isres[v.V[idx]], g("_resource").ident == v.V[idx], st == v.S[idx], en == v.E[idx], wd == h["dw"]))
                pth = g("_path")
                fv.add("own-resource-path-is-its-name", lab, p.pc,
                       z3.BoolVal(isinstance(pth, tuple) and len(pth) == 1 and isinstance(pth[0], mm.NameOf)) if True else None)
            else:
                rho, base = v.T[idx], v.S[idx]
                fv.add("window-resource-translated", lab, p.pc,
                       z3.And(v.iswin[v.V[idx]], st == base + ci.start / rho, en == base + ci.end / rho, wd == ci.width * rho,
                              z3.BoolVal(g("_resource") is ci.resource)))
                fv.add("window-resource-inside-the-window-range", lab, p.pc, z3.And(v.S[idx] <= st, st < en, en <= v.E[idx]))
                pth = g("_path")
                if named:
                    ok = isinstance(pth, tuple) and len(pth) == 2 and isinstance(pth[0], mm.NameOf) and isinstance(pth[1], Spread)
                else:
                    ok = pth is ci.path
                fv.add("window-name-prefixed-anonymous-adds-nothing", lab, p.pc, z3.BoolVal(bool(ok)))
            # what this map promises to ITS parent (the same yield contract, for ratio 1 / sparse parents)
            fv.add("yield-contract:in-own-address-space", lab, p.pc, z3.And(0 <= st, st < en, en <= pow2(h["aw"]), wd >= 0))
            fv.add("yield-contract:leaf-yields-own-width-aligned-to-own-alignment", lab, p.pc,
                   z3.Implies(Leaf(self_.ref), z3.And(wd == h["dw"], mm.Al(st, h["al"]), mm.Al(en - st, h["al"]))))
        if not only_hook:
            fv.add_engine_obligations(ex)
    mm.IdDictModel.window_name_case = None
    fv.add("cover:yields", "vacuity", [], z3.BoolVal(n_y >= 2))
    return fv


# ---- find_resource -------------------------------------------------------------------------------------------------
def c_child_find(ex, recv, args, kwargs, q, node):
    """the function's own contract on a child: returns the child's ResourceInfo for the resource, or raises KeyError
    exactly when the child does not contain it"""
    r = args[0]
    rid = mm.ident_of(r)
    c = recv.ident
    ok = q.fork(); ko = q
    ok.assume(Has(c, rid))
    ko.assume(z3.Not(Has(c, rid)))
    out = []
    if ex.feasible(ok.pc):
        rho = ok.ghost.get("win_rho")
        ci = InfoV(r, PathSym("child_path"), FS(c, rid), FE(c, rid), FW(c, rid))
        if rho is not None:
            ok.assume(child_yield_contract(c, rho, ci))
        ok.ghost["child_info"] = ci
        out.append((info_obj(ci, "child_found"), ok))
    if ex.feasible(ko.pc):
        out.append((Raised("KeyError"), ko))
    return out


def loop_find_windows(ex, st_node, path):
    """for window, window_name, window_range in self._windows.values(): first-match search.
    Invariant: no window visited so far contains the resource.  One arbitrary iteration is executed; an iteration that
    does not return must have seen KeyError, i.e. not Has(window, resource) by the child contract (obligation
    `loop-invariant-preserved`); on exhaustion every window has been visited (dict.values(): assumed stdlib)."""
    out = []
    self_ = path.env["self"]
    v = mm.view_of(path, self_)
    rid = mm.ident_of(path.env["resource"])
    w = z3.FreshInt("win_id")
    body = path.fork()
    body.assume(v.iswin[w])
    body.assume(mm.def_fdiv(pow2(AWc(w)), v.wT[w]))
    body.assume(path.ghost["wf_align_at"](v.idx[w]))    # registered-has-range: the window's entry sits at index idx[w]
    name = mm.NameOf(self_, w) if mm.IdDictModel.window_name_case else NONE
    rng = Rng(v.wS[w], v.wE[w], v.wT[w])
    body.ghost["win_id"] = w; body.ghost["win_rho"] = v.wT[w]
    item = Tup((mm.Ref(w, cls="MemoryMapChild"), name, rng))
    for kind, _, q2 in ex.assign(st_node.target, item, body, st_node):
        for kind2, val2, q3 in ex.block(st_node.body, q2):
            if kind2 == "fall":
                ex.oblige("loop-invariant-preserved:window-without-the-resource", q3, z3.Not(Has(w, rid)), st_node)
            else:
                out.append((kind2, val2, q3))
    done = path
    i = z3.Int("fw")
    done.assume(z3.ForAll([i], z3.Implies(v.iswin[i], z3.Not(Has(i, rid)))))
    done.ghost["exhausted"] = True
    out.append(("fall", None, done))
    return out


def verify_find_resource():
    fv = FnVerifier("MemoryMap.find_resource", AX)
    fn = find_def(FILE, "MemoryMap.find_resource")
    n_ret = 0
    for named in (True, False):
        ex = base_exec()
        ex.loop_invariants[0] = loop_find_windows
        ex.contracts["window.find_resource"] = c_child_find
        mm.IdDictModel.window_name_case = named
        q = Path()
        self_, h = fresh_self(q)
        v = h["view"]
        resource = Dyn("resource")      # any object, including ones never added
        q.assume(resource.wf())
        # second layer of the representation invariant (proved inductive in C02), through its instances at the index of
        # the resource's own entry (here) and of the visited window's entry (loop_find_windows)
        q.ghost["wf_align_at"] = h["wf_align_at"]
        q.assume(h["wf_align_at"](v.idx[resource.ident]))
        q.assume(leaf_definition(self_.ref, v))
        q.env.update({"self": self_, "resource": resource})
        fv.scope_hints = [v.n == 0, v.n == 1]
        outs = ex.run(fn, q)
        fv.paths += len(outs)
        rid = resource.ident
        wq = z3.Int("wq")
        for k, o in enumerate(outs):
            p = o.path
            lab = f"{'named' if named else 'anonymous'}:path{k}"
            fv.add("modifies-nothing", lab, p.pc, unchanged(ex, p, self_, h, v))
            if o.kind == "raise":
                fv.add("raises-only-KeyError", lab, p.pc, z3.BoolVal(o.exc == "KeyError"))
                fv.add("KeyError-only-when-neither-own-nor-behind-a-window", lab, p.pc,
                       z3.And(z3.Not(v.isres[rid]), z3.ForAll([wq], z3.Implies(v.iswin[wq], z3.Not(Has(wq, rid))))))
                continue
            n_ret += 1
            r = o.value
            g = lambda f: ex.getattr(r, f, p, None)[0][0]
            st, en, wd = ex.toint(g("_start")), ex.toint(g("_end")), ex.toint(g("_width"))
            ci = p.ghost.get("child_info")
            fv.add("find-contract:in-own-address-space", lab, p.pc, z3.And(0 <= st, st < en, en <= pow2(h["aw"]), wd >= 0))
            fv.add("find-contract:leaf-result-own-width-aligned-to-own-alignment", lab, p.pc,
                   z3.Implies(Leaf(self_.ref), z3.And(wd == h["dw"], mm.Al(st, h["al"]), mm.Al(en - st, h["al"]))))
            if ci is None:
                fv.add("own-resource-found-at-its-recorded-range", lab, p.pc,
                       z3.And(v.isres[rid], st == v.rS[rid], en == v.rE[rid], wd == h["dw"], g("_resource").ident == rid if hasattr(g("_resource"), "ident") else z3.BoolVal(False)))
            else:
                w = p.ghost["win_id"]
                fv.add("found-behind-a-window-translated", lab, p.pc,
                       z3.And(v.iswin[w], Has(w, rid), st == v.wS[w] + FS(w, rid) / v.wT[w], en == v.wS[w] + FE(w, rid) / v.wT[w],
                              wd == FW(w, rid) * v.wT[w]))
        fv.add_engine_obligations(ex)
    mm.IdDictModel.window_name_case = None
    fv.add("cover:some-path-returns", "vacuity", [], z3.BoolVal(n_ret >= 2))
    return fv


# ---- coherence (induction step over one level) ---------------------------------------------------------------------------
def verify_coherence():
    """If a child's decode_address / find_resource / all_resources agree with each other (induction hypothesis), so do
    the parent's for everything behind that child's window.  Pure arithmetic over the contracts above."""
    fv = FnVerifier("MemoryMap.lookup-coherence", AX)
    b, rho, s, e, a = z3.Ints("b rho s e a")
    pre = [rho >= 1, b >= 0, 0 <= s, s < e, s % rho == 0, (e - s) % rho == 0]
    child_addr = (a - b) * rho
    lemma = translation_lemma(fv, "window", pre, b, s, e, rho, a)
    # child hypothesis: Dec(c, x) = r exactly for x in r's child range [s, e)  =>  parent decodes a to r exactly for a in tr(range)
    c, r = z3.Ints("c r")
    x = z3.Int("x")
    hyp = z3.ForAll([x], z3.And(z3.Not(DecNone(c, x)), Dec(c, x) == r) == z3.And(s <= x, x < e))
    fv.add("parent-decodes-to-r-exactly-on-the-translated-range", "window", pre + [hyp, lemma],
           z3.And(z3.Not(DecNone(c, child_addr)), Dec(c, child_addr) == r) == z3.And(b + s / rho <= a, a < b + e / rho))
    return fv


ALL = [verify_resource_info_init, verify_translate, verify_decode_address, verify_all_resources, verify_find_resource,
       verify_coherence]
