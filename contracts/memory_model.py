"""Abstract state models and callee contracts for amaranth_soc/memory.py (used by pyvc).

Abstract view of a MemoryMap `m` (ghost state, per path):
    n            number of ranges
    S,E,T,V      arrays Int->Int: start, stop, step and value identity (id(obj)) of the i-th range, ascending
    isres,iswin  arrays Int->Bool over object identities: membership in m._resources / m._windows
    rS,rE        arrays id -> start/stop recorded in _resources[id];  wS,wE,wT likewise for _windows[id]
Representation invariant wf_map (global form: z3 proves it inductive without induction):
    n >= 0;  S[i] < E[i];  i<j => E[i] <= S[j];  0 <= S[i], E[i] <= 2**aw;  T[i] >= 1
    every V[i] is in exactly one of resources/windows, and the dict entry records the same range
    distinct entries have distinct values;  next_addr >= 0;  aw > 0, dw > 0, al >= 0
"""
import z3
from vf.pyvc.engine import (SymObj, Rng, Tup, Opaque, AbsSeq, Dyn, NONE, Raised, pow2, T_NONE, T_INT, T_COMPONENT,
                            Unsupported)

IntArr = z3.ArraySort(z3.IntSort(), z3.IntSort())
BoolArr = z3.ArraySort(z3.IntSort(), z3.BoolSort())
_i, _j = z3.Ints("i_q j_q")


# geometry of a map known only by identity (a child behind a window)
AWc = z3.Function("AWc", z3.IntSort(), z3.IntSort())
DWc = z3.Function("DWc", z3.IntSort(), z3.IntSort())
ALc = z3.Function("ALc", z3.IntSort(), z3.IntSort())


class Ref:
    """A reference to some object known only by identity (e.g. the value stored in a range)."""
    def __init__(self, ident, cls=None):
        self.ident, self.cls = ident, cls

    def getattr_sym(self, attr):
        return {"addr_width": AWc, "data_width": DWc, "alignment": ALc}.get(attr, lambda i: None)(self.ident)


class MapView:
    """Bundle of ghost terms describing one MemoryMap's abstract state."""
    FIELDS = ("n", "S", "E", "T", "V", "isres", "iswin", "rS", "rE", "wS", "wE", "wT", "idx")

    def __init__(self, tag):
        self.n = z3.Int(f"n{tag}")
        for f in ("S", "E", "T", "V", "rS", "rE", "wS", "wE", "wT", "idx"):
            setattr(self, f, z3.Const(f"{f}{tag}", IntArr))
        self.isres = z3.Const(f"isres{tag}", BoolArr)
        self.iswin = z3.Const(f"iswin{tag}", BoolArr)

    def copy(self):
        c = MapView.__new__(MapView)
        for f in self.FIELDS:
            setattr(c, f, getattr(self, f))
        return c


def wf_ranges(v):
    return z3.And(
        v.n >= 0,
        z3.ForAll([_i], z3.Implies(z3.And(0 <= _i, _i < v.n), z3.And(v.S[_i] < v.E[_i], v.T[_i] >= 1))),
        z3.ForAll([_i, _j], z3.Implies(z3.And(0 <= _i, _i < _j, _j < v.n), v.E[_i] <= v.S[_j])))


def wf_map_parts(v, aw, dw, al, next_addr):
    """named conjuncts of the representation invariant (proved one by one: smaller queries are stabler)"""
    inr = z3.And(0 <= _i, _i < v.n)
    return [
        ("scalars", z3.And(v.n >= 0, aw > 0, dw > 0, al >= 0, next_addr >= 0)),
        ("nonempty-ranges", z3.ForAll([_i], z3.Implies(inr, z3.And(v.S[_i] < v.E[_i], v.T[_i] >= 1)))),
        ("sorted-disjoint", z3.ForAll([_i, _j], z3.Implies(z3.And(0 <= _i, _i < _j, _j < v.n), v.E[_i] <= v.S[_j]))),
        ("in-bounds", z3.ForAll([_i], z3.Implies(inr, z3.And(v.S[_i] >= 0, v.E[_i] <= pow2(aw))))),
        ("resource-xor-window", z3.ForAll([_i], z3.Implies(inr, v.isres[v.V[_i]] != v.iswin[v.V[_i]]))),
        ("resource-entry-agrees", z3.ForAll([_i], z3.Implies(z3.And(inr, v.isres[v.V[_i]]),
                                                            z3.And(v.rS[v.V[_i]] == v.S[_i], v.rE[v.V[_i]] == v.E[_i], v.T[_i] == 1)))),
        ("window-entry-agrees", z3.ForAll([_i], z3.Implies(z3.And(inr, v.iswin[v.V[_i]]),
                                                          z3.And(v.wS[v.V[_i]] == v.S[_i], v.wE[v.V[_i]] == v.E[_i], v.wT[v.V[_i]] == v.T[_i])))),
        ("distinct-values", z3.ForAll([_i, _j], z3.Implies(z3.And(0 <= _i, _i < _j, _j < v.n), v.V[_i] != v.V[_j]))),
        # every registered identity has its range in the map (index function given as a ghost array: no nested exists)
        ("registered-has-range", z3.ForAll([_i], z3.Implies(z3.Or(v.isres[_i], v.iswin[_i]),
                                                           z3.And(0 <= v.idx[_i], v.idx[_i] < v.n, v.V[v.idx[_i]] == _i)))),
    ]


# ---- second layer of the representation invariant: alignment rule and window geometry -------------------------------
# Stated over three DEFINED symbols so that the quantified part stays in uninterpreted functions + linear arithmetic (z3 diverges
# on `mod`/`div` by symbolic terms under quantifiers, DESIGN.md 8.3 item 4).  Their definitions are unfolded only at ground terms:
#     Al(x, a)   :=  x % 2**a == 0            x is a multiple of 2**a
#     Dv(t, a)   :=  2**a % t == 0            t divides 2**a
#     fdiv(x, y) :=  x // y                   (y >= 1)
Al = z3.Function("AlignedTo", z3.IntSort(), z3.IntSort(), z3.BoolSort())
Dv = z3.Function("DividesPow2", z3.IntSort(), z3.IntSort(), z3.BoolSort())
fdiv = z3.Function("fdiv", z3.IntSort(), z3.IntSort(), z3.IntSort())


def def_Al(x, a):
    return Al(x, a) == (x % pow2(a) == 0)


def def_Dv(t, a):
    return Dv(t, a) == (pow2(a) % t == 0)


def def_fdiv(x, y):
    return fdiv(x, y) == x / y


def window_geometry(s, e, t, c):
    return z3.And(AWc(c) > 0, DWc(c) > 0, ALc(c) >= 0, t >= 1, Dv(t, ALc(c)), e - s >= fdiv(pow2(AWc(c)), t))


def wf_align_parts(v, al):
    """  aligned-ranges    every range starts at, and has a size that is, a multiple of 2**alignment of the map
      window-geometry   a window entry's ratio T is >= 1 and divides 2**alignment of the WINDOW's map (add_window refuses a
                        ratio that is not a power of two or exceeds it), and the entry spans at least the window's own
                        address space divided by T
    proved inductive separately from the first layer (so that the first layer's obligations stay as they were); the
    divisibility steps z3 cannot do are GROUND INSTANCES of lemmas proved in Lean (lemmas/Align.lean): lemma_* below."""
    inr = z3.And(0 <= _i, _i < v.n)
    return [
        ("aligned-ranges", z3.ForAll([_i], z3.Implies(inr, z3.And(Al(v.S[_i], al), Al(v.E[_i] - v.S[_i], al))))),
        ("window-geometry", z3.ForAll([_i], z3.Implies(z3.And(inr, v.iswin[v.V[_i]]),
                                                      window_geometry(v.S[_i], v.E[_i], v.T[_i], v.V[_i])))),
    ]


def wf_align_instance(v, al, k):
    """the second layer instantiated at index k (a consequence of wf_align; used where the quantified form would only feed
    the solver's E-matching with power-of-two terms)"""
    return z3.Implies(z3.And(0 <= k, k < v.n),
                      z3.And(Al(v.S[k], al), Al(v.E[k] - v.S[k], al),
                             z3.Implies(v.iswin[v.V[k]], window_geometry(v.S[k], v.E[k], v.T[k], v.V[k]))))


def wf_align(v, al):
    return z3.And(*[f for _, f in wf_align_parts(v, al)])


def geometry_link(ident, aw, dw, al):
    """AWc/DWc/ALc are DEFINED as the (immutable: read-only properties set once in __init__) geometry of the map with that identity"""
    return z3.And(AWc(ident) == aw, DWc(ident) == dw, ALc(ident) == al)


# ---- ground instances of Lean-proved lemmas (lemmas/Align.lean), through the definitions above -------------------------
LEMMA_INSTANCES = []      # log for the evidence file


def lemma_aligned_coarser(x, e, al):
    """Align.lean int_aligned_coarser:  0 <= al <= e  and  x % 2**e == 0   ->   x % 2**al == 0"""
    LEMMA_INSTANCES.append("int_aligned_coarser")
    return z3.Implies(z3.And(0 <= al, al <= e, Al(x, e)), Al(x, al))


def lemma_dvd_trans(x, a, t):
    """Align.lean int_mod_trans with a := 2**a > 0, b := t > 0:  x % 2**a == 0 and 2**a % t == 0  ->  x % t == 0"""
    LEMMA_INSTANCES.append("int_mod_trans")
    return z3.Implies(z3.And(a >= 0, t >= 1, Al(x, a), Dv(t, a)), x % t == 0)


def lemma_multiples_gap(x, y, P):
    """Align.lean int_multiples_gap: P > 0, x % P == 0, y % P == 0, y < x  ->  y + P <= x"""
    LEMMA_INSTANCES.append("int_multiples_gap")
    return z3.Implies(z3.And(P > 0, x % P == 0, y % P == 0, y < x), y + P <= x)


def lemma_pow2_succ(m):
    """Align.lean pow2_succ: m >= 0 -> 2**(m+1) == 2 * 2**m"""
    LEMMA_INSTANCES.append("pow2_succ")
    return z3.Implies(m >= 0, pow2(m + 1) == 2 * pow2(m))


def lemma_pow2_add(a, b):
    """Align.lean pow2_add: a, b >= 0 -> 2**(a+b) == 2**a * 2**b"""
    LEMMA_INSTANCES.append("pow2_add")
    return z3.Implies(z3.And(a >= 0, b >= 0), pow2(a + b) == pow2(a) * pow2(b))


def lemma_pow2_test(r, r_and_r_minus_1, al):
    """Align.lean pow2_test_dvd:  r >= 1, r & (r-1) == 0, r <= 2**al  ->  2**al % r == 0.
    `r_and_r_minus_1` is the term by which the engine names the value of the source expression `r & (r - 1)` on this path"""
    LEMMA_INSTANCES.append("pow2_test_dvd")
    return z3.Implies(z3.And(r >= 1, al >= 0, r_and_r_minus_1 == 0, r <= pow2(al)), Dv(r, al))


def wf_map(v, aw, dw, al, next_addr):
    return z3.And(*[f for _, f in wf_map_parts(v, aw, dw, al, next_addr)])


def intersects(v, i, start, stop):
    return z3.And(v.S[i] < stop, start < v.E[i])


def no_overlap(v, start, stop):
    return z3.ForAll([_i], z3.Implies(z3.And(0 <= _i, _i < v.n), z3.Not(intersects(v, _i, start, stop))))


def inserted(old, new, p, start, stop, step, val):
    """new view = old view with (start, stop, step, val) inserted at index p"""
    conj = [new.n == old.n + 1, 0 <= p, p <= old.n]
    for f, x in (("S", start), ("E", stop), ("T", step), ("V", val)):
        a, b = getattr(old, f), getattr(new, f)
        conj += [z3.ForAll([_i], z3.Implies(z3.And(0 <= _i, _i < p), b[_i] == a[_i])),
                 b[p] == x,
                 z3.ForAll([_i], z3.Implies(z3.And(p < _i, _i <= old.n), b[_i] == a[_i - 1]))]
    return z3.And(*conj)


# ---- models attached to SymObjs ---------------------------------------------------------------------
def view_of(q, obj):
    return q.ghost[("view", id(obj))]


def set_view(q, obj, v):
    q.ghost[("view", id(obj))] = v


class RangeMapModel:
    """`self._ranges` seen from MemoryMap: operations by contract (contracts proved on _RangeMap itself in C02)."""
    def __init__(self, owner):
        self.owner = owner     # the MemoryMap SymObj whose view holds the arrays

    def call_overlaps(self, ex, recv, args, kwargs, q, node):
        key = args[0]
        v = view_of(q, self.owner)
        ne = z3.FreshBool("overlaps_nonempty")
        # contract of _RangeMap.overlaps: result non-empty <=> some range intersects the key
        q.assume(ne == z3.Exists([_i], z3.And(0 <= _i, _i < v.n, intersects(v, _i, key.start, key.stop))))
        ex.oblige("pre:_RangeMap.overlaps:key-nonempty-or-any", q, z3.BoolVal(True), node)
        return [(AbsSeq(ne), q)]

    def call_insert(self, ex, recv, args, kwargs, q, node):
        key, value = args
        v = view_of(q, self.owner)
        ex.oblige("pre:_RangeMap.insert:key-nonempty", q, key.start < key.stop, node)
        ex.oblige("pre:_RangeMap.insert:no-overlap", q, no_overlap(v, key.start, key.stop), node)
        ex.oblige("pre:_RangeMap.insert:step-positive", q, key.step >= 1, node)
        new = MapView(f"_v{next(SymObj._count)}")
        for f in ("isres", "iswin", "rS", "rE", "wS", "wE", "wT"):
            setattr(new, f, getattr(v, f))
        p = z3.FreshInt("pos")
        ident = ident_of(value)
        q.assume(inserted(v, new, p, key.start, key.stop, key.step, ident))
        # ghost index function follows the shift (specification-only state)
        q.assume(z3.ForAll([_i], new.idx[_i] == z3.If(_i == ident, p, z3.If(v.idx[_i] >= p, v.idx[_i] + 1, v.idx[_i]))))
        q.assume(wf_ranges(new))                      # proved for _RangeMap.insert (C02 obligation insert::wf)
        set_view(q, self.owner, new)
        q.writes.append((self.owner.name, "_ranges"))
        q.ghost["insert_pos"] = p
        return [(NONE, q)]

    def call_items(self, ex, recv, args, kwargs, q, node):
        return [(("items", self.owner), q)]

    def call_get(self, ex, recv, args, kwargs, q, node):
        point = ex.toint(args[0], node)
        v = view_of(q, self.owner)
        hit = q.fork(); miss = q
        idx = z3.FreshInt("hit")
        hit.assume(z3.And(0 <= idx, idx < v.n, v.S[idx] <= point, point < v.E[idx]))
        hit.ghost["get_idx"] = idx
        miss.assume(z3.ForAll([_i], z3.Implies(z3.And(0 <= _i, _i < v.n), z3.Not(z3.And(v.S[_i] <= point, point < v.E[_i])))))
        out = []
        if ex.feasible(hit.pc):
            out.append((Ref(v.V[idx]), hit))
        if ex.feasible(miss.pc):
            out.append((NONE, miss))
        return out


def ident_of(value):
    if isinstance(value, Dyn):
        return value.ident
    if isinstance(value, SymObj):
        return value.ref
    if isinstance(value, Ref):
        return value.ident
    raise Unsupported(f"identity of {value!r}")


class IdDictModel:
    """`_resources` / `_windows`: dicts keyed by id(obj) holding (obj, name, range)."""
    window_name_case = None
    def __init__(self, owner, kind):
        self.owner, self.kind = owner, kind      # kind: 'res' | 'win'

    def contains(self, ex, recv, key, q, node):
        v = view_of(q, self.owner)
        arr = v.isres if self.kind == "res" else v.iswin
        return arr[ex.toint(key, node)]

    def getitem(self, ex, recv, key, q, node):
        v = view_of(q, self.owner)
        k = ex.toint(key, node)
        arr = v.isres if self.kind == "res" else v.iswin
        ex.oblige(f"dict-key-present@{node.lineno}", q, arr[k], node)      # else KeyError: an internal error
        name = NameOf(self.owner, k)
        if self.kind == "res":
            rng = Rng(v.rS[k], v.rE[k], z3.IntVal(1))
        else:
            rng = Rng(v.wS[k], v.wE[k], v.wT[k])
            if IdDictModel.window_name_case is False:       # the caller enumerates: named / anonymous window
                name = NONE
        return [(Tup((Ref(k), name, rng)), q)]

    def setitem(self, ex, recv, key, value, q, node):
        v = view_of(q, self.owner).copy()
        k = ex.toint(key, node)
        obj, name, rng = value
        if self.kind == "res":
            v.isres = z3.Store(v.isres, k, True); v.rS = z3.Store(v.rS, k, rng.start); v.rE = z3.Store(v.rE, k, rng.stop)
        else:
            v.iswin = z3.Store(v.iswin, k, True); v.wS = z3.Store(v.wS, k, rng.start); v.wE = z3.Store(v.wE, k, rng.stop)
            v.wT = z3.Store(v.wT, k, rng.step)
        set_view(q, self.owner, v)
        q.writes.append((self.owner.name, "_resources" if self.kind == "res" else "_windows"))
        q.ghost.setdefault("names", {})[(id(self.owner), str(k))] = name
        return [("fall", None, q)]


class NameOf:
    """The name stored next to an identity in _resources/_windows (opaque; compared only by provenance)."""
    def __init__(self, owner, ident):
        self.owner, self.ident = owner, ident


class NamespaceModel:
    """`_namespace`: availability is an uninterpreted predicate of the (opaque) query; assign/extend modify it.
    The precise semantics of is_available/assign/extend is property C18's business."""
    def __init__(self, owner):
        self.owner = owner

    def call_is_available(self, ex, recv, args, kwargs, q, node):
        return [(z3.FreshBool("name_available"), q)]

    call_is_available.takes_ast = False

    def call_assign(self, ex, recv, args, kwargs, q, node):
        avail = q.ghost.get("last_available")
        q.writes.append((self.owner.name, "_namespace"))
        q.ghost[("ns_version", id(self.owner))] = q.ghost.get(("ns_version", id(self.owner)), 0) + 1
        return [(NONE, q)]

    def call_extend(self, ex, recv, args, kwargs, q, node):
        q.writes.append((self.owner.name, "_namespace"))
        q.ghost[("ns_version", id(self.owner))] = q.ghost.get(("ns_version", id(self.owner)), 0) + 1
        return [(NONE, q)]

    def call_names(self, ex, recv, args, kwargs, q, node):
        return [(Opaque("names()"), q)]


def new_map(name, q, frozen=None):
    """A symbolic MemoryMap in an arbitrary state satisfying wf_map; returns (obj, dict of handles)."""
    aw, dw, al, na = z3.Int(f"{name}.aw"), z3.Int(f"{name}.dw"), z3.Int(f"{name}.al"), z3.Int(f"{name}.next")
    fr = z3.Bool(f"{name}.frozen") if frozen is None else frozen
    m = SymObj("MemoryMap", name)
    m.init_fields.update({"_addr_width": aw, "_data_width": dw, "_alignment": al, "_next_addr": na, "_frozen": fr})
    m.init_fields["_ranges"] = SymObj("_RangeMap", f"{name}._ranges", model=RangeMapModel(m))
    m.init_fields["_resources"] = SymObj("dict", f"{name}._resources", model=IdDictModel(m, "res"))
    m.init_fields["_windows"] = SymObj("dict", f"{name}._windows", model=IdDictModel(m, "win"))
    m.init_fields["_namespace"] = SymObj("_Namespace", f"{name}._namespace", model=NamespaceModel(m))
    v = MapView(f"_{name}")
    set_view(q, m, v)
    q.assume(wf_map(v, aw, dw, al, na))
    return m, {"aw": aw, "dw": dw, "al": al, "next": na, "frozen": fr, "view": v,
               # opt-in second layer (only the obligations that need it add it to their premises)
               "wf_align": z3.And(wf_align(v, al), geometry_link(m.ref, aw, dw, al)),
               "wf_align_at": lambda k: z3.And(wf_align_instance(v, al, k), geometry_link(m.ref, aw, dw, al))}


def name_contract(ex, recv, args, kwargs, q, node):
    """MemoryMap.Name(x): returns a Name or raises TypeError (validity of x is an uninterpreted fact here; C18)."""
    ok = z3.FreshBool("name_valid")
    bad = q.fork(); bad.assume(z3.Not(ok))
    q.assume(ok)
    out = []
    if ex.feasible(q.pc):
        out.append((Opaque("Name"), q))
    if ex.feasible(bad.pc):
        out.append((Raised("TypeError"), bad))
    return out
