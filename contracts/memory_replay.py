"""Replay of pyvc counter-models on the REAL MemoryMap code.

The pre-state is built by DIRECT FIELD CONSTRUCTION from the model's abstract view (an arbitrary state satisfying the
representation invariant need not be reachable through the public API with the same insertion order); the real
function is then called with the model's arguments and its observable outcome (exception class / return value /
cursor / frozen flag / list of ranges) is compared with what the engine predicted for this path under the model.
Agreement => the counter-model is a faithful execution of the real code, on which the refuted clause is false.
"""
import z3
from vf.pyvc.engine import Dyn, Rng, NONE, T_NONE, T_INT, T_STR, T_TUPLE, T_COMPONENT, T_OTHER


def ev(model, t):
    v = model.eval(t, model_completion=True)
    if z3.is_int_value(v):
        return v.as_long()
    if z3.is_true(v):
        return True
    if z3.is_false(v):
        return False
    return None


def concrete_dyn(model, d, pool):
    tag = ev(model, d.tag)
    if tag == T_NONE:
        return None
    if tag == T_INT:
        return ev(model, d.ival)
    if tag == T_STR:
        return "s"
    if tag == T_TUPLE:
        return ("t",)
    if tag == T_COMPONENT:
        ident = ev(model, d.ident)
        return pool.component(ident)
    return object()


class Pool:
    """identity -> concrete object, so that equal model identities give the same Python object"""
    def __init__(self):
        self.objs = {}

    def component(self, ident):
        from amaranth.lib import wiring
        if ident not in self.objs:
            class R(wiring.Component):
                def __init__(self):
                    super().__init__({})
            self.objs[ident] = R()
        return self.objs[ident]

    def memory_map(self, ident, aw=1, dw=8):
        from amaranth_soc.memory import MemoryMap
        if ident not in self.objs:
            self.objs[ident] = MemoryMap(addr_width=max(aw, 1), data_width=max(dw, 1))
        return self.objs[ident]


def concrete_map(model, h, pool, limit=64):
    from amaranth_soc.memory import MemoryMap
    aw, dw, al = ev(model, h["aw"]), ev(model, h["dw"]), ev(model, h["al"])
    m = MemoryMap(addr_width=aw, data_width=dw, alignment=al)
    v = h["view"]
    n = ev(model, v.n)
    if n is None or n > limit:
        raise ValueError(f"model has {n} ranges; replay limit {limit}")
    for i in range(n):
        s, e, t, ident = (ev(model, v.S[i]), ev(model, v.E[i]), ev(model, v.T[i]), ev(model, v.V[i]))
        rng = range(s, e, t)
        if ev(model, v.isres[ident]):
            obj = pool.component(ident)
            m._resources[id(obj)] = (obj, MemoryMap.Name(f"r{i}"), rng)
        else:
            obj = pool.memory_map(ident, dw=dw)
            m._windows[id(obj)] = (obj, MemoryMap.Name(f"w{i}"), rng)
        m._ranges._keys.append(rng); m._ranges._starts.append(s); m._ranges._stops.append(e)
        m._ranges._values[rng] = obj
    m._next_addr = ev(model, h["next"])
    m._frozen = bool(ev(model, h["frozen"]))
    return m


def observe(m):
    return {"next_addr": m._next_addr, "frozen": m._frozen,
            "ranges": [(k.start, k.stop, k.step) for k in m._ranges._keys]}


def make_replay(fn_name, h, argspec, outcome, ex, self_obj):
    """argspec: list of (kwname or None, value) for the call; outcome: engine Outcome for this path"""
    from contracts import memory_model as mm

    def replay(model):
        pool = Pool()
        m = concrete_map(model, h, pool)
        args, kwargs, shown = [], {}, {}
        extra_maps = []
        for kw, val in argspec:
            if isinstance(val, Dyn):
                c = concrete_dyn(model, val, pool)
            elif isinstance(val, z3.ExprRef):
                c = ev(model, val)
            elif isinstance(val, tuple) and val and val[0] == "MAP":
                c = concrete_map(model, val[1], pool)
                extra_maps.append((c, val[1], val[2]))
            elif isinstance(val, tuple) and val and val[0] == "NAMEDYN":
                # names are opaque to the engine (validity/availability are uninterpreted facts): None stays None,
                # anything else is replayed as a valid, unused name
                c = None if ev(model, val[1].tag) == T_NONE else "replay_name"
            elif val == "NAME":
                c = "replay_name"
            else:
                c = val
            shown[kw or f"arg{len(args)}"] = repr(c)[:60]
            if kw is None:
                args.append(c)
            else:
                kwargs[kw] = c
        before = observe(m)
        try:
            ret = getattr(m, fn_name)(*args, **kwargs)
            got = {"kind": "return", "value": ((ret.start, ret.stop, ret.step) if isinstance(ret, range) else ret)}
        except Exception as e:
            got = {"kind": "raise", "exc": type(e).__name__, "msg": str(e)[:120]}
        after = observe(m)
        # engine's prediction under the model
        p = outcome.path
        pred = {"kind": outcome.kind}
        if outcome.kind == "raise":
            pred["exc"] = outcome.exc
        else:
            val = outcome.value
            if isinstance(val, Rng):
                pred["value"] = (ev(model, val.start), ev(model, val.stop), ev(model, val.step))
            elif isinstance(val, tuple):
                pred["value"] = tuple(ev(model, ex.toint(x)) for x in val)
            elif val is NONE:
                pred["value"] = None
            else:
                pred["value"] = ev(model, ex.toint(val))
        v1 = mm.view_of(p, self_obj)
        n1 = ev(model, v1.n)
        pred_after = {"next_addr": ev(model, ex.getattr(self_obj, "_next_addr", p, None)[0][0]),
                      "frozen": bool(ev(model, ex.getattr(self_obj, "_frozen", p, None)[0][0])),
                      "ranges": [(ev(model, v1.S[i]), ev(model, v1.E[i]), ev(model, v1.T[i])) for i in range(n1)] if n1 is not None and n1 <= 64 else None}
        for cm, hh, obj in extra_maps:
            after[f"{obj.name}.frozen"] = cm._frozen
            pred_after[f"{obj.name}.frozen"] = bool(ev(model, ex.getattr(obj, "_frozen", p, None)[0][0]))
        agree = (got["kind"] == pred["kind"] and (got.get("exc") == pred.get("exc")) and
                 (got["kind"] == "raise" or got["value"] == pred["value"]) and after == pred_after)
        return agree, {"confirmed": agree,
                       "how": "pre-state built by direct field construction from the counter-model; real function called; "
                              "observable outcome compared with the engine's prediction for this path",
                       "map": {"addr_width": m.addr_width, "data_width": m.data_width, "alignment": m.alignment},
                       "state_before": before, "call": {"function": fn_name, "arguments": shown},
                       "real_outcome": got, "state_after": after,
                       "engine_prediction": pred, "engine_predicted_state_after": pred_after}
    return replay


def make_static_replay(call, params, outcome, ex):
    """replay for a pure function of integers: call(*ints) on the real code vs. the engine's predicted result"""
    def replay(model):
        vals = [ev(model, p) for p in params]
        try:
            got = {"kind": "return", "value": call(*vals)}
        except Exception as e:
            got = {"kind": "raise", "exc": type(e).__name__}
        pred = {"kind": outcome.kind}
        if outcome.kind == "raise":
            pred["exc"] = outcome.exc
        else:
            pred["value"] = ev(model, ex.toint(outcome.value))
        agree = got == pred
        return agree, {"confirmed": agree, "how": "real function called with the counter-model's arguments; result compared with the "
                       "engine's prediction for this path", "arguments": vals, "real_outcome": got, "engine_prediction": pred}
    return replay
