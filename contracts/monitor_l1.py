"""C13 (L1 part): the statements issued by the real event.Monitor.elaborate(), for ANY number of event sources (pyvc with recording
hardware stubs).  One arbitrary source (sub, index) of the event map is executed, once per trigger mode:
  previous-input-register          RISE / FALL sources get `sync  sub_i_r := sub.i`; LEVEL sources get no such register
  trigger-by-mode                  comb  sub.trg := sub.i  |  ~sub_i_r & sub.i  |  sub_i_r & ~sub.i
  pending-set-then-cleared         `If(sub.trg): sync pending[index] := 1`  followed by  `Elif(clear[index]): sync pending[index] := 0`
                                   (set wins over clear), on exactly the bit `index` the event map reports for this source
  nothing-else-per-source          no other statement is issued for a source
  interrupt-line                   after the loop: comb src.i := (enable & pending).any()
That `sources()` yields every source once with its index is the EventMap contract (contracts/eventmap.py); what the statements
mean in hardware is Amaranth's semantics (assumed; the hdlvc clauses of C13 check it per configuration).
"""
import ast
import z3
from vf.pyvc.engine import Exec, Path, SymObj, Opaque, NONE, Tup, find_def, Unsupported
from vf.pyvc.driver import FnVerifier
from . import hdlrec
from .hdlrec import Expr, same_expr

FILE = "amaranth_soc/event.py"
IDX = z3.Int("source_index")
AX = [IDX >= 0]


def verify_monitor_elaborate():
    fv = FnVerifier("event.Monitor.elaborate", AX)
    fn = find_def(FILE, "Monitor.elaborate")
    n_iter = 0
    for mode in ("LEVEL", "RISE", "FALL"):
        ex = Exec(FILE, "Monitor", axioms=AX)
        log = hdlrec.Log()
        m, values = hdlrec.module(log)
        ex.contracts["Module"] = lambda ex_, recv, a, kw, q, node, m=m: [(m, q)]
        sub = SymObj("Source", "sub")
        sub.init_fields["i"] = hdlrec.signal(values, "sub.i")
        sub.init_fields["trg"] = hdlrec.signal(values, "sub.trg")
        trig = SymObj("Trigger", "sub.trigger")
        sub.init_fields["trigger"] = trig
        made = []

        def c_like(ex_, recv, a, kw, q, node):
            s = hdlrec.signal(values, "sub_i_r"); made.append((s, a[0])); return [(s, q)]
        ex.contracts["Signal.like"] = c_like

        def eq_hook(a_, b_, node, mode=mode):
            for x, y in ((a_, b_), (b_, a_)):
                if x is trig and isinstance(y, Opaque) and y.what.startswith("global:Source.Trigger."):
                    return z3.BoolVal(y.what.split(".")[-1] == mode)
            return None
        ex.equal_hook = eq_hook
        self_ = SymObj("Monitor", "self")
        src = SymObj("Source", "self.src")
        src.init_fields["i"] = hdlrec.signal(values, "src.i")
        emap = SymObj("EventMap", "event_map")
        src.init_fields["event_map"] = emap
        self_.init_fields["src"] = src
        for nm in ("enable", "pending", "clear"):
            self_.init_fields[nm] = hdlrec.signal(values, nm)
        marks = {}

        def loop(ex_, st_node, path):
            if ast.unparse(st_node.iter) != "self.src.event_map.sources()":
                ex_.unsupported(st_node, "another loop")
            body = path.fork()
            start_ = len(log.entries)
            out = []
            for kind, _, q2 in ex_.assign(st_node.target, Tup((sub, IDX)), body, st_node):
                for kind2, val2, q3 in ex_.block(st_node.body, q2):
                    if kind2 in ("fall", "continue"):
                        marks.setdefault("ends", []).append((q3, len(log.entries), start_))
                    else:
                        out.append((kind2, val2, q3))
            marks["after"] = len(log.entries)
            out.append(("fall", None, path))
            return out

        class _Every(dict):
            def get(self, key, default=None):
                return loop
        ex.loop_invariants = _Every()

        class EmapModel:
            def call_sources(self, ex_, recv, a, kw, q, node):
                return [(("sources",), q)]
        emap.model = EmapModel()
        q = Path()
        q.env.update({"self": self_, "platform": Opaque("platform")})
        outs = ex.run(fn, q)
        fv.paths += len(outs)
        for k, o in enumerate(outs):
            fv.add("no-exception", f"{mode}:path{k}", o.path.pc, z3.BoolVal(o.kind == "return"))
        i_, trg = sub.init_fields["i"].expr, sub.init_fields["trg"].expr
        pend, clr, en = (self_.init_fields[x].expr for x in ("pending", "clear", "enable"))
        for qend, upto, start_ in marks.get("ends", []):
            n_iter += 1
            lab = f"{mode}:source"
            mine = [e for e in log.entries[start_:upto] if all(any(f.eq(g) for g in qend.pc) for f in e["path"].pc)]
            ir = Expr("sig", "sub_i_r")
            exp = []
            if mode != "LEVEL":
                exp.append(("sync", ir, i_, ()))
            want_trg = {"LEVEL": i_, "RISE": Expr("op", "BitAnd", (Expr("op", "Invert", (ir,)), i_)),
                        "FALL": Expr("op", "BitAnd", (ir, Expr("op", "Invert", (i_,))))}[mode]
            exp.append(("comb", trg, want_trg, ()))
            bit = Expr("bit", pend, IDX)
            exp.append(("sync", bit, Expr("const", z3.IntVal(1)), (("If", trg),)))
            exp.append(("sync", bit, Expr("const", z3.IntVal(0)), (("Elif", Expr("bit", clr, IDX)),)))
            ok_len = len(mine) == len(exp) and all(e["kind"] == "assign" for e in mine)
            fv.add("nothing-else-per-source", lab, qend.pc, z3.BoolVal(ok_len))
            if not ok_len:
                continue
            names = (["previous-input-register"] if mode != "LEVEL" else []) + ["trigger-by-mode", "pending-set-on-trigger", "pending-cleared-else-on-clear"]
            for nm, e, (dom, dst, srcx, ctx) in zip(names, mine, exp):
                fv.add(nm, lab, qend.pc, z3.And(z3.BoolVal(e["domain"] == dom and len(e["ctx"]) == len(ctx)),
                                                same_expr(e["dst"], dst), same_expr(e["src"], srcx),
                                                *[z3.And(z3.BoolVal(c1[0] == c2[0]), same_expr(c1[1], c2[1])) for c1, c2 in zip(e["ctx"], ctx)]))
            if mode == "LEVEL":
                fv.add("level-source-has-no-previous-input-register", lab, qend.pc, z3.BoolVal(not made))
        tail = [e for e in log.entries[marks.get("after", 0):]]
        want = Expr("method", "any", (Expr("op", "BitAnd", (en, pend)),))
        fv.add("interrupt-line", f"{mode}:after-the-loop", [], z3.And(z3.BoolVal(len(tail) == 1 and tail[0]["domain"] == "comb" and not tail[0]["ctx"]),
                                                                      same_expr(tail[0]["dst"], src.init_fields["i"].expr) if tail else z3.BoolVal(False),
                                                                      same_expr(tail[0]["src"], want) if tail else z3.BoolVal(False)))
        from .hdlrec import stores_nothing_on_the_component as _frame
        _frame(fv, ex)
        fv.add_engine_obligations(ex)
    fv.add("cover:one-source-per-mode", "vacuity", [], z3.BoolVal(n_iter == 3))
    return fv


ALL = [verify_monitor_elaborate]
