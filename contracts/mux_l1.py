"""C04 / C05 (L1 part): the statements issued by the real csr.Multiplexer.elaborate() for ANY register layout (pyvc with recording
hardware stubs): one arbitrary register of the population loop, one arbitrary (chunk, register) pair of the read side and of the write side.

  population                    a register's own address range is added to the read shadow iff its element is readable and to the write
                                shadow iff it is writable; both shadows are prepared after the loop and before they are used
  READ, per chunk               r_en := 0 (sync, before the Switch: a Case assignment wins); w_en := any_of(the registers' r_stb);
                                If(w_en): data := any_of(the registers' gated read words) (sync); the chunk contributes
                                Mux(r_en, data, 0) to the bus read data;  bus.r_data := any_of(all chunks)
  READ, per register of a chunk A = encode_offset(chunk offset, range) (ASSUMED to lie in the range and to decode to the chunk: the shadow
                                hash lemma, C04/C05 shadow_l1); the register is looked up by the START of its range; under
                                Switch(bus.addr) > Case(A): element.r_stb := bus.r_stb ONLY IF A is the first address; r_en := bus.r_stb;
                                fan-ins get element.r_stb and Mux(element.r_stb, r_data.word_select(A - start, data_width), 0)
  WRITE, per register of a chunk  w_stb := 0 (sync) and, under Case(A), w_stb := bus.w_stb (sync) ONLY IF A is the LAST address;
                                under Case(A): chunk.w_en := bus.w_stb;  w_data.word_select(A - start, data_width) := chunk.data always
  WRITE, per chunk              If(chunk.w_en): chunk.data := bus.w_data (sync)
  nothing-else                  per iteration and outside the loops
any_of() (pairwise OR) is replaced by its contract and checked natively on the extracted function for 0..64 terms (bounded, labelled).
What the schedule means in hardware (Switch/Case, If, last assignment wins, word_select) is Amaranth's semantics: assumed here and
checked per layout from the netlist by the hdlvc clauses of C04/C05.
"""
import ast
import z3
from vf.pyvc.engine import Exec, Path, SymObj, Opaque, NONE, Tup, Rng, find_def, Unsupported
from vf.pyvc.driver import FnVerifier
from . import hdlrec
from .hdlrec import Expr, same_expr

FILE = "amaranth_soc/csr/bus.py"
DW = z3.Int("data_width")
AX = [DW >= 1]


def verify_mux_elaborate():
    fv = FnVerifier("csr.bus.Multiplexer.elaborate", AX)
    fn = find_def(FILE, "Multiplexer.elaborate")
    ex = Exec(FILE, "Multiplexer", axioms=AX)
    log = hdlrec.Log()
    m, values = hdlrec.module(log)
    ex.contracts["Module"] = lambda ex_, recv, a, kw, q, node: [(m, q)]
    ex.contracts["Mux"] = lambda ex_, recv, a, kw, q, node: [(values.wrap(Expr("fn", "Mux", tuple(values.operand(ex_, x, node) for x in a))), q)]
    events = []                      # ("add"|"prepare"|..., shadow name, path fork, payload, log position)

    class ShadowModel:
        def __init__(self, name):
            self.name = name

        def call_add(self, ex_, recv, a, kw, q, node):
            events.append(("add", self.name, q.fork(), a[0], len(log.entries)))
            return [(NONE, q)]

        def call_prepare(self, ex_, recv, a, kw, q, node):
            events.append(("prepare", self.name, q.fork(), q.ghost.get("populated", False), len(log.entries)))
            q.ghost["prepared"] = tuple(q.ghost.get("prepared", ())) + (self.name,)
            return [(NONE, q)]

        def call_chunks(self, ex_, recv, a, kw, q, node):
            ex_.oblige(f"{self.name}-prepared-before-its-chunks-are-used", q, z3.BoolVal(self.name in q.ghost.get("prepared", ())), node)
            return [(("chunks", self.name), q)]

        def call_encode_offset(self, ex_, recv, a, kw, q, node):
            off, rng = a
            cur_off, cur_rng = q.ghost.get("chunk_offset"), q.ghost.get("reg_range")
            ex_.oblige(f"{self.name}.encode_offset-called-with-this-chunk-and-this-range", q,
                       z3.And(z3.BoolVal(rng is cur_rng and q.ghost.get("side") == self.name), ex_.toint(off, node) == cur_off), node)
            A = z3.Int(f"chunk_addr_{self.name}")
            q.assume(z3.And(cur_rng.start <= A, A < cur_rng.stop))        # shadow hash lemma (assumed here; shadow_l1)
            return [(A, q)]
    shadows = {}

    def c_shadow(ex_, recv, a, kw, q, node):
        nm = kw.get("name")
        name = nm.what[4:] if isinstance(nm, Opaque) and nm.what.startswith("str:") else None
        if name not in ("r_shadow", "w_shadow") or name in shadows:
            raise Unsupported(f"_Shadow(name={nm!r})")
        ex_.oblige("shadow-granularity-is-the-bus-data-width", q, ex_.toint(a[0], node) == DW, node)
        shadows[name] = SymObj("_Shadow", name, model=ShadowModel(name))
        return [(shadows[name], q)]
    ex.contracts["self._Shadow"] = c_shadow
    bus = SymObj("Interface", "self.bus")
    for nm in ("addr", "r_data", "r_stb", "w_data", "w_stb"):
        bus.init_fields[nm] = hdlrec.signal(values, "bus." + nm)
    bus.init_fields["data_width"] = DW
    READABLE, WRITABLE = z3.Bool("element_readable"), z3.Bool("element_writable")

    class AccessModel:
        def call_readable(self, ex_, recv, a, kw, q, node):
            return [(READABLE, q)]

        def call_writable(self, ex_, recv, a, kw, q, node):
            return [(WRITABLE, q)]

    def make_reg(name):
        reg = SymObj("Register", name)
        el = SymObj("Element", name + ".element")
        for nm in ("r_data", "r_stb", "w_data", "w_stb"):
            el.init_fields[nm] = hdlrec.signal(values, f"{name}.{nm}")
        el.init_fields["access"] = SymObj("Access", name + ".access", model=AccessModel())
        reg.init_fields["element"] = el
        return reg
    reg_pop, reg_r, reg_w = make_reg("reg_pop"), make_reg("reg_r"), make_reg("reg_w")

    class MapModel:
        def call_resources(self, ex_, recv, a, kw, q, node):
            return [(("resources",), q)]

        def call_decode_address(self, ex_, recv, a, kw, q, node):
            rng = q.ghost.get("reg_range")
            ex_.oblige("register-looked-up-by-the-start-of-its-range", q, ex_.toint(a[0], node) == rng.start, node)
            return [({"r_shadow": reg_r, "w_shadow": reg_w}[q.ghost["side"]], q)]
    bus.init_fields["memory_map"] = SymObj("MemoryMap", "self.bus.memory_map", model=MapModel())
    self_ = SymObj("Multiplexer", "self")
    self_.init_fields.update({"bus": bus, "_shadow_overlaps": Opaque("shadow_overlaps")})

    class FanIn:
        def __init__(self, name):
            self.name = name

        def call_append(self, ex_, recv, a, kw, q, node):
            q.ghost["appended"] = tuple(q.ghost.get("appended", ())) + ((self.name, a[0]),)
            return [(NONE, q)]
    lists = []

    def new_list(q):
        names = ["r_data_fanin", "r_chunk_w_en_fanin", "r_chunk_data_fanin"]
        if len(lists) >= len(names):
            raise Unsupported("more list literals than the three fan-in lists")
        o = SymObj("list", names[len(lists)], model=FanIn(names[len(lists)])); lists.append(o)
        return o
    ex.empty_list_factory = new_list

    def c_any_of(ex_, recv, a, kw, q, node):
        if not (isinstance(a[0], SymObj) and isinstance(a[0].model, FanIn)):
            raise Unsupported("any_of() of something else than a fan-in list")
        return [(values.wrap(Expr("any_of", a[0].model.name)), q)]
    ex.contracts["any_of"] = c_any_of

    def chunk_obj(name):
        c = SymObj("Chunk", name)
        for nm in ("data", "r_en", "w_en"):
            c.init_fields[nm] = hdlrec.signal(values, f"{name}.{nm}")

        class ChunkModel:
            def call_registers(self, ex_, recv, a, kw, q, node):
                return [(("registers", name), q)]
        c.model = ChunkModel()
        return c
    r_chunk, w_chunk = chunk_obj("r_chunk"), chunk_obj("w_chunk")
    O_R, O_W = z3.Ints("r_chunk_offset w_chunk_offset")
    rng_pop = Rng(*z3.Ints("pop_start pop_end"), z3.IntVal(1))
    rng_r = Rng(*z3.Ints("r_reg_start r_reg_stop"), z3.IntVal(1))
    rng_w = Rng(*z3.Ints("w_reg_start w_reg_stop"), z3.IntVal(1))
    marks = {}

    def one_iteration(ex_, st_node, path, key, target_value, setup):
        body = path.fork()
        setup(body)
        start_ = len(log.entries)
        out = []
        for kind, _, q2 in ex_.assign(st_node.target, target_value, body, st_node):
            for kind2, val2, q3 in ex_.block(st_node.body, q2):
                if kind2 in ("fall", "continue"):
                    marks.setdefault(key, []).append((q3, start_, len(log.entries)))
                else:
                    out.append((kind2, val2, q3))
        return out

    def loop(ex_, st_node, path):
        it = ast.unparse(st_node.iter)
        if it == "self.bus.memory_map.resources()":
            out = one_iteration(ex_, st_node, path, "pop", Tup((reg_pop, Opaque("name"), Tup((rng_pop.start, rng_pop.stop)))),
                                lambda b: b.assume(rng_pop.start < rng_pop.stop))
            path.ghost["populated"] = True
            return out + [("fall", None, path)]
        if it in ("r_shadow.chunks()", "w_shadow.chunks()"):
            side = it[:8]
            def setup(b):
                b.ghost["side"] = side; b.ghost["chunk_offset"] = O_R if side == "r_shadow" else O_W
                b.ghost["appended"] = ()
            out = one_iteration(ex_, st_node, path, "chunk:" + side, Tup((O_R if side == "r_shadow" else O_W, r_chunk if side == "r_shadow" else w_chunk)), setup)
            return out + [("fall", None, path)]
        if it in ("r_chunk.registers()", "w_chunk.registers()"):
            side = "r_shadow" if it[0] == "r" else "w_shadow"
            if path.ghost.get("side") != side:
                ex_.unsupported(st_node, f"{it} outside the loop over {side}.chunks()")
            rng = rng_r if side == "r_shadow" else rng_w
            def setup(b):
                b.ghost["reg_range"] = rng; b.ghost["appended"] = ()
                b.assume(rng.start < rng.stop)
            out = one_iteration(ex_, st_node, path, "reg:" + side, rng, setup)
            return out + [("fall", None, path)]
        ex_.unsupported(st_node, f"loop over {it}")

    class _Every(dict):
        def get(self, key, default=None):
            return loop
    ex.loop_invariants = _Every()
    q = Path()
    q.env.update({"self": self_, "platform": Opaque("platform")})
    outs = ex.run(fn, q)
    fv.paths = len(outs)
    for k, o in enumerate(outs):
        fv.add("no-exception", f"path{k}", o.path.pc, z3.BoolVal(o.kind == "return"))
    S = lambda n: Expr("sig", n)
    const = lambda t: Expr("const", t if isinstance(t, z3.ExprRef) else z3.IntVal(t))
    sw = ("Switch", S("bus.addr"))

    def val(pc, f):
        s = z3.Solver(); s.add(*AX); s.add(*pc); s.add(f)
        yes = s.check() == z3.sat
        s = z3.Solver(); s.add(*AX); s.add(*pc); s.add(z3.Not(f))
        no = s.check() == z3.sat
        return True if yes and not no else (False if no and not yes else None)

    def check(lab, e, spec):
        nm, dom, dst, src, ctx = spec
        fv.add(nm, lab, e["path"].pc, z3.And(z3.BoolVal(e["domain"] == dom and len(e["ctx"]) == len(ctx)), same_expr(e["dst"], dst), same_expr(e["src"], src),
                                             *[z3.And(z3.BoolVal(c1[0] == c2[0]), same_expr(c1[1], c2[1])) for c1, c2 in zip(e["ctx"], ctx)]))

    def assigns(qend, lo, hi, exclude=()):
        return [e for k, e in enumerate(log.entries[lo:hi], lo) if e["kind"] == "assign" and k not in exclude
                and all(any(f.eq(h) for h in qend.pc) for f in e["path"].pc)]
    # ---- population loop
    for qend, lo, hi in marks.get("pop", []):
        r, w = val(qend.pc, READABLE), val(qend.pc, WRITABLE)
        mine = [ev for ev in events if ev[0] == "add" and all(any(f.eq(h) for h in qend.pc) for f in ev[2].pc)]
        lab = f"readable={r},writable={w}"
        fv.add("every-access-mode-examined", lab, qend.pc, z3.BoolVal(r is not None and w is not None))
        want = ([("r_shadow")] if r else []) + (["w_shadow"] if w else [])
        fv.add("added-to-the-read-shadow-iff-readable-and-to-the-write-shadow-iff-writable", lab, qend.pc, z3.BoolVal(sorted(ev[1] for ev in mine) == sorted(want)))
        for ev in mine:
            rg = ev[3]
            fv.add("added-with-its-own-address-range", lab, ev[2].pc,
                   z3.And(rg.start == rng_pop.start, rg.stop == rng_pop.stop, rg.step == 1) if isinstance(rg, Rng) else z3.BoolVal(False))
        fv.add("population-issues-no-statement", lab, qend.pc, z3.BoolVal(hi == lo))
    preps = [ev for ev in events if ev[0] == "prepare"]
    fv.add("both-shadows-prepared-once-after-the-population", "outer", [], z3.BoolVal(sorted(ev[1] for ev in preps) == ["r_shadow", "w_shadow"] and all(ev[3] for ev in preps)))
    inner = set()
    for key in ("reg:r_shadow", "reg:w_shadow"):
        for _, lo, hi in marks.get(key, []):
            inner |= set(range(lo, hi))
    chunk_ranges = set()
    for key in ("chunk:r_shadow", "chunk:w_shadow"):
        for _, lo, hi in marks.get(key, []):
            chunk_ranges |= set(range(lo, hi))
    # ---- read side, per register of a chunk
    A_r, A_w = z3.Int("chunk_addr_r_shadow"), z3.Int("chunk_addr_w_shadow")
    el = lambda reg, s: Expr("attr", Expr("attr", Expr("sig", reg), "element"), s) if False else S(f"{reg}.{s}")
    n_rf = n_rl = 0
    for qend, lo, hi in marks.get("reg:r_shadow", []):
        first = val(qend.pc, A_r == rng_r.start)
        lab = "first-address" if first else ("later-address" if first is False else "any-address")
        n_rf += first is True; n_rl += first is False
        case = ("Case", (const(A_r),))
        exp = ([("read-strobe-only-at-the-first-address", "comb", el("reg_r", "r_stb"), S("bus.r_stb"), (sw, case))] if first else []) + \
              [("chunk-read-enable-one-cycle-later", "sync", S("r_chunk.r_en"), S("bus.r_stb"), (sw, case))]
        mine = assigns(qend, lo, hi)
        fv.add("read:nothing-else-per-register", lab, qend.pc, z3.BoolVal(first is not None and len(mine) == len(exp)))
        if first is not None and len(mine) == len(exp):
            for spec, e in zip(exp, mine):
                check(lab, e, spec)
        app = qend.ghost.get("appended", ())
        word = Expr("method", "word_select", (el("reg_r", "r_data"), const(A_r - rng_r.start), const(DW)))
        want_app = [("r_chunk_w_en_fanin", el("reg_r", "r_stb")), ("r_chunk_data_fanin", Expr("fn", "Mux", (el("reg_r", "r_stb"), word, const(0))))]
        ok = len(app) == 2 and all(a[0] == w_[0] for a, w_ in zip(app, want_app))
        fv.add("read:one-term-per-register-in-each-chunk-fan-in", lab, qend.pc,
               z3.And(*[same_expr(values.operand(ex, a[1], None), w_[1]) for a, w_ in zip(app, want_app)]) if ok else z3.BoolVal(False))
    # ---- read side, per chunk
    for qend, lo, hi in marks.get("chunk:r_shadow", []):
        mine = assigns(qend, lo, hi, exclude=inner)
        exp = [("read:chunk-enable-cleared-by-default", "sync", S("r_chunk.r_en"), const(0), ()),
               ("read:capture-enable-is-any-register-strobe", "comb", S("r_chunk.w_en"), Expr("any_of", "r_chunk_w_en_fanin"), ()),
               ("read:chunk-captures-the-selected-word", "sync", S("r_chunk.data"), Expr("any_of", "r_chunk_data_fanin"), (("If", S("r_chunk.w_en")),))]
        fv.add("read:nothing-else-per-chunk", "chunk", qend.pc, z3.BoolVal(len(mine) == len(exp)))
        if len(mine) == len(exp):
            for spec, e in zip(exp, mine):
                check("chunk", e, spec)
            # the default must be issued BEFORE the register loop (so that the Case assignment wins)
            fv.add("read:default-precedes-the-register-cases", "chunk", qend.pc,
                   z3.BoolVal(all(mine[0]["seq"] < log.entries[k]["seq"] for k in inner if lo <= k < hi)))
        app = qend.ghost.get("appended", ())
        want = Expr("fn", "Mux", (S("r_chunk.r_en"), S("r_chunk.data"), const(0)))
        fv.add("read:one-term-per-chunk-in-the-bus-fan-in", "chunk", qend.pc,
               same_expr(values.operand(ex, app[0][1], None), want) if len(app) == 1 and app[0][0] == "r_data_fanin" else z3.BoolVal(False))
    # ---- write side, per register of a chunk
    n_wl = n_we = 0
    for qend, lo, hi in marks.get("reg:w_shadow", []):
        last = val(qend.pc, A_w == rng_w.stop - 1)
        lab = "last-address" if last else ("earlier-address" if last is False else "any-address")
        n_wl += last is True; n_we += last is False
        case = ("Case", (const(A_w),))
        word = Expr("method", "word_select", (el("reg_w", "w_data"), const(A_w - rng_w.start), const(DW)))
        exp = ([("write-strobe-cleared-by-default", "sync", el("reg_w", "w_stb"), const(0), (sw,)),
                ("write-strobe-only-at-the-last-address", "sync", el("reg_w", "w_stb"), S("bus.w_stb"), (sw, case))] if last else []) + \
              [("chunk-write-enable-at-its-address", "comb", S("w_chunk.w_en"), S("bus.w_stb"), (sw, case)),
               ("register-word-driven-from-its-chunk", "comb", word, S("w_chunk.data"), (sw,))]
        mine = assigns(qend, lo, hi)
        fv.add("write:nothing-else-per-register", lab, qend.pc, z3.BoolVal(last is not None and len(mine) == len(exp)))
        if last is not None and len(mine) == len(exp):
            for spec, e in zip(exp, mine):
                check(lab, e, spec)
        fv.add("write:no-fan-in-term", lab, qend.pc, z3.BoolVal(not qend.ghost.get("appended", ())))
    for qend, lo, hi in marks.get("chunk:w_shadow", []):
        mine = assigns(qend, lo, hi, exclude=inner)
        exp = [("write:chunk-latches-the-bus-word", "sync", S("w_chunk.data"), S("bus.w_data"), (("If", S("w_chunk.w_en")),))]
        fv.add("write:nothing-else-per-chunk", "chunk", qend.pc, z3.BoolVal(len(mine) == len(exp)))
        if len(mine) == len(exp):
            check("chunk", mine[0], exp[0])
    # ---- outside every loop
    outer = [e for k, e in enumerate(log.entries) if k not in chunk_ranges and e["kind"] == "assign"]
    pc_all = outs[0].path.pc if outs else []
    fv.add("nothing-else-outside-the-loops", "outer", pc_all, z3.BoolVal(len(outer) == 1))
    if len(outer) == 1:
        check("outer", outer[0], ("bus-read-data-is-any-selected-chunk", "comb", S("bus.r_data"), Expr("any_of", "r_data_fanin"), ()))
    fv.add("no-submodule", "outer", pc_all, z3.BoolVal(not [e for e in log.entries if e["kind"] == "submodule"]))
    # any_of(): bounded native check of the extracted function
    from .decoder_l1 import reduction_bounded_fn
    anyof = [n for n in ast.walk(fn) if isinstance(n, ast.FunctionDef) and n.name == "any_of"]
    ok, detail = reduction_bounded_fn(anyof[0]) if len(anyof) == 1 else (False, "any_of is not a local function")
    fv.add("reduction-is-the-or-of-all[<= 64 terms, bounded]", "any_of", [], z3.BoolVal(ok))
    fv.bounded_detail = detail
    fv.add("cover:all-iteration-kinds", "vacuity", [], z3.BoolVal(n_rf >= 1 and n_rl >= 1 and n_wl >= 1 and n_we >= 1 and len(marks.get("pop", [])) >= 3))
    from .hdlrec import stores_nothing_on_the_component as _frame
    _frame(fv, ex)
    fv.add_engine_obligations(ex)
    return fv


ALL = [verify_mux_elaborate]
