"""C18 (L1 part): _Namespace.is_available / assign / extend and MemoryMap.Name.__new__ under contract (pyvc).

Names are sequences over an UNINTERPRETED sort `Part` with equality (so the string '0' and the integer 0 are simply two
different parts): a name is an identity `n` with Len(n) >= 1 and PartAt(n, j).  Assigned(n) is the namespace's key set.
    Related(a, b)  :=  forall j. 0 <= j < min(Len a, Len b)  ->  PartAt(a, j) = PartAt(b, j)       (equal / prefix / extension)
Contract of is_available(q_0 .. q_{k-1}) for queries that are pairwise unrelated (true for the names of one namespace, which is
what add_window passes for an anonymous window; trivially true for a single name):
    result  <=>  not exists i, n. Assigned(n) and Related(q_i, n)
    no IndexError at `reserved_name[part_idx]`; the internal `assert reserved_name in self._assignments` holds; modifies nothing.
The three nested loops carry explicit invariants (keyed by loop ordinal):
  #0 (over queries)        conflicts <=> some earlier query is related to an assigned name or to a later query
  #1 (over reserved names) conflicts <=> (value at loop entry) or some reserved name visited so far is related to the query
  #2 (over parts)          all earlier parts are equal and part_idx <= min(len) - 1   (so the subscript is in range)
`sorted(keys | set(tail), key=...)` is modelled by its documented result: SOME sequence containing exactly the elements of the
union (assumed stdlib contract: sorted returns a permutation of its input; set union).
"""
import ast
import z3
from vf.pyvc.engine import Exec, Path, SymObj, Dyn, Tup, Opaque, NONE, Raised, Empty, find_def, Unsupported, T_NONE
from vf.pyvc.driver import FnVerifier

FILE = "amaranth_soc/memory.py"
Part = z3.DeclareSort("Part")
I = z3.IntSort()
Len = z3.Function("NameLen", I, I)
PartAt = z3.Function("PartAt", I, I, Part)
IntArr = z3.ArraySort(I, I)
BoolArr = z3.ArraySort(I, z3.BoolSort())
_j = z3.Int("nj")
_r, _t, _p = z3.Ints("nr nt np")
AX = [z3.ForAll([_r], Len(_r) >= 1, patterns=[Len(_r)])]          # MemoryMap.Name refuses empty names (verify_name_new)


def related(a, b):
    return z3.ForAll([_j], z3.Implies(z3.And(0 <= _j, _j < Len(a), _j < Len(b)), PartAt(a, _j) == PartAt(b, _j)))


class NameV:
    """a validated MemoryMap.Name"""
    def __init__(self, ident):
        self.ident = ident
        self.len_term = Len(ident)

    def getitem_sym(self, ex, key, q, node):
        j = ex.toint(key, node)
        # tuple indexing: IndexError outside [-len, len); negative indices are not intended here -> obligation
        ex.oblige(f"name-index-in-range@{node.lineno}", q, z3.And(0 <= j, j < Len(self.ident)), node)
        return [(PartAt(self.ident, j), q)]


class AssignDict:
    """self._assignments: keys are names"""
    def __init__(self, owner):
        self.owner = owner

    def contains(self, ex, recv, key, q, node):
        return q.ghost[("assigned", id(self.owner))][key.ident]

    def truth(self, ex, recv):
        """bool(dict): non-empty.  The path's current key set is not available here (truthiness is asked without a path), so
        emptiness is a fresh unknown: both branches of an `if not self._assignments` are explored."""
        return z3.FreshBool("assignments_nonempty")

    def setitem(self, ex, recv, key, value, q, node):
        a = q.ghost[("assigned", id(self.owner))]
        q.ghost[("assigned", id(self.owner))] = z3.Store(a, key.ident, True)
        q.writes.append((self.owner.name, "_assignments"))
        return [("fall", None, q)]

    def call_update(self, ex, recv, args, kwargs, q, node):
        """dict.update(other_dict) (assumed stdlib contract): the key set becomes the union"""
        other = args[0]
        a = q.ghost[("assigned", id(self.owner))]
        b = q.ghost[("assigned", id(other.model.owner))]
        new = z3.FreshConst(BoolArr, "assigned_after_update")
        q.assume(z3.ForAll([_r], new[_r] == z3.Or(a[_r], b[_r])))
        q.ghost[("assigned", id(self.owner))] = new
        q.writes.append((self.owner.name, "_assignments"))
        return [(NONE, q)]


def fresh_ns(q, name="self"):
    ns = SymObj("_Namespace", name)
    a = z3.Const(f"assigned_{name}", BoolArr)
    q.ghost[("assigned", id(ns))] = a
    ns.init_fields["_assignments"] = SymObj("dict", f"{name}._assignments", model=AssignDict(ns))
    return ns, a


def prefix_free(a):
    x, y = z3.Ints("pfx pfy")
    return z3.ForAll([x, y], z3.Implies(z3.And(a[x], a[y], x != y), z3.Not(related(x, y))))


# ---- is_available ------------------------------------------------------------------------------------------------------
def verify_is_available():
    fv = FnVerifier("_Namespace.is_available", AX)
    fn = find_def(FILE, "_Namespace.is_available")
    ex = Exec(FILE, "_Namespace", axioms=AX)
    q = Path()
    ns, A = fresh_ns(q)
    Q = z3.Const("queries", IntArr); nq = z3.Int("nq")
    q.assume(nq >= 0)
    # requires: the queried names are pairwise unrelated
    q.assume(z3.ForAll([_r, _t], z3.Implies(z3.And(0 <= _r, _r < _t, _t < nq), z3.Not(related(Q[_r], Q[_t])))))
    st = {"Q": Q, "nq": nq, "A": A}

    def U(i, r):
        """r is in the set the i-th iteration sorts: assigned names and the later queries"""
        return z3.Or(A[r], z3.Exists([_t], z3.And(i < _t, _t < nq, Q[_t] == r)))

    def inv0(i, c):
        return c == z3.Exists([_p, _r], z3.And(0 <= _p, _p < i, U(_p, _r), related(Q[_p], _r)))

    # `names = tuple(MemoryMap.Name(name) for name in names)`: the queries become validated names (or TypeError, which C18's
    # name_validation clause and verify_name_new cover); modelled as the abstract sequence Q
    def c_tuple(ex_, recv, a, k, q_, n):
        return [(("queries",), q_)]
    ex.contracts["tuple"] = c_tuple

    def loop0(ex_, st_node, path):
        out = []
        # establish
        ex_.oblige("loop#0-invariant-established", path, inv0(z3.IntVal(0), path.env["conflicts"]), st_node)
        # one arbitrary iteration
        i = z3.FreshInt("qi"); c0 = z3.FreshBool("conflicts_in")
        body = path.fork()
        body.assume(z3.And(0 <= i, i < nq, inv0(i, c0)))
        body.env = dict(body.env); body.env["conflicts"] = c0; body.env["name_idx"] = i; body.env["name"] = NameV(Q[i])
        body.ghost["i"] = i
        for kind, val, q2 in ex_.block(st_node.body, body):
            if kind == "fall":
                ex_.oblige("loop#0-invariant-preserved", q2, inv0(i + 1, ex_.truth(q2.env["conflicts"])), st_node)
            else:
                out.append((kind, val, q2))
        # exit
        ce = z3.FreshBool("conflicts_out")
        path.assume(inv0(nq, ce))
        path.env["conflicts"] = ce
        out.append(("fall", None, path))
        return out

    def c_sorted(ex_, recv, a, k, q_, n):
        """sorted(self._assignments.keys() | set(names[name_idx+1:]), key=...): a sequence R of length nr enumerating exactly U_i"""
        i = q_.ghost["i"]
        R = z3.FreshConst(IntArr, "reserved"); nr = z3.FreshInt("nreserved")
        q_.assume(z3.And(nr >= 0,
                         z3.ForAll([_p], z3.Implies(z3.And(0 <= _p, _p < nr), U(i, R[_p]))),
                         z3.ForAll([_r], z3.Implies(U(i, _r), z3.Exists([_p], z3.And(0 <= _p, _p < nr, R[_p] == _r))))))
        q_.ghost["R"] = (R, nr)
        return [(("reserved",), q_)]
    c_sorted.takes_ast = False
    ex.contracts["sorted"] = lambda ex_, e_or_recv, *rest: None

    def sorted_ast(ex_, e, recv, q_):
        return c_sorted(ex_, recv, [], {}, q_, e)
    sorted_ast.takes_ast = True
    # the argument expression of sorted() contains a lambda and a set union the engine does not evaluate: contract by AST
    orig_call = ex.e_Call

    def e_call(e, p):
        if isinstance(e.func, ast.Name) and e.func.id == "sorted":
            return c_sorted(ex, None, [], {}, p, e)
        return orig_call(e, p)
    ex.e_Call = e_call

    def loop1(ex_, st_node, path):
        out = []
        R, nr = path.ghost["R"]
        name = path.env["name"]
        c_entry = ex_.truth(path.env["conflicts"])

        def inv1(p, c):
            return c == z3.Or(c_entry, z3.Exists([_t], z3.And(0 <= _t, _t < p, related(name.ident, R[_t]))))
        ex_.oblige("loop#1-invariant-established", path, inv1(z3.IntVal(0), c_entry), st_node)
        p = z3.FreshInt("rp"); c0 = z3.FreshBool("conflicts_mid")
        body = path.fork()
        body.assume(z3.And(0 <= p, p < nr, inv1(p, c0)))
        body.env = dict(body.env); body.env["conflicts"] = c0; body.env["reserved_name"] = NameV(R[p])
        body.ghost["p"] = p
        for kind, val, q2 in ex_.block(st_node.body, body):
            if kind == "fall":
                ex_.oblige("loop#1-invariant-preserved", q2, inv1(p + 1, ex_.truth(q2.env["conflicts"])), st_node)
            else:
                out.append((kind, val, q2))
        ce = z3.FreshBool("conflicts_after_reserved")
        path.assume(inv1(nr, ce))
        path.env["conflicts"] = ce
        out.append(("fall", None, path))
        return out

    def loop2(ex_, st_node, path):
        """for part_idx, part in enumerate(name): with two breaks"""
        out = []
        name, res = path.env["name"], path.env["reserved_name"]
        mn = z3.If(Len(name.ident) <= Len(res.ident), Len(name.ident), Len(res.ident))

        def inv2(j):
            return z3.And(0 <= j, j <= mn - 1, z3.ForAll([_t], z3.Implies(z3.And(0 <= _t, _t < j), PartAt(name.ident, _t) == PartAt(res.ident, _t))))
        ex_.oblige("loop#2-invariant-established", path, inv2(z3.IntVal(0)), st_node)
        j = z3.FreshInt("pj")
        body = path.fork()
        body.assume(z3.And(0 <= j, j < Len(name.ident), inv2(j)))
        body.env = dict(body.env); body.env["part_idx"] = j; body.env["part"] = PartAt(name.ident, j)
        c_before = ex_.truth(path.env["conflicts"])
        for kind, val, q2 in ex_.block(st_node.body, body):
            if kind == "fall":
                # no break: the next iteration exists and the invariant holds for it
                ex_.oblige("loop#2-invariant-preserved", q2, z3.And(j + 1 < Len(name.ident), inv2(j + 1)), st_node)
            elif kind == "break":
                # what a break means for the enclosing loop: conflicts' <=> conflicts or Related(name, reserved)
                ex_.oblige("loop#2-break-decides-relatedness", q2,
                           ex_.truth(q2.env["conflicts"]) == z3.Or(c_before, related(name.ident, res.ident)), st_node)
                q2.env = {**q2.env}
                out.append(("fall", None, q2))
            else:
                out.append((kind, val, q2))
        # exhaustion without break: impossible (the last admissible index always breaks)
        return out

    ex.loop_invariants[0] = loop0
    ex.loop_invariants[1] = loop1
    ex.loop_invariants[2] = loop2
    ex.contracts["reasons.append"] = lambda ex_, recv, a, k, q_, n: [(NONE, q_)]
    for reasons in (NONE, Opaque("reasons list")):
        ex._loop_ord = 0
        qq = q.fork()
        qq.env.update({"self": ns, "names": Opaque("names"), "reasons": reasons})
        outs = ex.run(fn, qq)
        fv.paths += len(outs)
        lab0 = "reasons=None" if reasons is NONE else "reasons=list"
        for k, o in enumerate(outs):
            p = o.path
            fv.add("no-exception", f"{lab0}:path{k}", p.pc, z3.BoolVal(o.kind == "return"))
            if o.kind != "return":
                continue
            fv.add("available-iff-no-query-is-related-to-an-assigned-name", f"{lab0}:path{k}", p.pc,
                   ex.truth(o.value) == z3.Not(z3.Exists([_p, _r], z3.And(0 <= _p, _p < nq, A[_r], related(Q[_p], _r)))))
            fv.add("modifies-nothing", f"{lab0}:path{k}", p.pc, z3.BoolVal(p.ghost[("assigned", id(ns))] is A and not p.writes))
        fv.add_engine_obligations(ex); ex.obligations = []
    return fv


def verify_assign():
    """assign(name, obj): requires availability (the internal assert); adds exactly that name; keeps the namespace prefix-free"""
    fv = FnVerifier("_Namespace.assign", AX)
    fn = find_def(FILE, "_Namespace.assign")
    ex = Exec(FILE, "_Namespace", axioms=AX)
    q = Path()
    ns, A = fresh_ns(q)
    n = z3.Int("new_name")
    q.assume(prefix_free(A))
    avail = z3.Not(z3.Exists([_r], z3.And(A[_r], related(n, _r))))
    q.assume(avail)          # requires (what add_resource/add_window establish by calling is_available first)

    def c_is_available(ex_, recv, a, k, q_, node):
        return [(avail, q_)]          # the contract proved in verify_is_available, for the single query `name`
    ex.contracts["self.is_available"] = c_is_available
    ex.contracts["MemoryMap.Name"] = lambda ex_, recv, a, k, q_, node: [(NameV(n), q_)]
    q.env.update({"self": ns, "name": Opaque("name"), "obj": Opaque("obj")})
    outs = ex.run(fn, q)
    fv.paths = len(outs)
    for k, o in enumerate(outs):
        p = o.path
        A1 = p.ghost[("assigned", id(ns))]
        fv.add("no-exception", f"path{k}", p.pc, z3.BoolVal(o.kind == "return"))
        fv.add("adds-exactly-the-name", f"path{k}", p.pc, z3.ForAll([_r], A1[_r] == z3.Or(A[_r], _r == n)))
        fv.add("namespace-stays-prefix-free", f"path{k}", p.pc, prefix_free(A1))
    fv.add_engine_obligations(ex)
    return fv


def verify_name_new():
    """MemoryMap.Name.__new__: a str is wrapped into a 1-tuple; a non-empty tuple whose parts are non-empty strings or
    non-negative ints is accepted; everything else raises TypeError.  The loop over the parts is executed for ONE ARBITRARY
    part (it carries no state): `continue` = this part is fine, `raise` = the name is refused because of this part."""
    from vf.pyvc.engine import T_STR, T_INT, T_TUPLE
    fv = FnVerifier("MemoryMap.Name.__new__", [])
    fn = find_def(FILE, "MemoryMap.Name.__new__")
    for shape in ("str", "tuple", "other"):
        ex = Exec(FILE, "MemoryMap.Name", axioms=[])
        q = Path()
        name = Dyn("name"); q.assume(name.wf())
        q.assume({"str": name.tag == T_STR, "tuple": name.tag == T_TUPLE, "other": z3.And(name.tag != T_STR, name.tag != T_TUPLE)}[shape])
        part = Dyn("part"); q.assume(part.wf())
        n_parts = z3.Int("n_parts"); q.assume(n_parts >= 0)

        def loop(ex_, st_node, path):
            out = []
            seq = ex_.eval(st_node.iter, path)[0][0]
            elems = list(seq) if isinstance(seq, tuple) else [part]
            for el in elems:
                body = path.fork()
                body.env = dict(body.env); body.env[st_node.target.id] = el
                for kind, val, q2 in ex_.block(st_node.body, body):
                    if kind == "raise":
                        q2.ghost["rejected_part"] = el
                        out.append((kind, val, q2))
                    elif kind == "continue":
                        # justification of the exit assumption below: a part is let through only if it is valid
                        ex_.oblige("part-let-through-is-valid", q2, part_ok(el), st_node)
                    else:
                        ex_.unsupported(st_node, f"loop body ended with {kind}")
            # the loop finishes normally only if no part raised: every part took a `continue`
            done = path
            for el in elems:
                done.assume(part_ok(el))
            out.append(("fall", None, done))
            return out

        def part_ok(el):
            return z3.Or(z3.And(el.tag == T_STR, el.nonempty), z3.And(el.tag == T_INT, el.ival >= 0))
        ex.loop_invariants[0] = loop
        ex.contracts["tuple.__new__"] = lambda ex_, recv, a, k, q_, node: [(Opaque("Name instance"), q_)]
        orig_len = ex.b_len

        def b_len(args, kwargs, q_, e, orig_len=orig_len, name=name):
            if isinstance(args[0], Dyn):
                return [(z3.If(args[0].nonempty, n_parts + 1, z3.IntVal(0)), q_)]
            return orig_len(args, kwargs, q_, e)
        ex.b_len = b_len
        q.env.update({"cls": Opaque("cls"), "name": name})
        outs = ex.run(fn, q)
        fv.paths += len(outs)
        for k, o in enumerate(outs):
            p = o.path
            lab = f"{shape}:path{k}"
            if o.kind == "raise":
                fv.add("raises-only-TypeError", lab, p.pc, z3.BoolVal(o.exc == "TypeError"))
                rp = p.ghost.get("rejected_part")
                if rp is not None:
                    fv.add("a-part-that-causes-refusal-is-invalid", lab, p.pc, z3.Not(part_ok(rp)))
                else:
                    fv.add("refused-before-the-loop-only-if-not-a-nonempty-tuple-or-str", lab, p.pc,
                           z3.Or(z3.BoolVal(shape == "other"), z3.And(z3.BoolVal(shape == "tuple"), z3.Not(name.nonempty))))
            else:
                fv.add("no-foreign-object-accepted", lab, p.pc, z3.BoolVal(shape != "other"))
                if shape == "str":
                    fv.add("accepted-string-is-nonempty", lab, p.pc, name.nonempty)
                if shape == "tuple":
                    fv.add("accepted-tuple-is-nonempty-with-valid-parts", lab, p.pc, z3.And(name.nonempty, part_ok(part)))
        # the loop model itself: the derived exit assumption must be what the body enforces (checked by a cover + the two raises)
        fv.add_engine_obligations(ex)
    fv.add("cover:paths", "vacuity", [], z3.BoolVal(fv.paths >= 6))
    return fv


def verify_extend():
    """extend(other): requires every name of `other` to be available here (the internal assert) and `other` prefix-free;
    afterwards the key set is the union and the namespace is still prefix-free"""
    fv = FnVerifier("_Namespace.extend", AX)
    fn = find_def(FILE, "_Namespace.extend")
    ex = Exec(FILE, "_Namespace", axioms=AX)
    q = Path()
    ns, A = fresh_ns(q)
    other, B = fresh_ns(q, "other")
    q.assume(z3.And(prefix_free(A), prefix_free(B)))
    x, y = z3.Ints("ex ey")
    avail = z3.Not(z3.Exists([x, y], z3.And(B[x], A[y], related(x, y))))
    q.assume(avail)

    def c_is_available_ast(ex_, e, recv, q_):
        # is_available(*other.names()): the queries are exactly other's names -- pairwise unrelated because `other` is
        # prefix-free (the pre-condition of the contract proved in verify_is_available)
        return [(avail, q_)]
    c_is_available_ast.takes_ast = True
    ex.contracts["self.is_available"] = c_is_available_ast
    ex.isinstance_hook = lambda v, ty, node: z3.BoolVal(isinstance(v, SymObj) and v.cls == "_Namespace") if ty == "_Namespace" else None
    q.env.update({"self": ns, "other": other})
    outs = ex.run(fn, q)
    fv.paths = len(outs)
    for k, o in enumerate(outs):
        p = o.path
        A1 = p.ghost[("assigned", id(ns))]
        fv.add("no-exception", f"path{k}", p.pc, z3.BoolVal(o.kind == "return"))
        fv.add("key-set-is-the-union", f"path{k}", p.pc, z3.ForAll([_r], A1[_r] == z3.Or(A[_r], B[_r])))
        fv.add("namespace-stays-prefix-free", f"path{k}", p.pc, prefix_free(A1))
        fv.add("other-untouched", f"path{k}", p.pc, z3.BoolVal(p.ghost[("assigned", id(other))] is B))
    fv.add_engine_obligations(ex)
    return fv


ALL = [verify_is_available, verify_assign, verify_extend, verify_name_new]
