"""C18 (L1, MemoryMap level): the naming steps of MemoryMap.add_resource / add_window under contract (pyvc).

contracts/namespace.py proves _Namespace.is_available / assign / extend and MemoryMap.Name.__new__ against their contracts.
Here the REAL add_resource / add_window are executed with those contracts at the call sites (instead of the opaque
"availability is some boolean" model C02 uses), on maps whose namespace key set A is prefix-free (the representation
invariant of this layer; MemoryMap.__init__ establishes it with A empty: _Namespace.__init__ creates an empty dict).

Clauses, per path:
  accepted-name-is-valid-and-unrelated        a returning call means Name() accepted the name and no visible name is related
                                              to it (equal / prefix / extension);  for an anonymous window: no name of the
                                              window's namespace is related to any visible name
  visible-names-grow-by-exactly-the-name      A' = A + {name}           (named resource / named window)
  visible-names-absorb-the-window             A' = A + B                (anonymous window with namespace key set B)
  namespace-stays-prefix-free                 the invariant is preserved
  refusal-leaves-names-unchanged              on every raise A (and B) are untouched
  refusal-has-a-reason                        a raise that does not come from the placement (_compute_addr_range) happens only
                                              if the name is invalid or related to a visible name, or one of the documented
                                              non-naming refusals applies -- "a legal name is never refused"
  callee pre-conditions                       assign()/extend() are only reached with their internal assert satisfied
"""
import z3
from vf.pyvc.engine import (Exec, Path, Dyn, Rng, Tup, Opaque, NONE, Raised, SymObj, find_def, pow2, POW2_AXIOMS,
                            T_NONE, T_INT, T_COMPONENT, Unsupported)
from vf.pyvc.driver import FnVerifier
from . import memory_model as mm
from . import memory_c02 as c02
from .namespace import NameV, related, prefix_free, BoolArr, AX as NAME_AX, _r

FILE = "amaranth_soc/memory.py"
AX = POW2_AXIOMS + NAME_AX


def assigned(q, m):
    return q.ghost[("assigned", id(m))]


class NsModel:
    """`m._namespace` with the contracts PROVED in contracts/namespace.py at the call sites"""
    def __init__(self, owner):
        self.owner = owner

    def _avail_one(self, q, n):
        A = assigned(q, self.owner)
        return z3.Not(z3.Exists([_r], z3.And(A[_r], related(n, _r))))

    def call_is_available(self, ex, recv, args, kwargs, q, node):
        if len(args) != 1 or not isinstance(args[0], NameV):
            raise Unsupported("is_available with other than one validated name")
        b = z3.FreshBool("available")
        q.assume(b == self._avail_one(q, args[0].ident))
        q.ghost["avail"] = b
        return [(b, q)]

    def call_assign(self, ex, recv, args, kwargs, q, node):
        name, obj = args
        if not isinstance(name, NameV):
            raise Unsupported("assign() of an unvalidated name")
        # requires of assign (its internal assert): the name is available
        ex.oblige("pre:_Namespace.assign:name-available", q, self._avail_one(q, name.ident), node)
        A = assigned(q, self.owner)
        q.ghost[("assigned", id(self.owner))] = z3.Store(A, name.ident, True)
        q.writes.append((self.owner.name, "_namespace"))
        q.ghost[("ns_version", id(self.owner))] = q.ghost.get(("ns_version", id(self.owner)), 0) + 1
        return [(NONE, q)]

    def call_extend(self, ex, recv, args, kwargs, q, node):
        other = args[0]
        if not (isinstance(other, SymObj) and isinstance(other.model, NsModel)):
            raise Unsupported("extend() with something that is not a namespace")
        A, B = assigned(q, self.owner), assigned(q, other.model.owner)
        x, y = z3.Ints("nx ny")
        ex.oblige("pre:_Namespace.extend:all-names-available", q, z3.Not(z3.Exists([x, y], z3.And(B[x], A[y], related(x, y)))), node)
        ex.oblige("pre:_Namespace.extend:other-prefix-free", q, prefix_free(B), node)
        new = z3.FreshConst(BoolArr, "assigned_after_extend")
        q.assume(z3.ForAll([_r], new[_r] == z3.Or(A[_r], B[_r])))
        q.ghost[("assigned", id(self.owner))] = new
        q.writes.append((self.owner.name, "_namespace"))
        q.ghost[("ns_version", id(self.owner))] = q.ghost.get(("ns_version", id(self.owner)), 0) + 1
        return [(NONE, q)]

    def call_names(self, ex, recv, args, kwargs, q, node):
        return [(("names-of", self.owner), q)]


def name_contract(ex, recv, args, kwargs, q, node):
    """MemoryMap.Name(x) (proved in namespace.verify_name_new): a validated Name, or TypeError"""
    ok = z3.FreshBool("name_valid")
    bad = q.fork(); bad.assume(z3.Not(ok)); bad.ghost["name_valid"] = ok
    q.assume(ok); q.ghost["name_valid"] = ok
    n = z3.FreshInt("name_id")
    q.ghost["the_name"] = n
    return [(NameV(n), q), (Raised("TypeError"), bad)]


def c_car(ex, recv, args, kwargs, q, node):
    outs = c02.c_compute_addr_range(ex, recv, args, kwargs, q, node)
    for v, p in outs:
        if isinstance(v, Raised):
            p.ghost["placement_refused"] = True
    return outs


# ---- origin-of-names layer (for "the reported paths are pairwise distinct") -------------------------------------------------
# Ghost/abstract state of a map m, next to the visible-name set A:
#     RN[r]   the name recorded with resource r        (_resources[id(r)][1])
#     WN[w]   the name recorded with window w, WAn[w]  whether it is None        (_windows[id(w)][1])
#     Src[x]  GHOST: the direct origin (resource / window identity) of visible name x
#     NSc(c, x)  name x is visible in the map with identity c (a frozen child's namespace)
# Invariant `origins`:  every resource's name is visible and originates from it; likewise every named window's name; every
# name of an anonymous window's namespace is visible and originates from that window.  With prefix-freeness this makes the first
# path elements of resources behind different range entries different names.
IntArr = z3.ArraySort(z3.IntSort(), z3.IntSort())
NSc = z3.Function("NSc", z3.IntSort(), z3.IntSort(), z3.BoolSort())
FN = z3.Function("FirstNameOfPath", z3.IntSort(), z3.IntSort(), z3.IntSort())      # (child map, resource) -> first path element


class Origins:
    def __init__(self, tag):
        self.RN, self.WN, self.Src = (z3.Const(f"{f}_{tag}", IntArr) for f in ("RN", "WN", "Src"))
        self.WAn = z3.Const(f"WAn_{tag}", BoolArr)

    def updated(self, **kw):
        o = Origins.__new__(Origins)
        for f in ("RN", "WN", "Src", "WAn"):
            setattr(o, f, kw.get(f, getattr(self, f)))
        return o


def origins_parts(v, A, o):
    r, w, x = z3.Ints("or_r or_w or_x")
    return [
        ("resource-names-visible-and-own", z3.ForAll([r], z3.Implies(v.isres[r], z3.And(A[o.RN[r]], o.Src[o.RN[r]] == r)))),
        ("window-names-visible-and-own", z3.ForAll([w], z3.Implies(z3.And(v.iswin[w], z3.Not(o.WAn[w])),
                                                                   z3.And(A[o.WN[w]], o.Src[o.WN[w]] == w)))),
        ("absorbed-names-visible-and-from-their-window", z3.ForAll([w, x], z3.Implies(z3.And(v.iswin[w], o.WAn[w], NSc(w, x)),
                                                                                      z3.And(A[x], o.Src[x] == w)))),
    ]


def origins(v, A, o):
    return z3.And(*[f for _, f in origins_parts(v, A, o)])


def naming_map(name, q):
    m, h = mm.new_map(name, q)
    q.ghost[("handles", id(m))] = h
    m.init_fields["_namespace"] = SymObj("_Namespace", f"{name}._namespace", model=NsModel(m))
    A = z3.Const(f"visible_names_{name}", BoolArr)
    q.ghost[("assigned", id(m))] = A
    q.assume(prefix_free(A))
    o = Origins(name)
    h["origins"] = o
    h["origins_inv"] = origins(h["view"], A, o)        # opt-in premise
    return m, h, A


def base_exec():
    ex = c02.base_exec()
    ex.axioms = AX
    ex.contracts["MemoryMap.Name"] = name_contract
    ex.contracts["self._compute_addr_range"] = c_car
    return ex


def same_names(p, m, A):
    return z3.BoolVal(assigned(p, m) is A)


def verify_add_resource_naming():
    fv = FnVerifier("MemoryMap.add_resource[naming]", AX)
    fn = find_def(FILE, "MemoryMap.add_resource")
    ex = base_exec()
    q = Path()
    self_, h, A = naming_map("self", q)
    resource, size, addr, alignment = Dyn("resource"), Dyn("size"), Dyn("addr"), Dyn("alignment")
    q.assume(z3.And(resource.wf(), size.wf(), addr.wf(), alignment.wf()))
    view0 = h["view"]
    q.assume(z3.Implies(resource.tag == T_COMPONENT, z3.Not(view0.iswin[resource.ident])))
    q.env.update({"self": self_, "resource": resource, "name": Opaque("name"), "size": size, "addr": addr, "alignment": alignment})
    outs = ex.run(fn, q)
    fv.paths = len(outs)
    n_ret = n_name_refusals = 0
    for k, o in enumerate(outs):
        p = o.path
        lab = f"path{k}"
        valid, avail, n = p.ghost.get("name_valid"), p.ghost.get("avail"), p.ghost.get("the_name")
        A1 = assigned(p, self_)
        if o.kind == "raise":
            fv.add("refusal-leaves-names-unchanged", lab, p.pc, same_names(p, self_, A))
            if p.ghost.get("placement_refused"):
                continue
            other = z3.Or(h["frozen"], resource.tag != T_COMPONENT, view0.isres[resource.ident],
                          z3.And(alignment.tag != T_NONE, z3.Not(z3.And(alignment.tag == T_INT, alignment.ival >= 0))))
            naming = z3.Or(*([z3.Not(valid)] if valid is not None else []), *([z3.Not(avail)] if avail is not None else []))
            fv.add("refusal-has-a-reason", lab, p.pc, z3.Or(other, naming))
            if avail is not None:
                n_name_refusals += 1
            continue
        n_ret += 1
        fv.add("accepted-name-is-valid-and-unrelated", lab, p.pc,
               z3.And(valid, avail, z3.Not(z3.Exists([_r], z3.And(A[_r], related(n, _r))))) if valid is not None and avail is not None else z3.BoolVal(False))
        fv.add("visible-names-grow-by-exactly-the-name", lab, p.pc, z3.ForAll([_r], A1[_r] == z3.Or(A[_r], _r == n)) if n is not None else z3.BoolVal(False))
        fv.add("namespace-stays-prefix-free", lab, p.pc, prefix_free(A1))
        nm = p.ghost.get("names", {}).get((id(self_), str(resource.ident)))
        fv.add("resource-recorded-under-the-validated-name", lab, p.pc, z3.BoolVal(isinstance(nm, NameV) and n is not None and nm.ident is n))
        if n is not None:
            o0 = h["origins"]
            o1 = o0.updated(RN=z3.Store(o0.RN, resource.ident, n), Src=z3.Store(o0.Src, n, resource.ident))     # ghost update
            v1 = mm.view_of(p, self_)
            grow = z3.ForAll([_r], A1[_r] == z3.Or(A[_r], _r == n))
            pre = list(p.pc) + [h["origins_inv"], grow, z3.Not(A[n])]          # cuts: proved above (n unrelated => not visible)
            fv.add("new-name-was-not-visible", lab, list(p.pc), z3.Not(A[n]))
            for cn, f in origins_parts(v1, A1, o1):
                fv.add("origins-preserved:" + cn, lab, pre, f)
            if not getattr(fv, "_canary", False):
                fv._canary = True
                fv.add("canary:origins-premises-consistent", lab, pre, z3.BoolVal(False), expect_sat="not-unsat")
    fv.add("cover:accepting-and-name-refusing-paths-exist", "vacuity", [], z3.BoolVal(n_ret > 0 and n_name_refusals > 0))
    fv.add_engine_obligations(ex)
    return fv


def c_is_available_star(ex, e, recv, q):
    """self._namespace.is_available(*queries, reasons=reasons) in add_window: `queries` is either the 1-tuple of the validated
    window name or window._namespace.names().  Contract of is_available for pairwise unrelated queries (namespace.py)."""
    for qs, q2 in ex.eval(e.args[0].value, q):
        self_ = q2.env["self"]
        A = assigned(q2, self_)
        b = z3.FreshBool("available")
        if isinstance(qs, tuple) and len(qs) == 2 and qs[0] == "names-of":
            B = assigned(q2, qs[1])
            x, y = z3.Ints("nx ny")
            ex.oblige("pre:_Namespace.is_available:queries-pairwise-unrelated", q2, prefix_free(B), e)
            q2.assume(b == z3.Not(z3.Exists([x, y], z3.And(B[x], A[y], related(x, y)))))
        elif isinstance(qs, (tuple, Tup)) and len(tuple(qs)) == 1 and isinstance(tuple(qs)[0], NameV):
            n = tuple(qs)[0].ident
            q2.assume(b == z3.Not(z3.Exists([_r], z3.And(A[_r], related(n, _r)))))
        else:
            raise Unsupported(f"is_available(*{qs!r})")
        q2.ghost["avail"] = b
        return [(b, q2)]
    raise Unsupported("is_available(*queries): queries not evaluable")


c_is_available_star.takes_ast = True


def verify_add_window_naming():
    fv = FnVerifier("MemoryMap.add_window[naming]", AX)
    fn = find_def(FILE, "MemoryMap.add_window")
    n_named = n_anon = n_name_refusals = 0
    ex = base_exec()
    ex.contracts["self._namespace.is_available"] = c_is_available_star
    ex.contracts["MemoryMap.freeze"] = c02.c_inline_method("MemoryMap.freeze")
    q = Path()
    self_, h, A = naming_map("self", q)
    view0 = h["view"]
    name, addr, sparse = Dyn("name"), Dyn("addr"), Dyn("sparse")
    q.assume(z3.And(name.wf(), addr.wf(), sparse.wf()))
    window, wh, B = naming_map("window", q)
    q.assume(z3.Not(view0.isres[window.ref]))
    q.env.update({"self": self_, "window": window, "name": name, "addr": addr, "sparse": sparse})
    outs = ex.run(fn, q)
    fv.paths = len(outs)
    x, y = z3.Ints("nx ny")
    for k, o in enumerate(outs):
        p = o.path
        lab = f"path{k}"
        valid, avail, n = p.ghost.get("name_valid"), p.ghost.get("avail"), p.ghost.get("the_name")
        A1 = assigned(p, self_)
        fv.add("window-namespace-untouched", lab, p.pc, same_names(p, window, B))
        if o.kind == "raise":
            fv.add("refusal-leaves-names-unchanged", lab, p.pc, same_names(p, self_, A))
            # "raises and changes nothing": the refused window itself must still accept names afterwards
            fv.add("refusal-leaves-the-window-as-open-as-it-was", lab, p.pc, ex.getattr(window, "_frozen", p, None)[0][0] == wh["frozen"])
            if p.ghost.get("placement_refused"):
                continue
            dw, wdw, wal = h["dw"], wh["dw"], wh["al"]
            dense = z3.Not(ex.truth(sparse))
            tests = p.ghost.get("pow2tests", ())
            other = z3.Or(h["frozen"], view0.iswin[window.ref], wdw > dw, z3.And(wdw != dw, sparse.tag == T_NONE),
                          z3.And(wdw != dw, dense, dw % wdw != 0), *[r != 0 for _, r in tests], *[xx > pow2(wal) for xx, _ in tests])
            naming = z3.Or(*([z3.Not(valid)] if valid is not None else []), *([z3.Not(avail)] if avail is not None else []))
            fv.add("refusal-has-a-reason", lab, p.pc, z3.Or(other, naming))
            if avail is not None:
                n_name_refusals += 1
            continue
        if n is not None:
            n_named += 1
            fv.add("accepted-name-is-valid-and-unrelated", lab, p.pc,
                   z3.And(name.tag != T_NONE, valid, avail, z3.Not(z3.Exists([_r], z3.And(A[_r], related(n, _r))))) if avail is not None else z3.BoolVal(False))
            fv.add("visible-names-grow-by-exactly-the-name", lab, p.pc, z3.ForAll([_r], A1[_r] == z3.Or(A[_r], _r == n)))
            nm = p.ghost.get("names", {}).get((id(self_), str(window.ref)))
            fv.add("window-recorded-under-the-validated-name", lab, p.pc, z3.BoolVal(isinstance(nm, NameV) and nm.ident is n))
            o0 = h["origins"]
            o1 = o0.updated(WN=z3.Store(o0.WN, window.ref, n), WAn=z3.Store(o0.WAn, window.ref, False), Src=z3.Store(o0.Src, n, window.ref))
            v1 = mm.view_of(p, self_)
            grow = z3.ForAll([_r], A1[_r] == z3.Or(A[_r], _r == n))
            fv.add("new-name-was-not-visible", lab, list(p.pc), z3.Not(A[n]))
            pre = list(p.pc) + [h["origins_inv"], grow, z3.Not(A[n])]
            for cn, f in origins_parts(v1, A1, o1):
                fv.add("origins-preserved:" + cn, lab, pre, f)
        else:
            n_anon += 1
            fv.add("anonymous-window-accepted-only-if-none-of-its-names-is-related-to-a-visible-name", lab, p.pc,
                   z3.And(name.tag == T_NONE, avail, z3.Not(z3.Exists([x, y], z3.And(B[x], A[y], related(x, y))))) if avail is not None else z3.BoolVal(False))
            fv.add("visible-names-absorb-the-window", lab, p.pc, z3.ForAll([_r], A1[_r] == z3.Or(A[_r], B[_r])))
            nm = p.ghost.get("names", {}).get((id(self_), str(window.ref)))
            fv.add("window-recorded-as-anonymous", lab, p.pc,
                   z3.BoolVal(True) if nm is NONE else (nm.tag == T_NONE if isinstance(nm, Dyn) else z3.BoolVal(False)))
            o0 = h["origins"]
            newsrc = z3.FreshConst(IntArr, "Src_after")
            o1 = o0.updated(WAn=z3.Store(o0.WAn, window.ref, True), Src=newsrc)
            v1 = mm.view_of(p, self_)
            absorb = z3.ForAll([_r], A1[_r] == z3.Or(A[_r], B[_r]))
            disjoint = z3.ForAll([_r], z3.Not(z3.And(A[_r], B[_r])))
            fv.add("absorbed-names-were-not-visible", lab, list(p.pc), disjoint)
            pre = list(p.pc) + [h["origins_inv"], absorb, disjoint,
                                z3.ForAll([_r], newsrc[_r] == z3.If(B[_r], window.ref, o0.Src[_r])),            # ghost update
                                z3.ForAll([_r], NSc(window.ref, _r) == B[_r])]                                # definition of NSc for this (now frozen) window
            for cn, f in origins_parts(v1, A1, o1):
                fv.add("origins-preserved:" + cn, lab, pre, f)
            if not getattr(fv, "_canary", False):
                fv._canary = True
                fv.add("canary:origins-premises-consistent", lab, pre, z3.BoolVal(False), expect_sat="not-unsat")
        fv.add("namespace-stays-prefix-free", lab, p.pc, prefix_free(A1))
    fv.add("cover:named-anonymous-and-name-refusing-paths-exist", "vacuity", [], z3.BoolVal(n_named > 0 and n_anon > 0 and n_name_refusals > 0))
    fv.add_engine_obligations(ex)
    return fv


def verify_all_resources_paths():
    """all_resources(): the FIRST element of every reported path is a visible name of this map whose origin is the range entry
    the resource was reached through (so this map keeps, towards ITS parent, the promise it assumes of its children)."""
    from . import memory_c03 as c03
    state = {}

    def pre_hook(q, self_, h, named):
        A = z3.Const("visible_names_self", BoolArr)
        o = Origins("self")
        state.update(A=A, o=o)
        q.assume(z3.And(prefix_free(A), origins(h["view"], A, o)))

    def yield_hook(fv, lab, p, pth, idx, ci, named, self_, h):
        A, o, v = state["A"], state["o"], h["view"]
        ent = v.V[idx]
        pre = list(p.pc)
        if ci is None:
            ok = isinstance(pth, tuple) and len(pth) == 1 and isinstance(pth[0], mm.NameOf)
            F = o.RN[pth[0].ident] if ok else None
        elif named:
            ok = isinstance(pth, tuple) and len(pth) == 2 and isinstance(pth[0], mm.NameOf)
            F = o.WN[pth[0].ident] if ok else None
            pre.append(z3.Not(o.WAn[ent]))          # this case: the stored window name is a Name (IdDictModel.window_name_case)
        else:
            ok = pth is ci.path
            F = FN(ent, ci.resource.ident)
            # the child's promise (this same clause, one level down): the first element of its path is visible in the child
            pre += [o.WAn[ent], NSc(ent, F)]
        fv.add("first-path-element-is-a-visible-name-originating-from-the-range-entry", lab, pre,
               z3.And(A[F], o.Src[F] == ent) if F is not None else z3.BoolVal(False))
        if ci is not None and not named and not getattr(fv, "_canary", False):
            fv._canary = True
            fv.add("canary:origins-premises-consistent", lab, pre, z3.BoolVal(False), expect_sat="not-unsat")
    fv = c03.verify_all_resources("MemoryMap.all_resources[paths]", pre_hook, yield_hook, only_hook=True)
    # two resources reached through DIFFERENT range entries have different, hence (prefix-freeness) unrelated first names
    A, o = state["A"], state["o"]
    e1, e2, f1, f2 = z3.Ints("e1 e2 f1 f2")
    fv.add("paths-through-different-entries-start-with-unrelated-names", "lemma",
           [prefix_free(A), A[f1], A[f2], o.Src[f1] == e1, o.Src[f2] == e2, e1 != e2], z3.And(f1 != f2, z3.Not(related(f1, f2))))
    return fv


ALL = [verify_add_resource_naming, verify_add_window_naming, verify_all_resources_paths]
