"""C06 / C07 / C01 (pattern lemma): MemoryMap.window_patterns(), body re-read from /repo on every run.

The loop body is evaluated for ONE ARBITRARY ratio-1 window (window_start, window.addr_width) of a map of width
self.addr_width, with an ABSTRACT STRING domain: f"{v:0{c}b}" is Bin(v, c) (binary digits of v, zero-padded to c, longer if
v needs more digits), "-" * n is Wild(n), + is concatenation.  Case-pattern semantics (ASSUMED Amaranth contract): a pattern
must be exactly as long as the switched value; a digit matches that bit, '-' matches anything.
Integers are 32-bit bit-vectors, exact for widths <= 15 (stated bound; exhaustive within -> bounded in WIDTH).
Lemmas, for a window with start % 2**w == 0 and start + 2**w <= 2**aw (what add_window hands out for ratio-1 windows placed
implicitly or at explicit multiples of the window size -- the property's domain):
   pattern-has-the-width-of-the-address     len(pattern) == self.addr_width      (else Amaranth refuses the Case)
   pattern-matches-exactly-the-window       a matches pattern  <=>  start <= a < start + 2**w        for every a < 2**aw
"""
import ast
import z3
from vf.pyvc.engine import find_def, Unsupported
from vf.pyvc.driver import FnVerifier

FILE = "amaranth_soc/memory.py"
W = 32
BOUND = 15


def bv(x):
    return z3.BitVecVal(x, W)


class Pat:
    """abstract pattern: segments MSB-first, each ('bin', value, minwidth) | ('wild', n)"""
    def __init__(self, segs):
        self.segs = segs

    def __add__(self, other):
        return Pat(self.segs + other.segs)


def verify_window_patterns():
    fv = FnVerifier("MemoryMap.window_patterns", [])
    fn = find_def(FILE, "MemoryMap.window_patterns")
    loop = [st for st in fn.body if isinstance(st, ast.For)]
    if len(loop) != 1:
        raise Unsupported(f"{FILE}: window_patterns is no longer a single loop")
    loop = loop[0]
    if ast.unparse(loop.iter) != "self.windows()":
        raise Unsupported(f"{FILE}:{loop.lineno}: window_patterns iterates {ast.unparse(loop.iter)}")
    tgt = ast.unparse(loop.target)
    aw, w, start, stop, a = [z3.BitVec(n, W) for n in ("aw", "w", "window_start", "window_stop", "a")]
    env = {"self.addr_width": aw, "window.addr_width": w, "window_ratio": bv(1)}
    names = [n.id for n in ast.walk(loop.target) if isinstance(n, ast.Name)]
    if not {"window", "window_start"} <= set(names):
        raise Unsupported(f"{FILE}:{loop.lineno}: loop target {tgt}")
    env["window_start"] = start; env["window_stop"] = stop
    env["window"] = "the window"; env["window_name"] = "its name"
    pre = [aw >= 1, aw <= BOUND, w >= 1, w <= aw, start >= 0, start <= (bv(1) << aw), start + (bv(1) << w) <= (bv(1) << aw),
           (start & ((bv(1) << w) - 1)) == 0, stop == start + (bv(1) << w), a >= 0, a < (bv(1) << aw)]
    yields = []

    def ev(e, env, pc):
        if isinstance(e, ast.Constant):
            if isinstance(e.value, int):
                return bv(e.value)
            if isinstance(e.value, str):
                if e.value == "":
                    return Pat([])
                if set(e.value) == {"-"}:
                    return Pat([("wild", bv(len(e.value)))])
                raise Unsupported(f"string literal {e.value!r}")
        if isinstance(e, ast.Name):
            return env[e.id]
        if isinstance(e, ast.Attribute):
            k = ast.unparse(e)
            if k in env:
                return env[k]
            raise Unsupported(f"{FILE}:{e.lineno}: {k}")
        if isinstance(e, ast.JoinedStr):
            if len(e.values) == 1 and isinstance(e.values[0], ast.FormattedValue):
                fvv = e.values[0]
                spec = fvv.format_spec
                if (spec is not None and len(spec.values) == 3 and isinstance(spec.values[0], ast.Constant) and spec.values[0].value == "0"
                        and isinstance(spec.values[1], ast.FormattedValue) and isinstance(spec.values[2], ast.Constant) and spec.values[2].value == "b"):
                    return Pat([("bin", ev(fvv.value, env, pc), ev(spec.values[1].value, env, pc))])
            raise Unsupported(f"{FILE}:{e.lineno}: f-string {ast.unparse(e)}")
        if isinstance(e, ast.BinOp):
            l, r = ev(e.left, env, pc), ev(e.right, env, pc)
            if isinstance(l, Pat) and isinstance(r, Pat) and isinstance(e.op, ast.Add):
                return l + r
            if isinstance(l, Pat) and isinstance(e.op, ast.Mult):
                if len(l.segs) == 1 and l.segs[0][0] == "wild":
                    return Pat([("wild", l.segs[0][1] * r)])
                raise Unsupported("string repetition")
            if isinstance(l, Pat) or isinstance(r, Pat):
                raise Unsupported(f"{FILE}:{e.lineno}: string operator")
            if isinstance(e.op, ast.Sub): return l - r
            if isinstance(e.op, ast.Add): return l + r
            if isinstance(e.op, ast.RShift): return l >> r
            if isinstance(e.op, ast.LShift): return l << r
            if isinstance(e.op, ast.FloorDiv): return z3.UDiv(l, r)
            if isinstance(e.op, ast.BitAnd): return l & r
            raise Unsupported(f"{FILE}:{e.lineno}: operator {type(e.op).__name__}")
        if isinstance(e, ast.Compare) and len(e.ops) == 1:
            l, r = ev(e.left, env, pc), ev(e.comparators[0], env, pc)
            return {ast.Gt: l > r, ast.GtE: l >= r, ast.Lt: l < r, ast.LtE: l <= r, ast.Eq: l == r, ast.NotEq: l != r}[type(e.ops[0])]
        if isinstance(e, ast.Tuple):
            return tuple(ev(x, env, pc) for x in e.elts)
        raise Unsupported(f"{FILE}:{getattr(e, 'lineno', '?')}: {ast.unparse(e)[:60]}")

    def block(stmts, env, pc):
        for i, st in enumerate(stmts):
            if isinstance(st, ast.Assign) and len(st.targets) == 1 and isinstance(st.targets[0], ast.Name):
                env = dict(env); env[st.targets[0].id] = ev(st.value, env, pc)
            elif isinstance(st, ast.If):
                c = ev(st.test, env, pc)
                block(st.body + stmts[i + 1:], env, pc + [c])
                block(st.orelse + stmts[i + 1:], env, pc + [z3.Not(c)])
                return
            elif isinstance(st, ast.Expr) and isinstance(st.value, ast.Yield):
                yields.append((ev(st.value.value, env, pc), pc))
            elif isinstance(st, ast.Expr) and isinstance(st.value, ast.Constant):
                pass
            else:
                raise Unsupported(f"{FILE}:{st.lineno}: statement {type(st).__name__} in window_patterns")

    block(loop.body, env, [])
    fv.paths = len(yields)
    for k, (val, pc) in enumerate(yields):
        if not (isinstance(val, tuple) and len(val) == 3 and isinstance(val[2], tuple) and isinstance(val[2][0], Pat)):
            raise Unsupported("yield shape")
        pat = val[2][0]
        # length and match predicate of the abstract pattern
        length = bv(0)
        fits = []
        # walk from the LSB end: segments are MSB-first
        pos = bv(0)
        match = []
        for seg in reversed(pat.segs):
            if seg[0] == "wild":
                length = length + seg[1]; pos = pos + seg[1]
            else:
                _, v, c = seg
                fits.append(z3.And(v >= 0, z3.ULT(v, bv(1) << c)))       # otherwise bin() needs more than c digits
                match.append(z3.LShR(a, pos) & ((bv(1) << c) - 1) == v)
                length = length + c; pos = pos + c
        lab = f"yield{k}"
        H = pre + pc
        fv.add("constant-part-fits-its-field", lab, H, z3.And(*fits) if fits else z3.BoolVal(True))
        fv.add("pattern-has-the-width-of-the-address", lab, H, length == aw)
        fv.add("pattern-matches-exactly-the-window", lab, H,
               (z3.And(*match) if match else z3.BoolVal(True)) == z3.And(a >= start, a < start + (bv(1) << w)))
        fv.add("ratio-passed-through", lab, H, val[2][1] == bv(1))
    fv.add("cover:yields", "vacuity", [], z3.BoolVal(len(yields) >= 2))
    return fv


def replay_patterns(model):
    """directed search on the REAL MemoryMap.window_patterns(): maps of many widths, one window of every size at several
    multiples of its size, probe addresses at the block boundaries and with high bits set; the pattern must have the map's width
    and match exactly the window's block (the z3 model itself may give pow2 a non-power value: only ground facts are supplied)"""
    from amaranth_soc.memory import MemoryMap
    for aw in (1, 2, 3, 5, 8, 12, 16, 17, 24, 32, 33, 48, 53, 54, 56, 63, 64, 70):
        for w in sorted({0, 1, 2, aw // 2, aw - 1, aw} & set(range(0, aw + 1))):
            blocks = 1 << (aw - w)
            for idx in sorted({0, 1, blocks // 2, blocks // 2 + 1, blocks - 2, blocks - 1, (blocks // 3) | 1} & set(range(blocks))):
                start = idx << w
                m = MemoryMap(addr_width=aw, data_width=8)
                win = MemoryMap(addr_width=max(w, 1), data_width=8) if w >= 1 else None
                if win is None:
                    continue
                try:
                    m.add_window(win, addr=start)
                except ValueError:
                    continue
                got = list(m.window_patterns())
                if len(got) != 1:
                    return True, {"input": f"MemoryMap({aw}) with one {w}-bit window at {start:#x}", "observed": f"{len(got)} patterns"}
                pat = got[0][2][0]
                if len(pat) != aw:
                    return True, {"input": f"MemoryMap(addr_width={aw}) with one {w}-bit window at {start:#x}", "observed": f"pattern {pat!r} has {len(pat)} characters"}
                for a_ in sorted({start - 1, start, start + (1 << w) - 1, start + (1 << w), start ^ (1 << (aw - 1)), start | 1, start + (1 << w) // 2} & set(range(1 << aw)) if aw <= 20
                                 else {x for x in (start - 1, start, start + (1 << w) - 1, start + (1 << w), start ^ (1 << (aw - 1)), start | 1) if 0 <= x < 1 << aw}):
                    bits = format(a_, f"0{aw}b")
                    matches = all(p_ in ("-", b_) for p_, b_ in zip(pat, bits))
                    if matches != (start <= a_ < start + (1 << w)):
                        return True, {"input": f"MemoryMap(addr_width={aw}), one window of {w} address bits at {start:#x}; address {a_:#x}",
                                      "observed": f"pattern {pat!r} {'matches' if matches else 'does not match'} the address, which is "
                                                  f"{'inside' if start <= a_ < start + (1 << w) else 'outside'} the window"}
    return False, {"searched": "address widths 1..70, windows of 1..aw bits at 7 block positions, 6-7 probe addresses each: no failing input"}


def verify_window_patterns_all_widths():
    """The same loop body over MATHEMATICAL INTEGERS, for every address width (no bound).
    Encoding of Python's semantics: `x >> n` is floor(x / 2**n), `1 << n` is 2**n, `//` by a positive divisor is floor division;
    2**n is the uninterpreted `pow2` with three GROUND facts about the terms of this path: pow2(w) > 0, pow2(aw - w) > 0 and
    pow2(aw) == pow2(w) * pow2(aw - w) (Lean: Pow2.lean pow2_pos, Align.lean pow2_add).  Everything else is integer arithmetic
    with a symbolic divisor, which z3 decides here (nonlinear, but two variables).  Case-pattern semantics as above: the digit
    field Bin(v, c) at bit offset p matches a iff floor(a / 2**p) mod 2**c == v."""
    from vf.pyvc.engine import pow2
    fv = FnVerifier("MemoryMap.window_patterns[all widths]", [])
    fv.default_replay = replay_patterns
    fn = find_def(FILE, "MemoryMap.window_patterns")
    loop = [st for st in fn.body if isinstance(st, ast.For)]
    if len(loop) != 1 or ast.unparse(loop[0].iter) != "self.windows()":
        raise Unsupported(f"{FILE}: window_patterns is no longer a single loop over self.windows()")
    loop = loop[0]
    names = [n.id for n in ast.walk(loop.target) if isinstance(n, ast.Name)]
    if not {"window", "window_start"} <= set(names):
        raise Unsupported(f"{FILE}:{loop.lineno}: loop target {ast.unparse(loop.target)}")
    aw, w, start, stop, a = z3.Ints("aw w window_start window_stop a")
    env = {"self.addr_width": aw, "window.addr_width": w, "window_ratio": z3.IntVal(1), "window_start": start, "window_stop": stop,
           "window": "the window", "window_name": "its name"}
    P, Q, T = pow2(w), pow2(aw - w), pow2(aw)
    facts = [P > 0, Q > 0, T == P * Q, pow2(z3.IntVal(0)) == 1]
    # what add_window hands out for a ratio-1 window inside the property's domain: a block of the window's size at a multiple of it
    pre = [aw >= 1, w >= 0, w <= aw, start >= 0, start % P == 0, start + P <= T, stop == start + P, a >= 0, a < T]
    yields = []
    I = z3.IntVal

    def ev(e, env, pc):
        if isinstance(e, ast.Constant):
            if isinstance(e.value, bool):
                raise Unsupported("bool literal")
            if isinstance(e.value, int):
                return I(e.value)
            if isinstance(e.value, str):
                if e.value == "":
                    return Pat([])
                if set(e.value) == {"-"}:
                    return Pat([("wild", I(len(e.value)))])
                raise Unsupported(f"string literal {e.value!r}")
        if isinstance(e, ast.Name):
            if e.id not in env:
                raise Unsupported(f"{FILE}:{e.lineno}: name {e.id}")
            return env[e.id]
        if isinstance(e, ast.Attribute):
            k = ast.unparse(e)
            if k in env:
                return env[k]
            raise Unsupported(f"{FILE}:{e.lineno}: {k}")
        if isinstance(e, ast.JoinedStr):
            if len(e.values) == 1 and isinstance(e.values[0], ast.FormattedValue):
                fvv = e.values[0]
                spec = fvv.format_spec
                if (spec is not None and len(spec.values) == 3 and isinstance(spec.values[0], ast.Constant) and spec.values[0].value == "0"
                        and isinstance(spec.values[1], ast.FormattedValue) and isinstance(spec.values[2], ast.Constant) and spec.values[2].value == "b"):
                    v = ev(fvv.value, env, pc)
                    if not isinstance(v, z3.ArithRef):
                        raise Unsupported(f"{FILE}:{e.lineno}: formatted value is not an integer")
                    return Pat([("bin", v, ev(spec.values[1].value, env, pc))])
            raise Unsupported(f"{FILE}:{e.lineno}: f-string {ast.unparse(e)}")
        if isinstance(e, ast.BinOp):
            l, r = ev(e.left, env, pc), ev(e.right, env, pc)
            if isinstance(l, Pat) and isinstance(r, Pat) and isinstance(e.op, ast.Add):
                return l + r
            if isinstance(l, Pat) and isinstance(e.op, ast.Mult) and isinstance(r, z3.ArithRef):
                if len(l.segs) == 1 and l.segs[0][0] == "wild":
                    return Pat([("wild", l.segs[0][1] * r)])
                raise Unsupported("string repetition")
            if not (isinstance(l, z3.ArithRef) and isinstance(r, z3.ArithRef)):
                raise Unsupported(f"{FILE}:{e.lineno}: operator on {type(l).__name__}, {type(r).__name__}")
            if isinstance(e.op, ast.Sub): return l - r
            if isinstance(e.op, ast.Add): return l + r
            if isinstance(e.op, ast.Mult): return l * r
            if isinstance(e.op, ast.RShift): return l / pow2(r)                    # floor division: z3 Int `/` with a positive divisor
            if isinstance(e.op, ast.LShift): return pow2(r) if z3.is_int_value(l) and l.as_long() == 1 else l * pow2(r)
            if isinstance(e.op, ast.FloorDiv): return l / r
            if isinstance(e.op, ast.Mod): return l % r
            if isinstance(e.op, ast.BitAnd) and z3.is_int_value(z3.simplify(r)) and (z3.simplify(r).as_long() + 1) & z3.simplify(r).as_long() == 0 \
                    and z3.simplify(r).as_long() >= 0:
                return l % (z3.simplify(r).as_long() + 1)                            # x & (2**n - 1) == x mod 2**n (all ints)
            raise Unsupported(f"{FILE}:{e.lineno}: operator {type(e.op).__name__} (only exact integer operators are modelled)")
        if isinstance(e, ast.Compare) and len(e.ops) == 1:
            l, r = ev(e.left, env, pc), ev(e.comparators[0], env, pc)
            if type(e.ops[0]) not in (ast.Gt, ast.GtE, ast.Lt, ast.LtE, ast.Eq, ast.NotEq):
                raise Unsupported(f"{FILE}:{e.lineno}: comparison {type(e.ops[0]).__name__}")
            return {ast.Gt: l > r, ast.GtE: l >= r, ast.Lt: l < r, ast.LtE: l <= r, ast.Eq: l == r, ast.NotEq: l != r}[type(e.ops[0])]
        if isinstance(e, ast.Tuple):
            return tuple(ev(x, env, pc) for x in e.elts)
        raise Unsupported(f"{FILE}:{getattr(e, 'lineno', '?')}: {ast.unparse(e)[:60]}")

    def block(stmts, env, pc):
        for i, st in enumerate(stmts):
            if isinstance(st, ast.Assign) and len(st.targets) == 1 and isinstance(st.targets[0], ast.Name):
                env = dict(env); env[st.targets[0].id] = ev(st.value, env, pc)
            elif isinstance(st, ast.If):
                c = ev(st.test, env, pc)
                block(st.body + stmts[i + 1:], env, pc + [c])
                block(st.orelse + stmts[i + 1:], env, pc + [z3.Not(c)])
                return
            elif isinstance(st, ast.Expr) and isinstance(st.value, ast.Yield):
                yields.append((ev(st.value.value, env, pc), pc))
            elif isinstance(st, ast.Expr) and isinstance(st.value, ast.Constant):
                pass
            else:
                raise Unsupported(f"{FILE}:{st.lineno}: statement {type(st).__name__} in window_patterns")

    block(loop.body, env, [])
    fv.paths = len(yields)
    for k, (val, pc) in enumerate(yields):
        if not (isinstance(val, tuple) and len(val) == 3 and isinstance(val[2], tuple) and isinstance(val[2][0], Pat)):
            raise Unsupported("yield shape")
        pat = val[2][0]
        length, pos = I(0), I(0)
        fits, match, nonneg = [], [], []
        for seg in reversed(pat.segs):
            if seg[0] == "wild":
                nonneg.append(seg[1] >= 0)
                length = length + seg[1]; pos = pos + seg[1]
            else:
                _, v, c = seg
                nonneg.append(c >= 0)
                fits.append(z3.And(v >= 0, v < pow2(c)))                         # otherwise format() needs more than c digits
                match.append((a / pow2(pos)) % pow2(c) == v)
                length = length + c; pos = pos + c
        lab = f"yield{k}"
        H = facts + pre + pc
        fv.add("field-widths-nonnegative", lab, H, z3.And(*nonneg) if nonneg else z3.BoolVal(True), axioms=[])
        fv.add("constant-part-fits-its-field", lab, H, z3.And(*fits) if fits else z3.BoolVal(True), axioms=[])
        fv.add("pattern-has-the-width-of-the-address", lab, H, length == aw, axioms=[])
        fv.add("pattern-matches-exactly-the-window", lab, H,
               (z3.And(*match) if match else z3.BoolVal(True)) == z3.And(a >= start, a < start + P), axioms=[])
        fv.add("ratio-passed-through", lab, H, val[2][1] == 1, axioms=[])
        if not pc or k == 0:
            fv.add("canary:premises-satisfiable", lab, [], z3.Not(z3.And(*(H + [aw == 60, w == 3, pow2(I(3)) == 8, pow2(I(57)) == 1 << 57, pow2(I(60)) == 1 << 60,
                                                                            start == (1 << 59) + 8]))), expect_sat=True, axioms=[])
    fv.add("cover:yields", "vacuity", [], z3.BoolVal(len(yields) >= 2), axioms=[])
    return fv


ALL = [verify_window_patterns, verify_window_patterns_all_widths]
