"""C19 (L1 part): termination of the recursive Multiplexer._Shadow.prepare().

Measure  mu(self) = max(0, B - size)  with  B = 2**ceil_log2(max(r.stop for r in self._ranges))  -- a natural number.
Obligations (VCs generated from the real source on every run):
  loops-do-not-touch-size-or-ranges   the two scanning loops store only to locals (AST frame scan of their bodies; the only
                                      method they call on self is decode_address, a pure function: no store either)
  recursion-only-below-the-bound      on every path that reaches `self.prepare()`:  size_at_entry < B
  measure-strictly-decreases          on every such path:  mu(at the recursive call) < mu(at entry)   and  _ranges unchanged
  no-other-recursion                  prepare() is called at exactly one place
Termination follows by well-founded induction on mu.  (Before the repair recorded in known_findings.txt there was no bound B:
the measure did not exist and the function diverged for unaligned layouts.)
"""
import ast
import z3
from vf.pyvc.engine import Exec, Path, SymObj, Opaque, NONE, Raised, Empty, Tup, find_def, pow2, clog2, POW2_AXIOMS, CLOG2_AXIOMS, Unsupported
from vf.pyvc.driver import FnVerifier

FILE = "amaranth_soc/csr/bus.py"
AX = POW2_AXIOMS + CLOG2_AXIOMS


def verify_prepare_terminates():
    fv = FnVerifier("csr.bus.Multiplexer._Shadow.prepare", AX)
    fn = find_def(FILE, "Multiplexer._Shadow.prepare")
    # --- frame scan of the loops
    bad_stores = []
    for loop in [n for n in fn.body if isinstance(n, ast.For)] + [n for st in fn.body if isinstance(st, ast.If) for n in ast.walk(st) if isinstance(n, ast.For)]:
        for n in ast.walk(loop):
            if isinstance(n, (ast.Assign, ast.AugAssign)):
                for t in (n.targets if isinstance(n, ast.Assign) else [n.target]):
                    for sub in ast.walk(t):
                        if isinstance(sub, ast.Attribute) and isinstance(sub.ctx, ast.Store) and ast.unparse(sub) in ("self._size", "self._ranges"):
                            bad_stores.append(ast.unparse(n))
            if isinstance(n, ast.Call) and isinstance(n.func, ast.Attribute) and ast.unparse(n.func.value) == "self" and n.func.attr not in ("decode_address",):
                bad_stores.append("call self." + n.func.attr)
    dec = find_def(FILE, "Multiplexer._Shadow.decode_address")
    dec_stores = [ast.unparse(n) for n in ast.walk(dec) if isinstance(n, (ast.Assign, ast.AugAssign))
                  and any(isinstance(s, ast.Attribute) and isinstance(s.ctx, ast.Store) for t in (n.targets if isinstance(n, ast.Assign) else [n.target]) for s in ast.walk(t))]
    fv.add("loops-do-not-touch-size-or-ranges", "frame-scan", [], z3.BoolVal(not bad_stores and not dec_stores))
    n_rec = sum(1 for n in ast.walk(fn) if isinstance(n, ast.Call) and ast.unparse(n.func) == "self.prepare")
    fv.add("no-other-recursion", "ast", [], z3.BoolVal(n_rec == 1))
    # --- symbolic execution with the loops havocked
    ex = Exec(FILE, "Multiplexer._Shadow", axioms=AX)
    ex.class_files = {"Multiplexer._Shadow": FILE}
    size0, maxstop = z3.Ints("size0 max_stop")
    frozen = z3.Bool("ranges_is_frozenset")
    self_ = SymObj("Multiplexer._Shadow", "self")
    ranges = SymObj("set", "self._ranges")
    self_.init_fields.update({"_size": size0, "_ranges": ranges, "overlaps": Opaque("overlaps"), "name": Opaque("name"), "_chunks": NONE})
    q = Path(pc=[size0 >= 1, maxstop >= 1])
    ex.isinstance_hook = lambda v, ty, node: (frozen if (v is ranges and ty == "frozenset") else None)
    calls = []

    def havoc_loop(ex_, st_node, path):
        # scanning loops: only locals change (frame scan above); `balanced` becomes an arbitrary truth value
        path.env = dict(path.env)
        if "balanced" in path.env:
            path.env["balanced"] = z3.FreshBool("balanced")
        return [("fall", None, path)]
    ex.loop_invariants[0] = havoc_loop
    ex.loop_invariants[1] = havoc_loop
    ex.loop_invariants[2] = havoc_loop
    ex.contracts["defaultdict"] = lambda e_, r, a, k, q_, n: [(Opaque("defaultdict"), q_)]
    ex.contracts["sorted"] = lambda e_, r, a, k, q_, n: [(Opaque("sorted ranges"), q_)]
    ex.contracts["frozenset"] = lambda e_, r, a, k, q_, n: [(Opaque("frozenset(ranges)"), q_)]
    ex.contracts["registers.items"] = lambda e_, r, a, k, q_, n: [(Opaque("items"), q_)]

    def c_max(e_, r, a, k, q_, n):
        # max(r.stop for r in self._ranges): a function of self._ranges only -> the ghost constant max_stop, provided
        # _ranges is still the object it was at entry (checked at the recursion point)
        if q_.heap.get((id(self_), "_ranges"), ranges) is not ranges:
            raise Unsupported("max() over a modified _ranges")
        return [(maxstop, q_)]
    ex.contracts["max"] = c_max

    def c_len(args, kwargs, q_, e):
        return [(z3.FreshInt("len"), q_)]
    ex.b_len = c_len

    def c_prepare(e_, recv, a, k, q_, n):
        calls.append(q_.fork())
        return [(NONE, q_)]
    ex.contracts["self.prepare"] = c_prepare
    orig = ex.e_Call

    def e_call(e, p):
        if isinstance(e.func, ast.Name) and e.func.id in ("sorted", "max") and e.args and isinstance(e.args[0], (ast.GeneratorExp,)) or \
                (isinstance(e.func, ast.Name) and e.func.id == "sorted"):
            return ex.contracts[e.func.id](ex, None, [], {}, p, e)
        return orig(e, p)
    ex.e_Call = e_call
    q.env["self"] = self_
    outs = ex.run(fn, q)
    fv.paths = len(outs)
    B = pow2(clog2(maxstop))
    mu = lambda s: z3.If(B - s >= 0, B - s, 0)
    for k, p in enumerate(calls):
        size_now = ex.toint(ex.getattr(self_, "_size", p, None)[0][0])
        fv.add("recursion-only-below-the-bound", f"call{k}", p.pc, size0 < B)
        fv.add("measure-strictly-decreases", f"call{k}", p.pc, z3.And(mu(size_now) < mu(size0), mu(size_now) >= 0))
        fv.add("ranges-unchanged-at-the-recursive-call", f"call{k}", p.pc, z3.BoolVal(p.heap.get((id(self_), "_ranges"), ranges) is ranges))
    fv.add("cover:recursive-call-reached", "vacuity", [], z3.BoolVal(len(calls) >= 1))
    for k, o in enumerate(outs):
        if o.kind == "raise":
            fv.add("raises-only-ValueError", f"path{k}", o.path.pc, z3.BoolVal(o.exc == "ValueError"))
    fv.add_engine_obligations(ex)
    return fv


def verify_prepare_population():
    """C04 / C05 (L1 part): WHAT prepare() records, for any set of register ranges (one arbitrary iteration of each loop):
      scanning loops   for one arbitrary register range R of the sorted ranges and one arbitrary address A of R: either R is appended - once -
                       to the list kept under decode_address(A, R) (the method called with the loop's own A and R), and `balanced` is left
                       as it was; or `balanced` is set to False (never back to True) and nothing is appended.  Hence: if `balanced` still
                       holds after the loops, EVERY address of EVERY register is recorded under the offset it decodes to.
      balanced branch  for one arbitrary (offset, registers) item of the table: ONE Chunk(self, offset, registers) is built from exactly
                       these and stored under that offset; no early exit - every recorded offset gets its chunk
    Together with the statement contract of Multiplexer.elaborate (mux_l1: per (chunk, register) pair) and the hash lemma (an address of R
    decodes to one offset), every address of every register is served by exactly one Case."""
    fv = FnVerifier("csr.bus.Multiplexer._Shadow.prepare[population]", AX)
    fn = find_def(FILE, "Multiplexer._Shadow.prepare")
    n_scan = n_items = 0
    for ov_case in ("none", "int"):
        ex = Exec(FILE, "Multiplexer._Shadow", axioms=AX)
        ex.class_files = {"Multiplexer._Shadow": FILE}
        size0, maxstop, OV = z3.Ints("size0 max_stop overlaps")
        self_ = SymObj("Multiplexer._Shadow", "self")
        ranges = SymObj("set", "self._ranges")
        self_.init_fields.update({"_size": size0, "_ranges": ranges, "overlaps": NONE if ov_case == "none" else OV, "name": Opaque("name"), "_chunks": NONE})
        ex.isinstance_hook = lambda v, ty, node: (z3.BoolVal(False) if (v is ranges and ty == "frozenset") else None)
        R = SymObj("range", "one register range")
        A, OFF = z3.Ints("chunk_addr decoded_offset")
        CO = z3.Int("item_offset")
        CR = SymObj("list", "the ranges recorded under item_offset")
        chunk_obj = SymObj("Chunk", "the chunk")

        class ListModel:
            def __init__(self, key):
                self.key = key

            def length(self, ex_, recv, q_, node):
                return z3.FreshInt("len")

            def call_append(self, ex_, recv, a, kw, q_, node):
                q_.ghost["appended"] = q_.ghost.get("appended", ()) + ((self.key, a[0] if a else None),)
                return [(NONE, q_)]

        class TableModel:
            def getitem(self, ex_, recv, key, q_, node):
                return [(SymObj("list", "registers[...]", model=ListModel(key)), q_)]

            def call_items(self, ex_, recv, a, kw, q_, node):
                return [(("items-of-registers",), q_)]
        table = SymObj("defaultdict", "registers", model=TableModel())
        ex.contracts["defaultdict"] = lambda e_, r, a, k, q_, n: [(table, q_)]
        ex.contracts["sorted"] = lambda e_, r, a, k, q_, n: [(("sorted", ranges), q_)]
        ex.contracts["frozenset"] = lambda e_, r, a, k, q_, n: [(Opaque("frozenset(ranges)"), q_)]

        class ChunksModel:
            def setitem(self, ex_, recv, key, v, q_, node):
                q_.ghost["chunks_set"] = q_.ghost.get("chunks_set", ()) + ((key, v),)
                return [("fall", None, q_)]
        chunks_tbl = SymObj("dict", "self._chunks", model=ChunksModel())
        ex.contracts["dict"] = lambda e_, r, a, k, q_, n: [(chunks_tbl, q_)]

        def c_chunk(e_, r, a, k, q_, n):
            q_.ghost["chunk_built"] = q_.ghost.get("chunk_built", ()) + ((tuple(a), dict(k)),)
            return [(chunk_obj, q_)]
        ex.contracts["Multiplexer._Shadow.Chunk"] = c_chunk

        def c_decode(e_, recv, a, k, q_, n):
            q_.ghost["decoded"] = q_.ghost.get("decoded", ()) + ((tuple(a), dict(k)),)
            return [(OFF, q_)]
        ex.contracts["self.decode_address"] = c_decode
        ex.contracts["max"] = lambda e_, r, a, k, q_, n: [(maxstop, q_)]
        ex.b_len = lambda args, kwargs, q_, e: [(z3.FreshInt("len"), q_)]
        ex.contracts["self.prepare"] = lambda e_, recv, a, k, q_, n: [(NONE, q_)]
        orig = ex.e_Call

        def e_call(e, p, orig=orig, ex=ex):
            if isinstance(e.func, ast.Name) and e.func.id in ("sorted", "max"):
                return ex.contracts[e.func.id](ex, None, [], {}, p, e)
            return orig(e, p)
        ex.e_Call = e_call
        marks = {"scan": [], "items": []}

        def loop(ex_, st_node, path, marks=marks):
            it = ast.unparse(st_node.iter)
            if it == "ranges":
                # outer scanning loop: one arbitrary range; what the inner loop did is recorded by the inner handler
                for kind, _, q2 in ex_.assign(st_node.target, R, path.fork(), st_node):
                    for kind2, val2, q3 in ex_.block(st_node.body, q2):
                        if kind2 not in ("fall", "continue"):
                            ex_.oblige("every-range-is-visited:no-exit-from-the-outer-loop", q3, z3.BoolVal(False), st_node)
                after = path
                after.env = dict(after.env); after.env["balanced"] = z3.FreshBool("balanced_after_the_scan")
                return [("fall", None, after)]
            if it == "reg_range":
                src = path.env.get("reg_range")
                ex_.oblige("inner-loop-runs-over-the-range-of-the-outer-loop", path, z3.BoolVal(src is R), st_node)
                entry_bal = path.env.get("balanced")
                base = len(path.ghost.get("appended", ()))
                for kind, _, q2 in ex_.assign(st_node.target, A, path.fork(), st_node):
                    for kind2, val2, q3 in ex_.block(st_node.body, q2):
                        marks["scan"].append((kind2, q3, entry_bal, base))
                after = path
                after.env = dict(after.env); after.env["balanced"] = z3.FreshBool("balanced")
                return [("fall", None, after)]
            if it == "registers.items()":
                base = len(path.ghost.get("chunks_set", ()))
                for kind, _, q2 in ex_.assign(st_node.target, Tup((CO, CR)), path.fork(), st_node):
                    for kind2, val2, q3 in ex_.block(st_node.body, q2):
                        marks["items"].append((kind2, q3, base))
                return [("fall", None, path)]
            ex_.unsupported(st_node, f"loop over {it}")

        class _Every(dict):
            def get(self, key, default=None):
                return loop
        ex.loop_invariants = _Every()
        q = Path(pc=[size0 >= 1, maxstop >= 1, OV >= 0])
        q.env["self"] = self_
        outs = ex.run(fn, q)
        fv.paths += len(outs)
        for k, (kind, q3, entry_bal, base) in enumerate(marks["scan"]):
            lab = f"{ov_case}:scan{k}"
            n_scan += 1
            app = q3.ghost.get("appended", ())[base:]
            dec = q3.ghost.get("decoded", ())
            bal = q3.env.get("balanced")
            if kind in ("fall", "continue"):
                ok = (len(app) == 1 and app[0][1] is R and isinstance(app[0][0], z3.ExprRef) and app[0][0].eq(OFF)
                      and len(dec) >= 1 and all(d[0][1:] == (R,) and isinstance(d[0][0], z3.ExprRef) and d[0][0].eq(A) and not d[1] for d in dec))
                fv.add("an-address-that-is-not-given-up-on-is-recorded-once-under-the-offset-it-decodes-to", lab, q3.pc, z3.BoolVal(bool(ok)))
                fv.add("recording-leaves-balanced-as-it-was", lab, q3.pc, z3.BoolVal(bal is entry_bal))
            elif kind == "break":
                fv.add("giving-up-sets-balanced-to-False-and-records-nothing", lab, q3.pc,
                       z3.And(z3.BoolVal(not app), z3.Not(bal) if isinstance(bal, z3.BoolRef) else z3.BoolVal(False)))
            else:
                fv.add("scan-iteration-ends-by-recording-or-giving-up", lab, q3.pc, z3.BoolVal(False))
        for k, (kind, q3, base) in enumerate(marks["items"]):
            lab = f"{ov_case}:item{k}"
            n_items += 1
            built = q3.ghost.get("chunk_built", ())
            st = q3.ghost.get("chunks_set", ())[base:]
            ok_kind = kind in ("fall", "continue")
            fv.add("every-recorded-offset-gets-its-chunk:no-early-exit", lab, q3.pc, z3.BoolVal(ok_kind))
            ok_b = len(built) == 1 and not built[0][1] and len(built[0][0]) == 3 and built[0][0][0] is self_ and \
                isinstance(built[0][0][1], z3.ExprRef) and built[0][0][1].eq(CO) and built[0][0][2] is CR
            fv.add("one-chunk-built-from-exactly-this-offset-and-these-registers", lab, q3.pc, z3.BoolVal(bool(ok_b)))
            ok_s = len(st) == 1 and isinstance(st[0][0], z3.ExprRef) and st[0][0].eq(CO) and st[0][1] is chunk_obj
            fv.add("stored-under-that-offset", lab, q3.pc, z3.BoolVal(bool(ok_s)))
        fv.add_engine_obligations(ex)
    fv.add("cover:a-recording-and-a-giving-up-iteration-and-a-chunk-item", "vacuity", [], z3.BoolVal(n_scan >= 4 and n_items >= 2))
    return fv


def verify_chunk_access():
    """the three accessors between prepare() and elaborate():
      _Shadow.chunks()          one arbitrary item of `self._chunks.items()`: exactly that (offset, chunk) pair is yielded, nothing else, no early exit
      Chunk.__init__            keeps `tuple(registers)` of the registers handed in
      Chunk.registers()         yields from exactly that kept tuple"""
    fv = FnVerifier("csr.bus.Multiplexer._Shadow.chunks / Chunk.__init__ / Chunk.registers", [])
    # --- chunks()
    fn = find_def(FILE, "Multiplexer._Shadow.chunks")
    ex = Exec(FILE, "Multiplexer._Shadow", axioms=[])
    CO = z3.Int("item_offset"); CH = SymObj("Chunk", "item chunk")

    class TblModel:
        def call_items(self, ex_, recv, a, kw, q_, node):
            return [(("items-of", recv), q_)]
    tbl = SymObj("dict", "self._chunks", model=TblModel())
    self_ = SymObj("Multiplexer._Shadow", "self"); self_.init_fields["_chunks"] = tbl
    marks = []

    def loop(ex_, st_node, path):
        src = None
        for v, _ in ex_.eval(st_node.iter, path.fork()):
            src = v
        ex_.oblige("chunks()-iterates-the-table-prepare()-filled", path, z3.BoolVal(src == ("items-of", tbl)), st_node)
        base = len(ex_.yields)
        for kind, _, q2 in ex_.assign(st_node.target, Tup((CO, CH)), path.fork(), st_node):
            for kind2, val2, q3 in ex_.block(st_node.body, q2):
                marks.append((kind2, q3, ex_.yields[base:]))
        return [("fall", None, path)]

    class _Every(dict):
        def get(self, key, default=None):
            return loop
    ex.loop_invariants = _Every()
    q = Path(); q.env["self"] = self_
    outs = ex.run(fn, q)
    fv.paths += len(outs)
    for k, (kind, q3, ys) in enumerate(marks):
        ok = kind in ("fall", "continue") and len(ys) == 1 and isinstance(ys[0][0], tuple) and len(ys[0][0]) == 2 and \
            isinstance(ys[0][0][0], z3.ExprRef) and ys[0][0][0].eq(CO) and ys[0][0][1] is CH
        fv.add("chunks():each-item-yielded-once-as-(offset, chunk)", f"item{k}", q3.pc, z3.BoolVal(bool(ok)))
    fv.add("chunks():nothing-yielded-outside-the-loop", "all", [], z3.BoolVal(len(ex.yields) == sum(len(m[2]) for m in marks)))
    fv.add("cover:chunks-iteration", "vacuity", [], z3.BoolVal(len(marks) >= 1))
    fv.add_engine_obligations(ex)
    # --- Chunk.__init__
    fn = find_def(FILE, "Multiplexer._Shadow.Chunk.__init__")
    ex = Exec(FILE, "Multiplexer._Shadow.Chunk", axioms=[])
    regs = Opaque("registers argument")
    shadow = SymObj("Multiplexer._Shadow", "shadow")
    shadow.init_fields.update({"name": Opaque("shadow name"), "granularity": z3.Int("granularity")})
    kept = SymObj("tuple", "tuple(registers)")
    ex.contracts["tuple"] = lambda e_, r, a, k, q_, n: [(kept, q_)] if (len(a) == 1 and a[0] is regs) else (_ for _ in ()).throw(Unsupported("tuple() of something else"))
    ex.contracts["Signal"] = lambda e_, r, a, k, q_, n: [(SymObj("Signal", "a signal"), q_)]
    c_self = SymObj("Chunk", "self")
    q = Path(); q.env.update({"self": c_self, "shadow": shadow, "offset": z3.Int("offset"), "registers": regs})
    outs = ex.run(fn, q)
    fv.paths += len(outs)
    for k, o in enumerate(outs):
        fv.add("Chunk.__init__:keeps-the-tuple-of-the-registers-handed-in", f"path{k}", o.path.pc,
               z3.BoolVal(o.kind != "raise" and any(k_[0] == id(c_self) and v is kept for k_, v in o.path.heap.items())))
    fv.add_engine_obligations(ex)
    # --- Chunk.registers()
    fn = find_def(FILE, "Multiplexer._Shadow.Chunk.registers")
    ex = Exec(FILE, "Multiplexer._Shadow.Chunk", axioms=[])
    c_self = SymObj("Chunk", "self"); c_self.init_fields["_registers"] = kept
    yf = []
    orig = ex.do_yield

    def do_yield(node, path, orig=orig, yf=yf, ex=ex):
        if isinstance(node, ast.YieldFrom):
            out = []
            for v, p in ex.eval(node.value, path):
                yf.append(v); out.append(("fall", None, p))
            return out
        return orig(node, path)
    ex.do_yield = do_yield
    q = Path(); q.env["self"] = c_self
    outs = ex.run(fn, q)
    fv.paths += len(outs)
    fv.add("Chunk.registers():yields-from-exactly-the-kept-tuple", "all", [], z3.BoolVal(len(yf) == 1 and yf[0] is kept and not ex.yields))
    fv.add_engine_obligations(ex)
    return fv


ALL = [verify_prepare_terminates]
