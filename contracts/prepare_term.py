"""C19 (L1 part): termination of the recursive Multiplexer._Shadow.prepare().

Measure  mu(self) = max(0, B - size)  with  B = 2**ceil_log2(max(r.stop for r in self._ranges))  -- a natural number.
Obligations (VCs generated from the real source on every run):
  loops-do-not-touch-size-or-ranges   the two scanning loops store only to locals (AST frame scan of their bodies; the only
                                      method they call on self is decode_address, a pure function: no store either)
  recursion-only-below-the-bound      on every path that reaches `self.prepare()`:  size_at_entry < B
  measure-strictly-decreases          on every such path:  mu(at the recursive call) < mu(at entry)   and  _ranges unchanged
  no-other-recursion                  prepare() is called at exactly one place
Termination follows by well-founded induction on mu.  (Before the repair recorded in known_findings.txt there was no bound B:
the measure did not exist and the function diverged for unaligned layouts.)
"""
import ast
import z3
from vf.pyvc.engine import Exec, Path, SymObj, Opaque, NONE, Raised, Empty, find_def, pow2, clog2, POW2_AXIOMS, CLOG2_AXIOMS, Unsupported
from vf.pyvc.driver import FnVerifier

FILE = "amaranth_soc/csr/bus.py"
AX = POW2_AXIOMS + CLOG2_AXIOMS


def verify_prepare_terminates():
    fv = FnVerifier("csr.bus.Multiplexer._Shadow.prepare", AX)
    fn = find_def(FILE, "Multiplexer._Shadow.prepare")
    # --- frame scan of the loops
    bad_stores = []
    for loop in [n for n in fn.body if isinstance(n, ast.For)] + [n for st in fn.body if isinstance(st, ast.If) for n in ast.walk(st) if isinstance(n, ast.For)]:
        for n in ast.walk(loop):
            if isinstance(n, (ast.Assign, ast.AugAssign)):
                for t in (n.targets if isinstance(n, ast.Assign) else [n.target]):
                    for sub in ast.walk(t):
                        if isinstance(sub, ast.Attribute) and isinstance(sub.ctx, ast.Store) and ast.unparse(sub) in ("self._size", "self._ranges"):
                            bad_stores.append(ast.unparse(n))
            if isinstance(n, ast.Call) and isinstance(n.func, ast.Attribute) and ast.unparse(n.func.value) == "self" and n.func.attr not in ("decode_address",):
                bad_stores.append("call self." + n.func.attr)
    dec = find_def(FILE, "Multiplexer._Shadow.decode_address")
    dec_stores = [ast.unparse(n) for n in ast.walk(dec) if isinstance(n, (ast.Assign, ast.AugAssign))
                  and any(isinstance(s, ast.Attribute) and isinstance(s.ctx, ast.Store) for t in (n.targets if isinstance(n, ast.Assign) else [n.target]) for s in ast.walk(t))]
    fv.add("loops-do-not-touch-size-or-ranges", "frame-scan", [], z3.BoolVal(not bad_stores and not dec_stores))
    n_rec = sum(1 for n in ast.walk(fn) if isinstance(n, ast.Call) and ast.unparse(n.func) == "self.prepare")
    fv.add("no-other-recursion", "ast", [], z3.BoolVal(n_rec == 1))
    # --- symbolic execution with the loops havocked
    ex = Exec(FILE, "Multiplexer._Shadow", axioms=AX)
    ex.class_files = {"Multiplexer._Shadow": FILE}
    size0, maxstop = z3.Ints("size0 max_stop")
    frozen = z3.Bool("ranges_is_frozenset")
    self_ = SymObj("Multiplexer._Shadow", "self")
    ranges = SymObj("set", "self._ranges")
    self_.init_fields.update({"_size": size0, "_ranges": ranges, "overlaps": Opaque("overlaps"), "name": Opaque("name"), "_chunks": NONE})
    q = Path(pc=[size0 >= 1, maxstop >= 1])
    ex.isinstance_hook = lambda v, ty, node: (frozen if (v is ranges and ty == "frozenset") else None)
    calls = []

    def havoc_loop(ex_, st_node, path):
        # scanning loops: only locals change (frame scan above); `balanced` becomes an arbitrary truth value
        path.env = dict(path.env)
        if "balanced" in path.env:
            path.env["balanced"] = z3.FreshBool("balanced")
        return [("fall", None, path)]
    ex.loop_invariants[0] = havoc_loop
    ex.loop_invariants[1] = havoc_loop
    ex.loop_invariants[2] = havoc_loop
    ex.contracts["defaultdict"] = lambda e_, r, a, k, q_, n: [(Opaque("defaultdict"), q_)]
    ex.contracts["sorted"] = lambda e_, r, a, k, q_, n: [(Opaque("sorted ranges"), q_)]
    ex.contracts["frozenset"] = lambda e_, r, a, k, q_, n: [(Opaque("frozenset(ranges)"), q_)]
    ex.contracts["registers.items"] = lambda e_, r, a, k, q_, n: [(Opaque("items"), q_)]

    def c_max(e_, r, a, k, q_, n):
        # max(r.stop for r in self._ranges): a function of self._ranges only -> the ghost constant max_stop, provided
        # _ranges is still the object it was at entry (checked at the recursion point)
        if q_.heap.get((id(self_), "_ranges"), ranges) is not ranges:
            raise Unsupported("max() over a modified _ranges")
        return [(maxstop, q_)]
    ex.contracts["max"] = c_max

    def c_len(args, kwargs, q_, e):
        return [(z3.FreshInt("len"), q_)]
    ex.b_len = c_len

    def c_prepare(e_, recv, a, k, q_, n):
        calls.append(q_.fork())
        return [(NONE, q_)]
    ex.contracts["self.prepare"] = c_prepare
    orig = ex.e_Call

    def e_call(e, p):
        if isinstance(e.func, ast.Name) and e.func.id in ("sorted", "max") and e.args and isinstance(e.args[0], (ast.GeneratorExp,)) or \
                (isinstance(e.func, ast.Name) and e.func.id == "sorted"):
            return ex.contracts[e.func.id](ex, None, [], {}, p, e)
        return orig(e, p)
    ex.e_Call = e_call
    q.env["self"] = self_
    outs = ex.run(fn, q)
    fv.paths = len(outs)
    B = pow2(clog2(maxstop))
    mu = lambda s: z3.If(B - s >= 0, B - s, 0)
    for k, p in enumerate(calls):
        size_now = ex.toint(ex.getattr(self_, "_size", p, None)[0][0])
        fv.add("recursion-only-below-the-bound", f"call{k}", p.pc, size0 < B)
        fv.add("measure-strictly-decreases", f"call{k}", p.pc, z3.And(mu(size_now) < mu(size0), mu(size_now) >= 0))
        fv.add("ranges-unchanged-at-the-recursive-call", f"call{k}", p.pc, z3.BoolVal(p.heap.get((id(self_), "_ranges"), ranges) is ranges))
    fv.add("cover:recursive-call-reached", "vacuity", [], z3.BoolVal(len(calls) >= 1))
    for k, o in enumerate(outs):
        if o.kind == "raise":
            fv.add("raises-only-ValueError", f"path{k}", o.path.pc, z3.BoolVal(o.exc == "ValueError"))
    fv.add_engine_obligations(ex)
    return fv


ALL = [verify_prepare_terminates]
