"""C02 contracts for _RangeMap (amaranth_soc/memory.py), discharged by pyvc over the real method bodies.

Concrete fields are modelled as: _starts/_stops = int lists (array, length); _keys = list of ranges (three arrays,
length); _values = dict keyed by range, modelled BY THE KEY'S START (CPython compares ranges as sequences: two
non-empty ranges with different starts are different keys; the obligation `dict-key-fresh` checks at every store that
no stored key shares the start, which disjointness guarantees).
bisect.bisect_left/right and list.insert are ASSUMED stdlib contracts.
"""
import ast
import z3
from vf.pyvc.engine import (Exec, Path, Rng, Tup, Opaque, NONE, Raised, SymObj, AbsSeq, find_def, POW2_AXIOMS, Unsupported)
from vf.pyvc.driver import FnVerifier

FILE = "amaranth_soc/memory.py"
AX = []
IntArr = z3.ArraySort(z3.IntSort(), z3.IntSort())
BoolArr = z3.ArraySort(z3.IntSort(), z3.BoolSort())
_i, _j = z3.Ints("ri rj")


class RMState:
    """ghost bundle for one _RangeMap's concrete fields"""
    def __init__(self, tag):
        self.n_starts, self.n_stops, self.n_keys = z3.Int(f"len_starts{tag}"), z3.Int(f"len_stops{tag}"), z3.Int(f"len_keys{tag}")
        self.starts, self.stops = z3.Const(f"starts{tag}", IntArr), z3.Const(f"stops{tag}", IntArr)
        self.ks, self.ke, self.kt = (z3.Const(f"ks{tag}", IntArr), z3.Const(f"ke{tag}", IntArr), z3.Const(f"kt{tag}", IntArr))
        self.dom = z3.Const(f"dom{tag}", BoolArr)        # start -> key present in _values
        self.val = z3.Const(f"val{tag}", IntArr)         # start -> id(value)

    def copy(self):
        c = RMState.__new__(RMState)
        c.__dict__.update(self.__dict__)
        return c


def wf(st):
    n = st.n_keys
    inr = z3.And(0 <= _i, _i < n)
    return z3.And(
        n >= 0, st.n_starts == n, st.n_stops == n,
        z3.ForAll([_i], z3.Implies(inr, z3.And(st.ks[_i] == st.starts[_i], st.ke[_i] == st.stops[_i],
                                               st.starts[_i] < st.stops[_i], st.kt[_i] >= 1, st.dom[st.starts[_i]]))),
        z3.ForAll([_i, _j], z3.Implies(z3.And(0 <= _i, _i < _j, _j < n), st.stops[_i] <= st.starts[_j])),
        # only the keys are stored
        z3.ForAll([_i], z3.Implies(st.dom[_i], z3.Exists([_j], z3.And(0 <= _j, _j < n, st.starts[_j] == _i)))))


def wf_parts(st):
    n = st.n_keys
    inr = z3.And(0 <= _i, _i < n)
    return [
        ("lengths-agree", z3.And(n >= 0, st.n_starts == n, st.n_stops == n)),
        ("keys-mirror-starts-stops", z3.ForAll([_i], z3.Implies(inr, z3.And(st.ks[_i] == st.starts[_i], st.ke[_i] == st.stops[_i])))),
        ("nonempty-ranges", z3.ForAll([_i], z3.Implies(inr, z3.And(st.starts[_i] < st.stops[_i], st.kt[_i] >= 1)))),
        ("keys-have-values", z3.ForAll([_i], z3.Implies(inr, st.dom[st.starts[_i]]))),
        ("sorted-disjoint", z3.ForAll([_i, _j], z3.Implies(z3.And(0 <= _i, _i < _j, _j < n), st.stops[_i] <= st.starts[_j]))),
    ]


def inter(st, i, start, stop):
    return z3.And(st.starts[i] < stop, start < st.stops[i])


def st_of(q, obj):
    return q.ghost[("rm", id(obj))]


class IntList:
    def __init__(self, owner, arr, n):
        self.owner, self.arr, self.n = owner, arr, n     # field names in RMState

    def _get(self, q):
        st = st_of(q, self.owner)
        return getattr(st, self.arr), getattr(st, self.n)

    def length(self, ex, recv, q, node):
        return self._get(q)[1]

    def call_insert(self, ex, recv, args, kwargs, q, node):
        idx, x = ex.toint(args[0], node), ex.toint(args[1], node)
        arr, n = self._get(q)
        # list.insert(i, x), assumed stdlib contract, for 0 <= i <= len (obligation)
        ex.oblige(f"list.insert-index-in-range@{node.lineno}", q, z3.And(0 <= idx, idx <= n), node)
        st = st_of(q, self.owner).copy()
        new = z3.FreshConst(IntArr, self.arr)
        q.assume(z3.And(z3.ForAll([_i], z3.Implies(z3.And(0 <= _i, _i < idx), new[_i] == arr[_i])), new[idx] == x,
                        z3.ForAll([_i], z3.Implies(z3.And(idx < _i, _i <= n), new[_i] == arr[_i - 1]))))
        setattr(st, self.arr, new); setattr(st, self.n, n + 1)
        q.ghost[("rm", id(self.owner))] = st
        q.writes.append((self.owner.name, self.arr))
        return [(NONE, q)]


class KeyList:
    def __init__(self, owner):
        self.owner = owner

    def length(self, ex, recv, q, node):
        return st_of(q, self.owner).n_keys

    def getitem(self, ex, recv, key, q, node):
        st = st_of(q, self.owner)
        i = ex.toint(key, node)
        ex.oblige(f"list-index-in-range@{node.lineno}", q, z3.And(0 <= i, i < st.n_keys), node)   # no negative indexing intended
        return [(Rng(st.ks[i], st.ke[i], st.kt[i]), q)]

    def call_insert(self, ex, recv, args, kwargs, q, node):
        idx, key = ex.toint(args[0], node), args[1]
        st = st_of(q, self.owner).copy()
        n = st.n_keys
        ex.oblige(f"list.insert-index-in-range@{node.lineno}", q, z3.And(0 <= idx, idx <= n), node)
        for f, x in (("ks", key.start), ("ke", key.stop), ("kt", key.step)):
            arr = getattr(st, f)
            new = z3.FreshConst(IntArr, f)
            q.assume(z3.And(z3.ForAll([_i], z3.Implies(z3.And(0 <= _i, _i < idx), new[_i] == arr[_i])), new[idx] == x,
                            z3.ForAll([_i], z3.Implies(z3.And(idx < _i, _i <= n), new[_i] == arr[_i - 1]))))
            setattr(st, f, new)
        st.n_keys = n + 1
        q.ghost[("rm", id(self.owner))] = st
        q.writes.append((self.owner.name, "_keys"))
        return [(NONE, q)]

    def getslice(self, ex, recv, lo, hi, q, node):
        return ("keyslice", self.owner, ex.toint(lo, node), ex.toint(hi, node))


class ValDict:
    def __init__(self, owner):
        self.owner = owner

    def getitem(self, ex, recv, key, q, node):
        st = st_of(q, self.owner)
        ex.oblige(f"dict-key-present@{node.lineno}", q, st.dom[key.start], node)
        from .memory_model import Ref
        return [(Ref(st.val[key.start]), q)]

    def setitem(self, ex, recv, key, value, q, node):
        from .memory_model import ident_of
        st = st_of(q, self.owner).copy()
        ex.oblige(f"dict-key-fresh@{node.lineno}", q, z3.And(key.start < key.stop, z3.Not(st.dom[key.start])), node)
        st.dom = z3.Store(st.dom, key.start, True)
        st.val = z3.Store(st.val, key.start, ident_of(value))
        q.ghost[("rm", id(self.owner))] = st
        q.writes.append((self.owner.name, "_values"))
        return [("fall", None, q)]


def new_rangemap(q, name="self"):
    rm = SymObj("_RangeMap", name)
    st = RMState(f"_{name}")
    q.ghost[("rm", id(rm))] = st
    rm.init_fields["_starts"] = SymObj("list", f"{name}._starts", model=IntList(rm, "starts", "n_starts"))
    rm.init_fields["_stops"] = SymObj("list", f"{name}._stops", model=IntList(rm, "stops", "n_stops"))
    rm.init_fields["_keys"] = SymObj("list", f"{name}._keys", model=KeyList(rm))
    rm.init_fields["_values"] = SymObj("dict", f"{name}._values", model=ValDict(rm))
    q.assume(wf(st))
    return rm, st


def sorted_upto(arr, n):
    return z3.ForAll([_i, _j], z3.Implies(z3.And(0 <= _i, _i <= _j, _j < n), arr[_i] <= arr[_j]))


def c_bisect(side):
    def h(ex, recv, args, kwargs, q, node):
        lst, x = args[0], ex.toint(args[1], node)
        arr, n = lst.model._get(q)
        # ASSUMED stdlib contract of bisect.bisect_left/right: requires a sorted list, returns the partition index
        ex.oblige(f"pre:bisect:list-sorted@{node.lineno}", q, sorted_upto(arr, n), node)
        r = z3.FreshInt(f"bisect_{side}")
        if side == "right":
            q.assume(z3.And(0 <= r, r <= n, z3.ForAll([_i], z3.Implies(z3.And(0 <= _i, _i < r), arr[_i] <= x)),
                            z3.ForAll([_i], z3.Implies(z3.And(r <= _i, _i < n), arr[_i] > x))))
        else:
            q.assume(z3.And(0 <= r, r <= n, z3.ForAll([_i], z3.Implies(z3.And(0 <= _i, _i < r), arr[_i] < x)),
                            z3.ForAll([_i], z3.Implies(z3.And(r <= _i, _i < n), arr[_i] >= x))))
        return [(r, q)]
    return h


def listcomp_hook(ex, e, p):
    """[self._values[key] for key in self._keys[a:b]]  ->  abstract sequence of length max(0, b-a); every element lookup
    is checked for an arbitrary index in the slice"""
    if len(e.generators) != 1 or e.generators[0].ifs:
        return None
    g = e.generators[0]
    out = []
    for it, q in ex.eval(g.iter, p):
        if not (isinstance(it, tuple) and it and it[0] == "keyslice"):
            return None
        _, owner, lo, hi = it
        st = st_of(q, owner)
        k = z3.FreshInt("slice_idx")
        q2 = q.fork()
        q2.assume(z3.And(lo <= k, k < hi, 0 <= k, k < st.n_keys))
        q2.env = dict(q2.env); q2.env[g.target.id] = Rng(st.ks[k], st.ke[k], st.kt[k])
        for v, q3 in ex.eval(e.elt, q2):       # obligations of the element expression, for an arbitrary element
            if isinstance(v, Raised):
                out.append((v, q3))
        ex.oblige(f"slice-bounds@{e.lineno}", q, z3.And(0 <= lo, hi <= st.n_keys), e)
        q.ghost["overlaps_slice"] = (lo, hi)
        out.append((AbsSeq(lo < hi, z3.If(hi > lo, hi - lo, 0)), q))
    return out


def base_exec():
    ex = Exec(FILE, "_RangeMap", axioms=AX)
    ex.contracts["bisect.bisect_right"] = c_bisect("right")
    ex.contracts["bisect.bisect_left"] = c_bisect("left")
    ex.listcomp_hook = lambda e, p: listcomp_hook(ex, e, p)
    return ex


def c_overlaps_self(ex, recv, args, kwargs, q, node):
    """contract of self.overlaps(key) used inside insert(): non-empty <=> some stored range intersects key"""
    key = args[0]
    st = st_of(q, recv)
    ne = z3.FreshBool("overlaps_nonempty")
    q.assume(ne == z3.Exists([_i], z3.And(0 <= _i, _i < st.n_keys, inter(st, _i, key.start, key.stop))))
    return [(AbsSeq(ne), q)]


def verify_overlaps():
    fv = FnVerifier("_RangeMap.overlaps", AX)
    fn = find_def(FILE, "_RangeMap.overlaps")
    ex = base_exec()
    q = Path()
    rm, st = new_rangemap(q)
    key = Rng(z3.Int("key_start"), z3.Int("key_stop"), z3.Int("key_step"))
    q.env.update({"self": rm, "key": key})
    outs = ex.run(fn, q)
    fv.paths = len(outs)
    for k, o in enumerate(outs):
        p = o.path
        fv.add("no-exception", f"path{k}", p.pc, z3.BoolVal(o.kind == "return"))
        if o.kind != "return":
            continue
        lo, hi = p.ghost["overlaps_slice"]
        r = o.value
        nonempty_key = key.start < key.stop
        fv.add("slice-is-exactly-the-intersecting-ranges", f"path{k}", p.pc + [nonempty_key],
               z3.ForAll([_i], z3.Implies(z3.And(0 <= _i, _i < st.n_keys), inter(st, _i, key.start, key.stop) == z3.And(lo <= _i, _i < hi))))
        fv.add("nonempty-iff-some-range-intersects", f"path{k}", p.pc + [nonempty_key],
               r.nonempty == z3.Exists([_i], z3.And(0 <= _i, _i < st.n_keys, inter(st, _i, key.start, key.stop))))
        fv.add("modifies-nothing", f"path{k}", p.pc, z3.BoolVal(st_of(p, rm) is st and not p.writes))
    fv.add_engine_obligations(ex)
    return fv


def verify_get():
    fv = FnVerifier("_RangeMap.get", AX)
    fn = find_def(FILE, "_RangeMap.get")
    ex = base_exec()
    q = Path()
    rm, st = new_rangemap(q)
    point = z3.Int("point")
    q.env.update({"self": rm, "point": point})
    outs = ex.run(fn, q)
    fv.paths = len(outs)
    contains = lambda i: z3.And(st.starts[i] <= point, point < st.stops[i])
    for k, o in enumerate(outs):
        p = o.path
        fv.add("no-exception", f"path{k}", p.pc, z3.BoolVal(o.kind == "return"))
        if o.kind != "return":
            continue
        if o.value is NONE:
            fv.add("none-only-when-no-range-contains-point", f"path{k}", p.pc,
                   z3.ForAll([_i], z3.Implies(z3.And(0 <= _i, _i < st.n_keys), z3.Not(contains(_i)))))
        else:
            fv.add("returns-value-of-the-containing-range", f"path{k}", p.pc,
                   z3.Exists([_i], z3.And(0 <= _i, _i < st.n_keys, contains(_i), o.value.ident == st.val[st.starts[_i]])))
        fv.add("modifies-nothing", f"path{k}", p.pc, z3.BoolVal(st_of(p, rm) is st and not p.writes))
    fv.add_engine_obligations(ex)
    return fv


def verify_insert():
    fv = FnVerifier("_RangeMap.insert", AX)
    fn = find_def(FILE, "_RangeMap.insert")
    ex = base_exec()
    ex.contracts["self.overlaps"] = c_overlaps_self
    q = Path()
    rm, st = new_rangemap(q)
    key = Rng(z3.Int("key_start"), z3.Int("key_stop"), z3.Int("key_step"))
    from .memory_model import Ref
    value = Ref(z3.Int("value_id"))
    # requires (what MemoryMap establishes before calling): key non-empty, positive step, no stored range intersects it
    q.assume(z3.And(key.start < key.stop, key.step >= 1,
                    z3.ForAll([_i], z3.Implies(z3.And(0 <= _i, _i < st.n_keys), z3.Not(inter(st, _i, key.start, key.stop))))))
    q.env.update({"self": rm, "key": key, "value": value})
    outs = ex.run(fn, q)
    fv.paths = len(outs)
    for k, o in enumerate(outs):
        p = o.path
        fv.add("no-exception", f"path{k}", p.pc, z3.BoolVal(o.kind == "return"))
        if o.kind != "return":
            continue
        s1 = st_of(p, rm)
        n0 = st.n_keys
        pos = z3.FreshInt("pos")
        # the new view is the old one with the key inserted at some position, everything else shifted
        ins = z3.And(0 <= pos, pos <= n0, s1.n_keys == n0 + 1,
                     z3.ForAll([_i], z3.Implies(z3.And(0 <= _i, _i < pos), z3.And(s1.starts[_i] == st.starts[_i], s1.stops[_i] == st.stops[_i], s1.kt[_i] == st.kt[_i]))),
                     s1.starts[pos] == key.start, s1.stops[pos] == key.stop, s1.kt[pos] == key.step,
                     z3.ForAll([_i], z3.Implies(z3.And(pos < _i, _i <= n0), z3.And(s1.starts[_i] == st.starts[_i - 1], s1.stops[_i] == st.stops[_i - 1], s1.kt[_i] == st.kt[_i - 1]))))
        fv.add("view-is-old-view-with-key-inserted", f"path{k}", p.pc, z3.Exists([pos], ins))
        fv.add("value-recorded", f"path{k}", p.pc, z3.And(s1.dom[key.start], s1.val[key.start] == value.ident))
        fv.add("other-values-kept", f"path{k}", p.pc, z3.ForAll([_i], z3.Implies(_i != key.start, z3.And(s1.dom[_i] == st.dom[_i], s1.val[_i] == st.val[_i]))))
        for nm, f in wf_parts(s1):
            fv.add("wf-preserved:" + nm, f"path{k}", p.pc, f)
    fv.add_engine_obligations(ex)
    return fv


def loop_items(ex, st_node, path):
    """`for key in self._keys: yield key, self._values[key]` -- one arbitrary iteration (the loop carries no state)"""
    out = []
    for it, q in ex.eval(st_node.iter, path):
        owner = it.model.owner
        s = st_of(q, owner)
        k = z3.FreshInt("iter_idx")
        body = q.fork()
        body.assume(z3.And(0 <= k, k < s.n_keys))
        body.env = dict(body.env); body.env[st_node.target.id] = Rng(s.ks[k], s.ke[k], s.kt[k])
        body.ghost["iter_idx"] = k
        for kind, val, q2 in ex.block(st_node.body, body):
            if kind == "raise":
                out.append((kind, val, q2))
        out.append(("fall", None, q))
    return out


def verify_items():
    fv = FnVerifier("_RangeMap.items", AX)
    fn = find_def(FILE, "_RangeMap.items")
    ex = base_exec()
    ex.loop_invariants[0] = loop_items
    q = Path()
    rm, st = new_rangemap(q)
    q.env.update({"self": rm})
    outs = ex.run(fn, q)
    fv.paths = len(outs)
    for k, o in enumerate(outs):
        fv.add("no-exception", f"path{k}", o.path.pc, z3.BoolVal(o.kind == "return"))
    for k, (val, p) in enumerate(ex.yields):
        idx = p.ghost["iter_idx"]
        key, value = val
        fv.add("yields-the-k-th-range-with-its-value", f"yield{k}", p.pc,
               z3.And(key.start == st.starts[idx], key.stop == st.stops[idx], key.step == st.kt[idx], value.ident == st.val[st.starts[idx]]))
    fv.add("cover:yields", "vacuity", [], z3.BoolVal(len(ex.yields) > 0))
    fv.add_engine_obligations(ex)
    return fv


ALL = [verify_overlaps, verify_get, verify_insert, verify_items]
