"""C04 / C05 / C01 / C02 (L1 part): the constructors of the register multiplexer and of the register bridge, for EVERY memory map (pyvc;
collaborators are recording stubs whose own behaviour is covered by their own contracts).  Only what the properties rest on is claimed -
not the exception types, not the order of independent steps, not private attribute names:

csr.bus.Multiplexer._check_memory_map(memory_map)      (protects the domain of C04 / C05 / C01: what is accepted can be served)
    anything but a MemoryMap is refused; outside the register loop only a map WITH windows is refused, and a map with windows is never
    accepted (the multiplexer serves no windows, the root map would promise addresses the hardware does not have);
    for EVERY resource of the map (one arbitrary iteration of the loop, no early exit): ONLY a resource without a member `element` that is
    an Out interface member with a csr.Element.Signature is refused - a proper register never is.  (That an improper one IS refused is
    not claimed: it fails later, in elaborate(), and no property speaks about it.)
csr.bus.Multiplexer.__init__(memory_map, shadow_overlaps=None)
    accepted only after the map went through _check_memory_map; the constructor itself refuses nothing; the overlaps argument is kept
    as given; one In port `bus` whose signature takes addr_width / data_width from the MAP; the bus carries THAT map
csr.reg.Bridge.__init__(memory_map)
    anything but a MemoryMap is refused; inside the loop only a resource that is not a csr.Register is refused, outside it only a map with
    windows; accepted => ONE multiplexer over that very map, kept on the bridge; one In port `bus` with the map's geometry; the bus carries
    that map;  (C02 only) accepted => the map has been frozen
"""
import ast
import z3
from vf.pyvc.engine import Exec, Path, SymObj, Opaque, NONE, Raised, Tup, DictLit, find_def, Unsupported
from vf.pyvc.driver import FnVerifier

FILE_BUS = "amaranth_soc/csr/bus.py"
FILE_REG = "amaranth_soc/csr/reg.py"

HAS_WINDOWS = z3.Bool("map_has_windows")
HAS_EL, FLOW_OUT, IS_SIGM, IS_ELSIG, IS_REGISTER = z3.Bools("has_element flow_is_out is_signature_member is_element_signature is_register")


class _Truth:
    def __init__(self, b):
        self.b = b

    def truth(self, ex, v):
        return self.b


def _map(events):
    """a MemoryMap stub: windows() non-empty iff HAS_WINDOWS; resources() iterated by the loop handler; freeze() recorded"""
    class MapModel:
        def call_windows(self, ex, recv, a, kw, q, node):
            return [(SymObj("iter", "windows()", model=_Truth(HAS_WINDOWS)), q)]

        def call_resources(self, ex, recv, a, kw, q, node):
            return [(("resources",), q)]

        def call_freeze(self, ex, recv, a, kw, q, node):
            events.append(("freeze", q.fork(), recv))
            q.ghost["events"] = q.ghost.get("events", ()) + (("freeze", recv),)          # path-local record
            return [(NONE, q)]
    aw, dw = z3.Ints("map_addr_width map_data_width")
    mp = SymObj("MemoryMap", "memory_map", model=MapModel())
    mp.init_fields.update({"addr_width": aw, "data_width": dw})
    return mp, aw, dw


def _register():
    """one arbitrary resource of the map; its signature's member table answers by four free Booleans"""
    class Members:
        def contains(self, ex, recv, key, q, node):
            if not (isinstance(key, Opaque) and key.what == "str:element"):
                raise Unsupported(f"membership of {key!r} in signature.members")
            return HAS_EL

        def getitem(self, ex, recv, key, q, node):
            if not (isinstance(key, Opaque) and key.what == "str:element"):
                raise Unsupported(f"signature.members[{key!r}]")
            absent = q.fork(); absent.assume(z3.Not(HAS_EL))          # dict semantics: KeyError when the member does not exist
            q.assume(HAS_EL)
            return [(member, q), (Raised("KeyError"), absent)]
    member = SymObj("Member", "members['element']")
    flow = SymObj("Flow", "members['element'].flow")
    elsig = SymObj("?Signature", "members['element'].signature")
    member.init_fields.update({"flow": flow, "is_signature": IS_SIGM, "signature": elsig})
    sig = SymObj("Signature", "reg.signature")
    sig.init_fields["members"] = SymObj("members", "reg.signature.members", model=Members())
    reg = SymObj("resource", "one resource of the map")
    reg.init_fields["signature"] = sig
    return reg, flow, elsig


def _hooks(ex, reg, flow, elsig, foreign):
    def isinst(v, ty, node):
        t = ty.split(".")[-1]
        if v is foreign:
            return z3.BoolVal(False)
        if v is elsig and ty.replace(" ", "") in ("Element.Signature",):
            return IS_ELSIG
        if v is reg and t == "Register":
            return IS_REGISTER
        if isinstance(v, SymObj) and v.cls == "MemoryMap":
            return z3.BoolVal(t == "MemoryMap")
        return None
    ex.isinstance_hook = isinst

    def eq(a, b, node):
        pair = {id(a), id(b)}
        if a is flow and isinstance(b, Opaque) and b.what == "global:Out" or b is flow and isinstance(a, Opaque) and a.what == "global:Out":
            return FLOW_OUT
        return None
    ex.equal_hook = eq
    ex.contracts["list"] = lambda ex_, recv, a, kw, q, node: [(a[0], q)]       # list(it): non-empty iff the iterator yields something


def _loop(ex, reg, marks, expect_iter):
    def loop(ex_, st_node, path):
        if ast.unparse(st_node.iter) != expect_iter:
            ex_.unsupported(st_node, f"loop over {ast.unparse(st_node.iter)}")
        out = []
        for kind, _, q2 in ex_.assign(st_node.target, Tup((reg, Opaque("its name"), Tup((z3.Int("reg_start"), z3.Int("reg_end"))))), path.fork(), st_node):
            for kind2, val2, q3 in ex_.block(st_node.body, q2):
                if kind2 in ("fall", "continue"):
                    marks.setdefault("passed", []).append(q3)
                elif kind2 == "raise":
                    marks.setdefault("refused", []).append((val2, q3))
                    out.append((kind2, val2, q3))
                else:
                    ex_.oblige("every-resource-is-visited:no-early-exit", q3, z3.BoolVal(False), st_node)
        out.append(("fall", None, path))
        return out

    class _Every(dict):
        def get(self, key, default=None):
            return loop
    ex.loop_invariants = _Every()


GOOD_REG = z3.And(HAS_EL, FLOW_OUT, IS_SIGM, IS_ELSIG)


def verify_mux_check_memory_map():
    fv = FnVerifier("csr.bus.Multiplexer._check_memory_map", [])
    fn = find_def(FILE_BUS, "Multiplexer._check_memory_map")
    n_ok = 0
    for case in ("foreign", "map"):
        ex = Exec(FILE_BUS, "Multiplexer", axioms=[])
        events, marks = [], {}
        mp, aw, dw = _map(events)
        foreign = Opaque("not a MemoryMap")
        reg, flow, elsig = _register()
        _hooks(ex, reg, flow, elsig, foreign)
        _loop(ex, reg, marks, "memory_map.resources()")
        q = Path(); q.env.update({"self": SymObj("Multiplexer", "self"), "memory_map": foreign if case == "foreign" else mp})
        outs = ex.run(fn, q)
        fv.paths += len(outs)
        for k, o in enumerate(outs):
            p, lab = o.path, f"{case}:path{k}"
            if case == "foreign":
                fv.add("foreign-object-refused", lab, p.pc, z3.BoolVal(o.kind == "raise"))
                continue
            if o.kind == "raise":
                in_loop = any(q3 is p for _, q3 in marks.get("refused", []))
                if in_loop:
                    fv.add("only-a-bad-register-is-refused", lab, p.pc, z3.Not(GOOD_REG))
                else:
                    fv.add("outside-the-loop-only-a-map-with-windows-is-refused", lab, p.pc, HAS_WINDOWS)
                continue
            n_ok += 1
            fv.add("a-map-with-windows-is-never-accepted", lab, p.pc, z3.Not(HAS_WINDOWS))
        if case == "map":
            fv.add("cover:one-register-passes-one-is-refused", "vacuity", [], z3.BoolVal(len(marks.get("passed", [])) >= 1 and len(marks.get("refused", [])) >= 1))
        fv.add_engine_obligations(ex)
    fv.add("cover:accepting-paths", "vacuity", [], z3.BoolVal(n_ok >= 1))
    return fv


class _PortModel:
    def setattr(self, ex_, obj, attr, value, q, node):
        if attr != "memory_map":
            return None
        q.heap[(id(obj), attr)] = value
        q.writes.append((obj.name, attr))
        q.ghost["events"] = q.ghost.get("events", ()) + (("bus.memory_map=", value),)
        return [("fall", None, q), ("raise", "refused-by-memory_map-setter", q.fork())]


def _component_stubs(ex, sigs):
    def c_sig(ex_, recv, a, k, q, node):
        obj = SymObj("Signature", "bus signature")
        sigs.append((q.fork(), a, k, obj))
        q.ghost["events"] = q.ghost.get("events", ()) + (("Signature", obj),)
        return [(obj, q), (Raised("refused-by-Signature"), q.fork())]
    ex.contracts["Signature"] = c_sig
    ex.contracts["In"] = lambda ex_, recv, a, k, q, node: [(("In", a[0]), q)]
    ex.contracts["Out"] = lambda ex_, recv, a, k, q, node: [(("Out", a[0]), q)]
    ex.contracts["super"] = lambda ex_, recv, a, k, q, node: [(Opaque("super()"), q)]

    def c_super_init(ex_, recv, a, k, q, node):
        members = a[0]
        self__ = q.env["self"]
        if not isinstance(members, DictLit):
            raise Unsupported("wiring.Component.__init__ with something else than a dict literal")
        q.ghost["members"] = members.items
        q.heap[(id(self__), "bus")] = SymObj("Port", "self.bus", model=_PortModel())
        q.ghost["events"] = q.ghost.get("events", ()) + (("super().__init__",),)
        return [(NONE, q)]
    ex.contracts["super().__init__"] = c_super_init


def _geometry_clauses(fv, lab, p, ex, sigs, mp, aw, dw, self_):
    objs = [e[1] for e in p.ghost.get("events", ()) if e[0] == "Signature"]
    mine = [c for c in sigs if any(c[3] is o for o in objs)]
    fv.add("one-signature", lab, p.pc, z3.BoolVal(len(mine) == 1))
    if len(mine) != 1:
        return
    kw = mine[0][2]
    same = lambda v, sym: isinstance(v, z3.ExprRef) and v.eq(sym)
    fv.add("signature-takes-its-geometry-from-the-map", lab, p.pc,
           z3.BoolVal(not mine[0][1] and set(kw) == {"addr_width", "data_width"} and same(kw["addr_width"], aw) and same(kw["data_width"], dw)))
    mem = p.ghost.get("members", {})
    fv.add("one-In-port-named-bus-with-that-signature", lab, p.pc, z3.BoolVal(set(mem) == {"bus"} and mem["bus"] == ("In", mine[0][3])))
    port = p.heap.get((id(self_), "bus"))
    fv.add("bus-carries-the-very-map-given", lab, p.pc, z3.BoolVal(port is not None and p.heap.get((id(port), "memory_map")) is mp))


def verify_mux_init():
    fv = FnVerifier("csr.bus.Multiplexer.__init__", [])
    fn = find_def(FILE_BUS, "Multiplexer.__init__")
    ex = Exec(FILE_BUS, "Multiplexer", axioms=[])
    events, sigs = [], []
    mp, aw, dw = _map(events)
    ov = Opaque("shadow_overlaps argument")
    self_ = SymObj("Multiplexer", "self")

    def c_check(ex_, recv, a, kw, q, node):
        q.ghost["events"] = q.ghost.get("events", ()) + (("check", a[0] if a else None),)
        bad = q.fork(); bad.ghost["refused_by_check"] = True
        return [(NONE, q), (Raised("refused-by-_check_memory_map"), bad)]
    ex.contracts["self._check_memory_map"] = c_check

    def c_shadow(ex_, recv, a, kw, q, node):
        q.ghost["events"] = q.ghost.get("events", ()) + (("shadow", tuple(a), dict(kw)),)
        return [(SymObj("_Shadow", "a shadow"), q), (Raised("refused-by-_Shadow"), q.fork())]
    ex.contracts["self._Shadow"] = c_shadow
    _component_stubs(ex, sigs)
    q = Path(); q.env.update({"self": self_, "memory_map": mp, "shadow_overlaps": ov})
    outs = ex.run(fn, q)
    fv.paths = len(outs)
    n_ok = 0
    for k, o in enumerate(outs):
        p, lab = o.path, f"path{k}"
        ev = p.ghost.get("events", ())
        if o.kind == "raise":
            fv.add("the-constructor-itself-refuses-nothing", lab, p.pc, z3.BoolVal(o.exc.startswith("refused-by-")))
            continue
        n_ok += 1
        fv.add("accepted-only-after-the-map-was-checked", lab, p.pc, z3.BoolVal(("check", mp) in [e for e in ev if e[0] == "check"]))
        fv.add("overlaps-argument-kept-as-given", lab, p.pc, z3.BoolVal(any(k_[0] == id(self_) and v is ov for k_, v in p.heap.items())))
        _geometry_clauses(fv, lab, p, ex, sigs, mp, aw, dw, self_)
    fv.add("cover:accepting-paths", "vacuity", [], z3.BoolVal(n_ok >= 1))
    fv.add_engine_obligations(ex)
    return fv


def verify_reg_bridge_init(freeze_clause=False):
    fv = FnVerifier("csr.reg.Bridge.__init__", [])
    fn = find_def(FILE_REG, "Bridge.__init__")
    n_ok = 0
    for case in ("foreign", "map"):
        ex = Exec(FILE_REG, "Bridge", axioms=[])
        events, sigs, marks, muxes = [], [], {}, []
        mp, aw, dw = _map(events)
        foreign = Opaque("not a MemoryMap")
        reg, flow, elsig = _register()
        _hooks(ex, reg, flow, elsig, foreign)
        _loop(ex, reg, marks, "memory_map.resources()")
        self_ = SymObj("Bridge", "self")

        def c_mux(ex_, recv, a, kw, q, node, muxes=muxes, events=events):
            obj = SymObj("Multiplexer", "the multiplexer")
            frozen = [e for e in q.ghost.get("events", ()) if e[0] == "freeze"]
            q.ghost["events"] = q.ghost.get("events", ()) + (("Multiplexer", tuple(a), dict(kw), obj, len(frozen)),)
            return [(obj, q), (Raised("refused-by-Multiplexer"), q.fork())]
        ex.contracts["Multiplexer"] = c_mux
        _component_stubs(ex, sigs)
        q = Path(); q.env.update({"self": self_, "memory_map": foreign if case == "foreign" else mp})
        outs = ex.run(fn, q)
        fv.paths += len(outs)
        for k, o in enumerate(outs):
            p, lab = o.path, f"{case}:path{k}"
            if case == "foreign":
                fv.add("foreign-object-refused", lab, p.pc, z3.BoolVal(o.kind == "raise"))
                continue
            if o.kind == "raise":
                if o.exc.startswith("refused-by-"):
                    continue
                in_loop = any(q3 is p for _, q3 in marks.get("refused", []))
                if in_loop:
                    fv.add("inside-the-loop-only-a-resource-that-is-not-a-Register-is-refused", lab, p.pc, z3.Not(IS_REGISTER))
                else:
                    fv.add("outside-the-loop-only-a-map-with-windows-is-refused", lab, p.pc, HAS_WINDOWS)
                continue
            n_ok += 1
            mine_mx = [e[1:] for e in p.ghost.get("events", ()) if e[0] == "Multiplexer"]
            mine_fr = [e for e in p.ghost.get("events", ()) if e[0] == "freeze"]
            if freeze_clause:
                fv.add("an-accepted-map-has-been-frozen", lab, p.pc, z3.BoolVal(len(mine_fr) >= 1 and all(e[1] is mp for e in mine_fr)))
            ok_mx = len(mine_mx) == 1 and (mine_mx[0][0] == (mp,) or (not mine_mx[0][0] and mine_mx[0][1].get("memory_map") is mp))
            fv.add("one-multiplexer-over-that-very-map", lab, p.pc, z3.BoolVal(bool(ok_mx)))
            fv.add("the-multiplexer-is-kept", lab, p.pc,
                   z3.BoolVal(len(mine_mx) == 1 and any(k_[0] == id(self_) and v is mine_mx[0][2] for k_, v in p.heap.items())))
            _geometry_clauses(fv, lab, p, ex, sigs, mp, aw, dw, self_)
        if case == "map":
            fv.add("cover:one-resource-passes-one-is-refused", "vacuity", [], z3.BoolVal(len(marks.get("passed", [])) >= 1 and len(marks.get("refused", [])) >= 1))
        fv.add_engine_obligations(ex)
    fv.add("cover:accepting-paths", "vacuity", [], z3.BoolVal(n_ok >= 1))
    return fv


def verify_monitor_init():
    """event.Monitor.__init__(event_map, trigger="level")   (C13 / C14: the masks are as wide as the event map says, for ANY number of events)
    anything but an EventMap is refused and the constructor itself refuses nothing else; accepted => the three masks `enable`, `pending`,
    `clear` all have width event_map.size, `src` carries a Source.Signature built with the trigger argument AS GIVEN, there is no other
    member, and src.event_map is the very map given"""
    FILE = "amaranth_soc/event.py"
    fv = FnVerifier("event.Monitor.__init__", [])
    fn = find_def(FILE, "Monitor.__init__")
    n_ok = 0
    for case in ("foreign", "map"):
        ex = Exec(FILE, "Monitor", axioms=[])
        n = z3.Int("event_map_size")
        emap = SymObj("EventMap", "event_map"); emap.init_fields["size"] = n
        foreign = Opaque("not an EventMap")
        trig = Opaque("trigger argument")
        sigs = []

        def isinst(v, ty, node, foreign=foreign):
            if v is foreign:
                return z3.BoolVal(False)
            return None
        ex.isinstance_hook = isinst

        def c_sig(ex_, recv, a, k, q, node, sigs=sigs):
            obj = SymObj("Source.Signature", "src signature")
            sigs.append((tuple(a), dict(k), obj))
            return [(obj, q), (Raised("refused-by-Source.Signature"), q.fork())]
        ex.contracts["Source.Signature"] = c_sig
        ex.contracts["In"] = lambda ex_, recv, a, k, q, node: [(("In", a[0]), q)]
        ex.contracts["Out"] = lambda ex_, recv, a, k, q, node: [(("Out", a[0]), q)]
        ex.contracts["super"] = lambda ex_, recv, a, k, q, node: [(Opaque("super()"), q)]
        self_ = SymObj("Monitor", "self")

        class SrcModel:
            def setattr(self, ex_, obj, attr, value, q, node):
                if attr != "event_map":
                    return None
                q.heap[(id(obj), attr)] = value
                q.writes.append((obj.name, attr))
                return [("fall", None, q), ("raise", "refused-by-event_map-setter", q.fork())]

        def c_super_init(ex_, recv, a, k, q, node, self_=self_):
            if not isinstance(a[0], DictLit):
                raise Unsupported("wiring.Component.__init__ with something else than a dict literal")
            q.ghost["members"] = a[0].items
            q.heap[(id(self_), "src")] = SymObj("Source", "self.src", model=SrcModel())
            return [(NONE, q)]
        ex.contracts["super().__init__"] = c_super_init
        q = Path(); q.assume(n >= 0)
        q.env.update({"self": self_, "event_map": foreign if case == "foreign" else emap, "trigger": trig})
        outs = ex.run(fn, q)
        fv.paths += len(outs)
        for k, o in enumerate(outs):
            p, lab = o.path, f"{case}:path{k}"
            if case == "foreign":
                fv.add("foreign-object-refused", lab, p.pc, z3.BoolVal(o.kind == "raise"))
                continue
            if o.kind == "raise":
                fv.add("the-constructor-itself-refuses-nothing", lab, p.pc, z3.BoolVal(o.exc.startswith("refused-by-")))
                continue
            n_ok += 1
            mem = p.ghost.get("members", {})
            fv.add("members-are-src-enable-pending-clear", lab, p.pc, z3.BoolVal(set(mem) == {"src", "enable", "pending", "clear"}))
            if set(mem) != {"src", "enable", "pending", "clear"}:
                continue
            for nm in ("enable", "pending", "clear"):
                w = mem[nm][1] if isinstance(mem[nm], tuple) and len(mem[nm]) == 2 else None
                fv.add(f"mask-{nm}-is-as-wide-as-the-event-map", lab, p.pc, (ex.toint(w) == n) if isinstance(w, (z3.ArithRef, int)) else z3.BoolVal(False))
            ok_src = (len(sigs) == 1 and isinstance(mem["src"], tuple) and mem["src"][1] is sigs[0][2] and not sigs[0][0]
                      and set(sigs[0][1]) == {"trigger"} and sigs[0][1]["trigger"] is trig)
            fv.add("src-signature-built-with-the-trigger-as-given", lab, p.pc, z3.BoolVal(bool(ok_src)))
            src = p.heap.get((id(self_), "src"))
            fv.add("src-carries-the-very-event-map-given", lab, p.pc, z3.BoolVal(src is not None and p.heap.get((id(src), "event_map")) is emap))
        fv.add_engine_obligations(ex)
    fv.add("cover:accepting-paths", "vacuity", [], z3.BoolVal(n_ok >= 1))
    return fv


def _verify_align_to(FILE, cls, qual):
    """Decoder.align_to(alignment): the argument goes UNCHANGED to the bus memory map's align_to, exactly once, and only the map refuses
    (what the method returns is not claimed: no property speaks about it)"""
    fv = FnVerifier(qual, [])
    fn = find_def(FILE, f"{cls}.align_to")
    ex = Exec(FILE, cls, axioms=[])
    calls = []
    result = Opaque("what the map's align_to returned")

    class MapModel:
        def call_align_to(self, ex_, recv, a, kw, q, node):
            q.ghost["align_calls"] = q.ghost.get("align_calls", ()) + ((tuple(a), dict(kw)),)
            return [(result, q), (Raised("refused-by-MemoryMap.align_to"), q.fork())]
    mp = SymObj("MemoryMap", "self.bus.memory_map", model=MapModel())
    bus = SymObj("Interface", "self.bus"); bus.init_fields["memory_map"] = mp
    self_ = SymObj(cls, "self"); self_.init_fields["bus"] = bus
    arg = Opaque("alignment argument")
    q = Path(); q.env.update({"self": self_, "alignment": arg})
    outs = ex.run(fn, q)
    fv.paths = len(outs)
    n_ok = 0
    for k, o in enumerate(outs):
        p, lab = o.path, f"path{k}"
        if o.kind == "raise":
            fv.add("refuses-only-when-the-map-does", lab, p.pc, z3.BoolVal(o.exc.startswith("refused-by-")))
            continue
        n_ok += 1
        c = p.ghost.get("align_calls", ())
        fv.add("argument-forwarded-unchanged-exactly-once", lab, p.pc,
               z3.BoolVal(len(c) == 1 and ((c[0][0] == (arg,) and not c[0][1]) or (not c[0][0] and set(c[0][1]) == {"alignment"} and c[0][1]["alignment"] is arg))))
    fv.add("cover:accepting-paths", "vacuity", [], z3.BoolVal(n_ok >= 1))
    fv.add_engine_obligations(ex)
    return fv


def verify_csr_decoder_align_to():
    return _verify_align_to(FILE_BUS, "Decoder", "csr.bus.Decoder.align_to")


def verify_wb_decoder_align_to():
    return _verify_align_to("amaranth_soc/wishbone/bus.py", "Decoder", "wishbone.bus.Decoder.align_to")


def verify_reg_bridge_init_freezes():
    return verify_reg_bridge_init(freeze_clause=True)


ALL = [verify_mux_check_memory_map, verify_mux_init, verify_reg_bridge_init, verify_monitor_init, verify_csr_decoder_align_to, verify_wb_decoder_align_to]
