"""C11 (L1 part): csr.reg.Register.elaborate under contract (pyvc) - the packing of fields into the register's element, for ANY
number of fields of ANY widths and access modes.

The Amaranth objects are RECORDING STUBS: `m.d.comb += [a.eq(b), ...]`, `m.submodules[...] = f` and `m.submodules += f` are logged
with the path condition under which they are issued; `x[slice(lo, hi)]` is the pair (x, lo, hi).  The loop
`for field_path, field in self` is verified by invariant: PS(k) is the sum of the widths of the first k fields (ghost prefix
sum, PS(0) = 0, PS(k+1) = PS(k) + W(k)), and one arbitrary iteration k is executed from `field_start == PS(k)`:
  invariant-established            field_start == PS(0) == 0 before the loop
  invariant-preserved              every way of finishing an iteration (fall through, continue) leaves field_start == PS(k+1)
  readable-field-wired             field k readable:  element.r_data[PS(k) : PS(k)+W(k)] := field.port.r_data  and
                                   field.port.r_stb := element.r_stb, and nothing else drives them
  non-readable-field-not-wired     field k not readable: no statement mentions its r_data / r_stb
  writable-field-wired / non-writable-field-not-wired     likewise with w_data / w_stb
  field-is-a-submodule             every field is registered as a submodule exactly once
  no-other-statement               nothing but these statements is issued in an iteration
What the statements MEAN in hardware (Amaranth's semantics of slices and assignments) is covered per configuration by the L2
clauses read_pack / write_slice / strobe_only_by_mode of C11.
"""
import z3
from vf.pyvc.engine import Exec, Path, SymObj, Dyn, Opaque, NONE, Raised, Tup, SliceV, Empty, find_def, Unsupported, T_TUPLE
from vf.pyvc.driver import FnVerifier

FILE = "amaranth_soc/csr/reg.py"
I = z3.IntSort()
W = z3.Function("FieldWidth", I, I)
PS = z3.Function("WidthPrefixSum", I, I)
Rd = z3.Function("FieldReadable", I, z3.BoolSort())
Wr = z3.Function("FieldWritable", I, z3.BoolSort())
K = z3.Int("field_index")
# the definition of the prefix sum, instantiated at the one index the obligations speak about (quantifier-free: decided either way)
AX = [K >= 0, W(K) >= 0, PS(K + 1) == PS(K) + W(K), PS(0) == 0, PS(K) >= 0]


class Sig:
    """a signal (or a slice of one): (owner tag, name, lo, hi) with lo = hi = None for the whole signal"""
    def __init__(self, tag, lo=None, hi=None):
        self.tag, self.lo, self.hi = tag, lo, hi


class SigModel:
    def __init__(self, log):
        self.log = log

    def getitem(self, ex, recv, key, q, node):
        if not isinstance(key, SliceV):
            raise Unsupported("signal subscript other than a slice object")
        o = SymObj("Signal", recv.name + "[slice]", model=self)
        o.sig = Sig(recv.sig.tag, key.lo, key.hi)
        return [(o, q)]

    def getslice(self, ex, recv, lo, hi, q, node):
        # x[lo:hi] with an open end: the end is the signal's own length (a fresh symbol: nothing is known about it here)
        o = SymObj("Signal", recv.name + "[slice]", model=self)
        o.sig = Sig(recv.sig.tag, ex.toint(lo, node) if lo is not None else z3.IntVal(0),
                    ex.toint(hi, node) if hi is not None else z3.FreshInt("len_of_" + recv.sig.tag.replace(".", "_")))
        return o

    def call_eq(self, ex, recv, args, kwargs, q, node):
        src = args[0]
        if not (isinstance(src, SymObj) and hasattr(src, "sig")):
            raise Unsupported("eq() from something that is not a signal")
        return [(("assign", recv.sig, src.sig), q)]


def signal(name, log):
    o = SymObj("Signal", name, model=SigModel(log))
    o.sig = Sig(name)
    return o


class DomainModel:
    """m.d.comb / m.d.sync: `+= stmt` or `+= [stmts]`"""
    def __init__(self, log, which):
        self.log, self.which = log, which

    def binop(self, ex, recv, op, value, q, node):
        import ast
        if not isinstance(op, ast.Add):
            raise Unsupported("operator on a domain other than +=")
        stmts = list(value) if isinstance(value, tuple) and not (len(value) == 3 and value[0] == "assign") else [value]
        for st in stmts:
            if not (isinstance(st, tuple) and len(st) == 3 and st[0] == "assign"):
                raise Unsupported(f"statement {st!r} added to m.d.{self.which}")
            self.log.append((self.which, st[1], st[2], q.fork()))
        return recv


class SubmodulesModel:
    def __init__(self, log):
        self.log = log

    def setitem(self, ex, recv, key, value, q, node):
        self.log.append(("submodule", "named", value, q.fork()))
        return [("fall", None, q)]

    def binop(self, ex, recv, op, value, q, node):
        self.log.append(("submodule", "anonymous", value, q.fork()))
        return recv


def verify_register_elaborate():
    fv = FnVerifier("csr.reg.Register.elaborate", AX)
    fn = find_def(FILE, "Register.elaborate")
    ex = Exec(FILE, "Register", axioms=AX)
    log = []
    k = K

    def c_module(ex_, recv, a, kw, q, node):
        m = SymObj("Module", "m")
        d = SymObj("Domains", "m.d")
        d.init_fields["comb"] = SymObj("Domain", "m.d.comb", model=DomainModel(log, "comb"))
        d.init_fields["sync"] = SymObj("Domain", "m.d.sync", model=DomainModel(log, "sync"))
        m.init_fields["d"] = d
        m.init_fields["submodules"] = SymObj("Submodules", "m.submodules", model=SubmodulesModel(log))
        return [(m, q)]
    ex.contracts["Module"] = c_module
    ex.contracts['"__".join'] = lambda ex_, recv, a, kw, q, node: [(Opaque("submodule name"), q)]
    ex.contracts["'__'.join"] = ex.contracts['"__".join']

    def c_shape_cast(ex_, recv, a, kw, q, node):
        o = SymObj("Shape", "shape")
        o.init_fields["width"] = W(k)
        return [(o, q)]
    ex.contracts["Shape.cast"] = c_shape_cast

    class AccessModel:
        def call_readable(self, ex_, recv, a, kw, q, node):
            return [(Rd(k), q)]

        def call_writable(self, ex_, recv, a, kw, q, node):
            return [(Wr(k), q)]

    class RegAccessModel:
        """the register's own access mode (an arbitrary one; by the constructor's check every field's mode is within it)"""
        def call_readable(self, ex_, recv, a, kw, q, node):
            return [(z3.Bool("register_readable"), q)]

        def call_writable(self, ex_, recv, a, kw, q, node):
            return [(z3.Bool("register_writable"), q)]

    def eq_hook(a_, b_, node):
        # field.port.access == FieldPort.Access.NC  <=>  neither readable nor writable (enum with members R, W, RW, NC)
        for x, y in ((a_, b_), (b_, a_)):
            if isinstance(x, SymObj) and isinstance(x.model, AccessModel) and isinstance(y, Opaque):
                name = y.what.split(".")[-1]
                table = {"NC": z3.And(z3.Not(Rd(k)), z3.Not(Wr(k))), "R": z3.And(Rd(k), z3.Not(Wr(k))),
                         "W": z3.And(z3.Not(Rd(k)), Wr(k)), "RW": z3.And(Rd(k), Wr(k))}
                if name in table:
                    return table[name]
        return None
    ex.equal_hook = eq_hook

    self_ = SymObj("Register", "self")
    elem = SymObj("Element", "self.element")
    for nm in ("r_data", "r_stb", "w_data", "w_stb"):
        elem.init_fields[nm] = signal("element." + nm, log)
    elem.init_fields["access"] = SymObj("Access", "self.element.access", model=RegAccessModel())
    self_.init_fields["element"] = elem
    self_.init_fields["_element"] = elem
    field = SymObj("FieldAction", "field")
    port = SymObj("FieldPort", "field.port")
    for nm in ("r_data", "r_stb", "w_data", "w_stb"):
        port.init_fields[nm] = signal("field.port." + nm, log)
    port.init_fields["shape"] = Opaque("shape")
    port.init_fields["access"] = SymObj("Access", "field.port.access", model=AccessModel())
    field.init_fields["port"] = port
    state = {}

    def loop(ex_, st_node, path):
        """for field_path, field in self: invariant field_start == PS(index); one arbitrary iteration k"""
        out = []
        ex_.oblige("invariant-established:field_start==prefix-sum(0)", path, ex_.toint(path.env["field_start"]) == PS(0), st_node)
        for named in (True, False):
            body = path.fork()
            body.assume(z3.And(k >= 0))
            body.env = dict(body.env)
            body.env["field_start"] = PS(k)
            fp = Dyn(f"field_path_{named}")
            body.assume(z3.And(fp.tag == T_TUPLE, fp.nonempty == z3.BoolVal(named)))
            mark = len(log)
            for kind, _, q2 in ex_.assign(st_node.target, Tup((fp, field)), body, st_node):
                for kind2, val2, q3 in ex_.block(st_node.body, q2):
                    if kind2 in ("fall", "continue"):
                        ex_.oblige(f"invariant-preserved:field_start==prefix-sum(k+1)[{kind2}]", q3,
                                   ex_.toint(q3.env["field_start"]) == PS(k + 1), st_node)
                        state.setdefault("ends", []).append((named, q3, mark))
                    elif kind2 == "break":
                        ex_.oblige("no-break-out-of-the-field-loop", q3, z3.BoolVal(False), st_node)
                    else:
                        out.append((kind2, val2, q3))
        out.append(("fall", None, path))
        return out
    ex.loop_invariants[0] = loop
    q = Path()
    q.env.update({"self": self_, "platform": Opaque("platform")})
    outs = ex.run(fn, q)
    fv.paths = len(outs)
    for n_, o in enumerate(outs):
        fv.add("no-exception", f"path{n_}", o.path.pc, z3.BoolVal(o.kind == "return"))
    # per end-of-iteration path: the statements issued on (a prefix of) that path
    n_iter = 0
    for named, qend, mark in state.get("ends", []):
        n_iter += 1
        lab = f"{'named' if named else 'single-unnamed'}:iteration-end{n_iter}"
        mine = [e for e in log[mark:] if all(any(f.eq(g) for g in qend.pc) for f in e[-1].pc)]
        stm = [e for e in mine if e[0] in ("comb", "sync")]
        subs = [e for e in mine if e[0] == "submodule"]

        def find(dst_tag, src_tag):
            return [e for e in stm if e[1].tag == dst_tag and e[2].tag == src_tag]
        lo, hi = PS(k), PS(k) + W(k)
        rd = find("element.r_data", "field.port.r_data"); rs = find("field.port.r_stb", "element.r_stb")
        wd = find("field.port.w_data", "element.w_data"); ws = find("field.port.w_stb", "element.w_stb")
        sliced_ok = lambda e, which: z3.And(getattr(e, which).lo == lo, getattr(e, which).hi == hi) if getattr(e, which).lo is not None else z3.BoolVal(False)
        fv.add("readable-field-wired", lab, qend.pc,
               z3.Implies(Rd(k), z3.And(z3.BoolVal(len(rd) == 1 and len(rs) == 1 and rd[0][0] == "comb" and rs[0][0] == "comb"
                                                    and rs[0][1].lo is None and rs[0][2].lo is None and rd[0][2].lo is None),
                                        sliced_ok(rd[0][1], "self") if False else (z3.And(rd[0][1].lo == lo, rd[0][1].hi == hi) if rd and rd[0][1].lo is not None else z3.BoolVal(False)))))
        fv.add("non-readable-field-not-wired", lab, qend.pc, z3.Implies(z3.Not(Rd(k)), z3.BoolVal(not rd and not rs)))
        fv.add("writable-field-wired", lab, qend.pc,
               z3.Implies(Wr(k), z3.And(z3.BoolVal(len(wd) == 1 and len(ws) == 1 and wd[0][0] == "comb" and ws[0][0] == "comb"
                                                    and ws[0][1].lo is None and ws[0][2].lo is None and wd[0][1].lo is None),
                                        z3.And(wd[0][2].lo == lo, wd[0][2].hi == hi) if wd and wd[0][2].lo is not None else z3.BoolVal(False))))
        fv.add("non-writable-field-not-wired", lab, qend.pc, z3.Implies(z3.Not(Wr(k)), z3.BoolVal(not wd and not ws)))
        fv.add("field-is-a-submodule-exactly-once", lab, qend.pc,
               z3.BoolVal(len(subs) == 1 and subs[0][2] is field and subs[0][1] == ("named" if named else "anonymous")))
        fv.add("no-other-statement", lab, qend.pc, z3.BoolVal(len(stm) == len(rd) + len(rs) + len(wd) + len(ws)))
    fv.add("cover:iterations-explored", "vacuity", [], z3.BoolVal(n_iter >= 8))
    from .hdlrec import stores_nothing_on_the_component as _frame
    _frame(fv, ex)
    fv.add_engine_obligations(ex)
    return fv


ALL = [verify_register_elaborate]
