"""C04/C05 (hash lemma): Multiplexer._Shadow.decode_address / encode_offset, re-read from /repo's source on every run.

These two functions are straight-line integer code with bit operators (&, |, ~), which the Int-based pyvc encoding leaves
uninterpreted.  Here the SAME source text is interpreted over 32-bit two's-complement bit-vectors, which coincides with
Python's unbounded integers as long as every intermediate value stays below 2**30 in magnitude -- guaranteed by the stated
bound: addresses and shadow sizes below 2**15.  So this is a QF_BV decision for ALL register ranges, shadow sizes and
addresses inside 15-bit address spaces (bounded in WIDTH, exhaustive within the bound; labelled bounded, not proof).
`ceil_log2(n)` is a ghost k with 2**k >= n > 2**(k-1) (k = 0 for n <= 1)  [amaranth.utils, assumed; Lean: clog2_spec].
Lemmas, for a register range [start, stop), shadow size 2**S with S >= k (what add()/prepare() establish), start <= a < stop:
   offset-in-shadow     0 <= decode(a) < size
   low-bits-kept        decode(a) % 2**k == a % 2**k
   round-trip           encode_offset(decode_address(a)) == a
   injective            a != a2 (both in range)  =>  decode(a) != decode(a2)
"""
import ast
import z3
from vf.pyvc.engine import find_def, Unsupported
from vf.pyvc.driver import FnVerifier

FILE = "amaranth_soc/csr/bus.py"
W = 32
BOUND = 15


def bv(x):
    return z3.BitVecVal(x, W)


def pymod(a, m):
    """Python's a % m for m > 0 on two's-complement values"""
    r = z3.SRem(a, m)
    return z3.If(r < 0, r + m, r)


class BVEval:
    """evaluates the body of a straight-line function over 32-bit bit-vectors; `assert` -> assumption list (they are the
    function's own pre-conditions here), `return e` -> value"""

    def __init__(self, env, clog2):
        self.env, self.clog2 = dict(env), clog2
        self.asserts = []
        self.side = []          # side conditions (modulus > 0, exponent in range)

    def run(self, fn):
        for st in fn.body:
            if isinstance(st, ast.Expr) and isinstance(st.value, ast.Constant):
                continue
            if isinstance(st, ast.Assert):
                continue        # `reg_range in self._ranges and addr in reg_range`: membership is the lemma's pre-condition
            if isinstance(st, ast.Assign) and len(st.targets) == 1 and isinstance(st.targets[0], ast.Name):
                self.env[st.targets[0].id] = self.ev(st.value)
                continue
            if isinstance(st, ast.Return):
                return self.ev(st.value)
            raise Unsupported(f"{FILE}:{st.lineno}: statement {type(st).__name__} in a shadow hash function")
        raise Unsupported("no return")

    def ev(self, e):
        if isinstance(e, ast.Constant) and isinstance(e.value, int):
            return bv(e.value)
        if isinstance(e, ast.Name):
            return self.env[e.id]
        if isinstance(e, ast.Attribute):
            key = ast.unparse(e)
            if key in self.env:
                return self.env[key]
            raise Unsupported(f"{FILE}:{e.lineno}: attribute {key}")
        if isinstance(e, ast.UnaryOp) and isinstance(e.op, ast.Invert):
            return ~self.ev(e.operand)
        if isinstance(e, ast.UnaryOp) and isinstance(e.op, ast.USub):
            return -self.ev(e.operand)
        if isinstance(e, ast.BinOp):
            if isinstance(e.op, ast.Pow):
                if not (isinstance(e.left, ast.Constant) and e.left.value == 2):
                    raise Unsupported(f"{FILE}:{e.lineno}: ** with base other than 2")
                k = self.ev(e.right)
                self.side.append(z3.And(k >= 0, k <= BOUND + 1))
                return bv(1) << k
            a, b = self.ev(e.left), self.ev(e.right)
            if isinstance(e.op, ast.Add): return a + b
            if isinstance(e.op, ast.Sub): return a - b
            if isinstance(e.op, ast.BitAnd): return a & b
            if isinstance(e.op, ast.BitOr): return a | b
            if isinstance(e.op, ast.Mod):
                self.side.append(b > 0)
                return pymod(a, b)
            if isinstance(e.op, ast.LShift):
                self.side.append(z3.And(b >= 0, b <= BOUND + 1)); return a << b
            if isinstance(e.op, ast.RShift):
                self.side.append(z3.And(b >= 0, b < W)); return a >> b
            raise Unsupported(f"{FILE}:{e.lineno}: operator {type(e.op).__name__}")
        if isinstance(e, ast.Call) and ast.unparse(e.func) == "ceil_log2":
            return self.clog2(self.ev(e.args[0]))
        if isinstance(e, ast.Call) and ast.unparse(e.func) == "len" and ast.unparse(e.args[0]) == "reg_range":
            return self.env["reg_range.stop"] - self.env["reg_range.start"]
        raise Unsupported(f"{FILE}:{getattr(e, 'lineno', '?')}: expression {ast.unparse(e)[:60]}")


def verify_shadow_hash():
    fv = FnVerifier("csr.bus.Multiplexer._Shadow.decode_address/encode_offset", [])
    dec = find_def(FILE, "Multiplexer._Shadow.decode_address")
    enc = find_def(FILE, "Multiplexer._Shadow.encode_offset")
    start, stop, S, a, a2 = [z3.BitVec(n, W) for n in ("start", "stop", "S", "addr", "addr2")]
    k = z3.BitVec("k", W)
    n = stop - start
    lim = bv(1 << BOUND)
    # ghost ceil_log2: the same k for every call with the same argument (it is a function)
    pre = [start >= 0, start < stop, stop <= lim, k >= 0, k <= BOUND,
           (bv(1) << k) >= n, z3.Or(k == 0, (bv(1) << (k - 1)) < n),
           S >= k, S <= BOUND, start <= a, a < stop, start <= a2, a2 < stop]
    size = bv(1) << S

    def clog2(x):
        return k       # only ever applied to reg_range.stop - reg_range.start in these functions (checked below)

    def run(fn, extra):
        env = {"reg_range.start": start, "reg_range.stop": stop, "self.size": size, "self._size": size}
        env.update(extra)
        ev = BVEval(env, clog2)
        # every ceil_log2 argument must be the range length, otherwise the ghost k would be wrong
        for node in ast.walk(fn):
            if isinstance(node, ast.Call) and ast.unparse(node.func) == "ceil_log2":
                if ast.unparse(node.args[0]).replace(" ", "") not in ("reg_range.stop-reg_range.start", "len(reg_range)"):
                    raise Unsupported(f"{FILE}:{node.lineno}: ceil_log2 of {ast.unparse(node.args[0])}")
        return ev.run(fn), ev.side

    d1, s1 = run(dec, {"addr": a})
    d2, s2 = run(dec, {"addr": a2})
    e1, s3 = run(enc, {"offset": d1})
    mask = (bv(1) << k) - 1
    fv.paths = 3

    def replay(model):
        from amaranth_soc.csr.bus import Multiplexer
        g = lambda t: model.eval(t, model_completion=True).as_signed_long()
        st, sp, SS, aa, bb = g(start), g(stop), g(S), g(a), g(a2)
        sh = Multiplexer._Shadow(8, None, name="replay")
        sh.add(range(st, sp))
        while sh.size < (1 << SS):
            sh._size *= 2
        r = range(st, sp)
        d_a, d_b = sh.decode_address(aa, r), sh.decode_address(bb, r)
        back = sh.encode_offset(d_a, r)
        facts = {"range": [st, sp], "shadow_size": sh.size, "addr": aa, "addr2": bb, "decode(addr)": d_a, "decode(addr2)": d_b,
                 "encode(decode(addr))": back}
        broken = (not (0 <= d_a < sh.size)) or back != aa or (aa != bb and d_a == d_b) or (d_a % (1 << g(k))) != (aa % (1 << g(k)))
        agree = d_a == g(d1) and back == g(e1)
        return bool(broken and agree), {"confirmed": bool(broken and agree), "how": "real Multiplexer._Shadow built with this range and size; "
                                        "decode_address/encode_offset called natively", "facts": facts,
                                        "engine_prediction": {"decode(addr)": g(d1), "encode(decode(addr))": g(e1)}}
    fv.default_replay = replay
    fv.add("side-conditions(modulus>0, exponents in range)", "all", pre, z3.And(*(s1 + s2 + s3)))
    fv.add("offset-in-shadow", "all", pre, z3.And(d1 >= 0, d1 < size))
    fv.add("low-bits-kept", "all", pre, (d1 & mask) == (a & mask))
    fv.add("round-trip:encode_offset(decode_address(a))==a", "all", pre, e1 == a)
    fv.add("injective-on-one-register", "all", pre + [a != a2], d1 != d2)
    fv.add("canary:decode-is-identity", "vacuity", pre, d1 == a, expect_sat=True)
    return fv


ALL = [verify_shadow_hash]
