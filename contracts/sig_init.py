"""C20 (L1 part): the constructors of all six signature classes, for ALL parameter values (pyvc; parameters are tagged values).

wishbone.Signature.__init__   accepts iff addr_width is an int >= 0, data_width and granularity are in {8,16,32,64} (granularity defaults
                              to the data width), granularity <= data_width, and every feature converts; the optional-feature iterable is
                              gone through EXACTLY ONCE (it may be a one-shot iterator); the four parameters are stored as given (features
                              as a frozenset of Feature members); the member table handed to wiring.Signature is exactly
                              adr Out(aw), dat_w Out(dw), dat_r In(dw), sel Out(dw // g), cyc stb we Out(1), ack In(1), and for each
                              optional feature its signal with the documented direction iff the feature is in the set
csr.Signature.__init__        accepts iff both widths are positive ints; members addr Out(aw), r_data In(dw), r_stb Out(1), w_data Out(dw), w_stb Out(1)
csr.Element.Signature.__init__  accepts iff width is an int >= 0 and the access mode converts; r_data In(w) + r_stb Out(1) iff readable,
                              w_data Out(w) + w_stb Out(1) iff writable, nothing else
event.Source.Signature.__init__  accepts iff the trigger converts; converted mode kept; i Out(1), trg In(1)
gpio.PinSignature.__init__    never refuses; i In(unsigned(1)), o Out(unsigned(1)), oe Out(unsigned(1))
csr.FieldPort.Signature.__init__  accepts iff the shape is shape-like and the access converts; cast shape and converted access kept;
                              r_data In(shape), r_stb Out(1), w_data Out(shape), w_stb Out(1) whatever the access mode
Collaborators (wiring.Signature.__init__, In/Out, Feature(), Element.Access()) are recording stubs; what a member table means to
wiring.connect() is Amaranth's (assumed; `connects` clause of C20 per configuration).
"""
import z3
from vf.pyvc.engine import Exec, Path, SymObj, Dyn, Opaque, NONE, Raised, DictLit, find_def, T_INT, Unsupported
from vf.pyvc.driver import FnVerifier

HasF = z3.Function("FeatureGiven", z3.IntSort(), z3.BoolSort())        # the iterable yields this feature (by index of its name)
FEATS = ["err", "rty", "stall", "lock", "cti", "bte"]
ALL_VALID = z3.Bool("every_given_feature_converts")


def member(direction, shape):
    return ("member", direction, shape)


def same_member(got, direction, shape):
    if not (isinstance(got, tuple) and len(got) == 3 and got[0] == "member" and got[1] == direction):
        return z3.BoolVal(False)
    g = got[2]
    if isinstance(shape, str):
        return z3.BoolVal(isinstance(g, Opaque) and g.what == shape)
    if isinstance(g, Dyn):
        return z3.And(g.tag == T_INT, g.ival == shape)
    if isinstance(g, (z3.ArithRef, int)):
        return g == shape
    return z3.BoolVal(False)


def common(ex):
    ex.contracts["Out"] = lambda ex_, recv, a, k, q, node: [(member("Out", a[0]), q)]
    ex.contracts["In"] = lambda ex_, recv, a, k, q, node: [(member("In", a[0]), q)]
    ex.contracts["super"] = lambda ex_, recv, a, k, q, node: [(Opaque("super()"), q)]

    def c_super_init(ex_, recv, a, k, q, node):
        if not isinstance(a[0], (DictLit,)) and not (hasattr(a[0], "kind") and a[0].kind == "dict"):
            raise Unsupported("wiring.Signature.__init__ with something else than a member table built from dict literals")
        q.ghost["members"] = dict(a[0].items) if isinstance(a[0], DictLit) else {}
        return [(NONE, q)]
    ex.contracts["super().__init__"] = c_super_init


def check_members(fv, lab, p, want):
    """want: {name: (direction, shape) or None(absent), ...} with z3 conditions where optional: {name: (cond, direction, shape)}"""
    got = p.ghost.get("members")
    fv.add("member-table-handed-to-wiring", lab, p.pc, z3.BoolVal(got is not None))
    if got is None:
        return
    for name, spec in want.items():
        cond, direction, shape = spec
        present = name in got
        ok = z3.And(cond, same_member(got[name], direction, shape)) if present else z3.Not(cond)
        fv.add(f"member:{name}", lab, p.pc, ok)
    fv.add("no-other-member", lab, p.pc, z3.BoolVal(set(got) <= set(want)))


def verify_wb_signature_init():
    FILE = "amaranth_soc/wishbone/bus.py"
    fv = FnVerifier("wishbone.bus.Signature.__init__", [])
    fn = find_def(FILE, "Signature.__init__")
    ex = Exec(FILE, "Signature", axioms=[])
    ex.class_files = {"Signature": FILE}
    common(ex)
    counts = []

    class OneShot:
        """the `features` argument: any iterable, possibly a one-shot iterator"""
        def iterated(self, ex_, obj, q, node):
            q.ghost["features_iterated"] = q.ghost.get("features_iterated", 0) + 1

    class FeatureSet:
        def contains(self, ex_, recv, item, q, node):
            if isinstance(item, Opaque) and item.what.startswith("global:Feature."):
                nm = item.what.split(".")[-1].lower()
                if nm in FEATS:
                    return HasF(z3.IntVal(FEATS.index(nm)))
            raise Unsupported(f"{item!r} in features")
    fset = SymObj("frozenset", "converted features", model=FeatureSet())

    def c_frozenset(ex_, recv, a, k, q, node):
        if not a:
            return [(SymObj("frozenset", "empty", model=FeatureSet()), q)]
        g = a[0]
        if not (isinstance(g, Opaque) and g.what == "genexp" and getattr(g, "source", None) is feats_arg):
            raise Unsupported("frozenset() of something else than a generator over the `features` argument")
        import ast as _ast
        if _ast.unparse(g.node.elt) != f"Feature({g.node.generators[0].target.id})" or g.node.generators[0].ifs or len(g.node.generators) != 1:
            raise Unsupported(f"features converted by {_ast.unparse(g.node.elt)}")
        bad = q.fork()
        bad.assume(z3.Not(ALL_VALID)); q.assume(ALL_VALID)
        q.ghost["features_converted"] = True
        return [(fset, q), (Raised("ValueError"), bad)]
    ex.contracts["frozenset"] = c_frozenset
    feats_arg = SymObj("iterable", "features", model=OneShot())
    self_ = SymObj("Signature", "self")
    aw, dw, g = Dyn("addr_width"), Dyn("data_width"), Dyn("granularity")
    q = Path()
    q.assume(z3.And(aw.wf(), dw.wf(), g.wf()))
    q.env.update({"self": self_, "addr_width": aw, "data_width": dw, "granularity": g, "features": feats_arg})
    outs = ex.run(fn, q)
    fv.paths = len(outs)
    widths = lambda v: z3.Or(*[v == w for w in (8, 16, 32, 64)])
    from vf.pyvc.engine import T_NONE
    g_eff = z3.If(g.tag == T_NONE, dw.ival, g.ival)
    g_ok = z3.Or(z3.And(g.tag == T_NONE), z3.And(g.tag == T_INT, widths(g.ival)))
    geometry_ok = z3.And(aw.tag == T_INT, aw.ival >= 0, dw.tag == T_INT, widths(dw.ival), g_ok, g_eff <= dw.ival)
    n_ok = 0
    for k, o in enumerate(outs):
        p, lab = o.path, f"path{k}"
        if o.kind == "raise":
            fv.add("refuses-only-invalid-parameters", lab, p.pc, z3.Not(z3.And(geometry_ok, ALL_VALID)))
            fv.add("refuses-with-TypeError-or-ValueError", lab, p.pc, z3.BoolVal(o.exc in ("TypeError", "ValueError")))
            fv.add("features-iterated-at-most-once", lab, p.pc, z3.BoolVal(p.ghost.get("features_iterated", 0) <= 1))
            continue
        n_ok += 1
        fv.add("accepts-only-valid-parameters", lab, p.pc, z3.And(geometry_ok, ALL_VALID))
        fv.add("features-iterated-exactly-once", lab, p.pc, z3.BoolVal(p.ghost.get("features_iterated", 0) == 1 and p.ghost.get("features_converted", False)))
        H = lambda n: p.heap.get((id(self_), n))
        ival = lambda v: v.ival if isinstance(v, Dyn) else v
        fv.add("parameters-stored-as-given", lab, p.pc,
               z3.And(z3.BoolVal(H("_addr_width") is aw and H("_data_width") is dw and H("_features") is fset),
                      ival(H("_granularity")) == g_eff if H("_granularity") is not None else z3.BoolVal(False)))
        T = z3.BoolVal(True)
        want = {"adr": (T, "Out", aw.ival), "dat_w": (T, "Out", dw.ival), "dat_r": (T, "In", dw.ival), "sel": (T, "Out", dw.ival / g_eff),
                "cyc": (T, "Out", 1), "stb": (T, "Out", 1), "we": (T, "Out", 1), "ack": (T, "In", 1)}
        F = lambda n: HasF(z3.IntVal(FEATS.index(n)))
        want.update({"err": (F("err"), "In", 1), "rty": (F("rty"), "In", 1), "stall": (F("stall"), "In", 1), "lock": (F("lock"), "Out", 1),
                     "cti": (F("cti"), "Out", "global:CycleType"), "bte": (F("bte"), "Out", "global:BurstTypeExt")})
        check_members(fv, lab, p, want)
    fv.add("cover:accepting-paths", "vacuity", [], z3.BoolVal(n_ok >= 2))
    fv.add_engine_obligations(ex)
    return fv


def verify_csr_signature_init():
    FILE = "amaranth_soc/csr/bus.py"
    fv = FnVerifier("csr.bus.Signature.__init__", [])
    fn = find_def(FILE, "Signature.__init__")
    ex = Exec(FILE, "Signature", axioms=[])
    ex.class_files = {"Signature": FILE}
    common(ex)
    self_ = SymObj("Signature", "self")
    aw, dw = Dyn("addr_width"), Dyn("data_width")
    q = Path()
    q.assume(z3.And(aw.wf(), dw.wf()))
    q.env.update({"self": self_, "addr_width": aw, "data_width": dw})
    outs = ex.run(fn, q)
    fv.paths = len(outs)
    valid = z3.And(aw.tag == T_INT, aw.ival > 0, dw.tag == T_INT, dw.ival > 0)
    n_ok = 0
    for k, o in enumerate(outs):
        p, lab = o.path, f"path{k}"
        if o.kind == "raise":
            fv.add("refuses-only-invalid-parameters", lab, p.pc, z3.Not(valid))
            fv.add("refuses-with-TypeError", lab, p.pc, z3.BoolVal(o.exc == "TypeError"))
            continue
        n_ok += 1
        fv.add("accepts-only-valid-parameters", lab, p.pc, valid)
        fv.add("parameters-stored-as-given", lab, p.pc, z3.BoolVal(p.heap.get((id(self_), "_addr_width")) is aw and p.heap.get((id(self_), "_data_width")) is dw))
        T = z3.BoolVal(True)
        check_members(fv, lab, p, {"addr": (T, "Out", aw.ival), "r_data": (T, "In", dw.ival), "r_stb": (T, "Out", 1),
                                   "w_data": (T, "Out", dw.ival), "w_stb": (T, "Out", 1)})
    fv.add("cover:accepting-paths", "vacuity", [], z3.BoolVal(n_ok >= 1))
    fv.add_engine_obligations(ex)
    return fv


def verify_element_signature_init():
    FILE = "amaranth_soc/csr/bus.py"
    fv = FnVerifier("csr.bus.Element.Signature.__init__", [])
    fn = find_def(FILE, "Element.Signature.__init__")
    ex = Exec(FILE, "Element.Signature", axioms=[])
    ex.class_files = {"Element.Signature": FILE}
    common(ex)
    R, W, CONV = z3.Bools("access_readable access_writable access_converts")

    class AccessModel:
        def call_readable(self, ex_, recv, a, k, q, node):
            return [(R, q)]

        def call_writable(self, ex_, recv, a, k, q, node):
            return [(W, q)]
    acc = SymObj("Access", "converted access", model=AccessModel())

    def c_access(ex_, recv, a, k, q, node):
        if a[0] is not access_arg:
            raise Unsupported("Element.Access() of something else than the `access` argument")
        bad = q.fork(); bad.assume(z3.Not(CONV)); q.assume(CONV)
        return [(acc, q), (Raised("ValueError"), bad)]
    ex.contracts["Element.Access"] = c_access
    access_arg = Opaque("access argument")
    self_ = SymObj("Element.Signature", "self")
    w = Dyn("width")
    q = Path()
    q.assume(w.wf())
    q.env.update({"self": self_, "width": w, "access": access_arg})
    outs = ex.run(fn, q)
    fv.paths = len(outs)
    valid = z3.And(w.tag == T_INT, w.ival >= 0, CONV)
    n_ok = 0
    for k, o in enumerate(outs):
        p, lab = o.path, f"path{k}"
        if o.kind == "raise":
            fv.add("refuses-only-invalid-parameters", lab, p.pc, z3.Not(valid))
            continue
        n_ok += 1
        fv.add("accepts-only-valid-parameters", lab, p.pc, valid)
        fv.add("parameters-stored-as-given", lab, p.pc, z3.BoolVal(p.heap.get((id(self_), "_width")) is w and p.heap.get((id(self_), "_access")) is acc))
        check_members(fv, lab, p, {"r_data": (R, "In", w.ival), "r_stb": (R, "Out", 1), "w_data": (W, "Out", w.ival), "w_stb": (W, "Out", 1)})
    fv.add("cover:accepting-paths", "vacuity", [], z3.BoolVal(n_ok >= 4))
    fv.add_engine_obligations(ex)
    return fv


def verify_source_signature_init():
    """event.Source.Signature.__init__(trigger="level"): accepts iff the trigger converts to a Source.Trigger; keeps the CONVERTED mode;
    members i Out(1), trg In(1), nothing else"""
    FILE = "amaranth_soc/event.py"
    fv = FnVerifier("event.Source.Signature.__init__", [])
    fn = find_def(FILE, "Source.Signature.__init__")
    ex = Exec(FILE, "Source.Signature", axioms=[])
    ex.class_files = {"Source.Signature": FILE}
    common(ex)
    CONV = z3.Bool("trigger_converts")
    trig_arg = Opaque("trigger argument")
    mode = SymObj("Trigger", "converted trigger")

    def c_trigger(ex_, recv, a, k, q, node):
        if not (len(a) == 1 and a[0] is trig_arg):
            raise Unsupported("Source.Trigger() of something else than the `trigger` argument")
        bad = q.fork(); bad.assume(z3.Not(CONV)); q.assume(CONV)
        return [(mode, q), (Raised("ValueError"), bad)]
    ex.contracts["Source.Trigger"] = c_trigger
    self_ = SymObj("Source.Signature", "self")
    q = Path(); q.env.update({"self": self_, "trigger": trig_arg})
    outs = ex.run(fn, q)
    fv.paths = len(outs)
    n_ok = 0
    for k, o in enumerate(outs):
        p, lab = o.path, f"path{k}"
        if o.kind == "raise":
            fv.add("refuses-only-invalid-parameters", lab, p.pc, z3.Not(CONV))
            continue
        n_ok += 1
        fv.add("accepts-only-valid-parameters", lab, p.pc, CONV)
        fv.add("converted-trigger-mode-kept", lab, p.pc, z3.BoolVal(any(k_[0] == id(self_) and v is mode for k_, v in p.heap.items())))
        T = z3.BoolVal(True)
        check_members(fv, lab, p, {"i": (T, "Out", 1), "trg": (T, "In", 1)})
    fv.add("cover:accepting-paths", "vacuity", [], z3.BoolVal(n_ok >= 1))
    fv.add_engine_obligations(ex)
    return fv


def verify_pin_signature_init():
    """gpio.PinSignature.__init__(): no parameters, never refuses; members i In(unsigned(1)), o Out(unsigned(1)), oe Out(unsigned(1)), nothing
    else (`unsigned(w)` is represented by its width w)"""
    FILE = "amaranth_soc/gpio.py"
    fv = FnVerifier("gpio.PinSignature.__init__", [])
    fn = find_def(FILE, "PinSignature.__init__")
    ex = Exec(FILE, "PinSignature", axioms=[])
    common(ex)
    ex.contracts["unsigned"] = lambda ex_, recv, a, k, q, node: [(ex_.toint(a[0], node), q)]
    self_ = SymObj("PinSignature", "self")
    q = Path(); q.env.update({"self": self_})
    outs = ex.run(fn, q)
    fv.paths = len(outs)
    n_ok = 0
    for k, o in enumerate(outs):
        p, lab = o.path, f"path{k}"
        fv.add("never-refuses", lab, p.pc, z3.BoolVal(o.kind != "raise"))
        if o.kind == "raise":
            continue
        n_ok += 1
        fv.add("accepts-only-valid-parameters", lab, p.pc, z3.BoolVal(True))
        T = z3.BoolVal(True)
        check_members(fv, lab, p, {"i": (T, "In", 1), "o": (T, "Out", 1), "oe": (T, "Out", 1)})
    fv.add("cover:accepting-paths", "vacuity", [], z3.BoolVal(n_ok >= 1))
    fv.add_engine_obligations(ex)
    return fv


def verify_fieldport_signature_init():
    """csr.FieldPort.Signature.__init__(shape, access): accepts iff the shape is shape-like and the access mode converts; keeps the CAST
    shape and the CONVERTED access; members r_data In(cast shape), r_stb Out(1), w_data Out(cast shape), w_stb Out(1) - all four whatever
    the access mode - and nothing else"""
    FILE = "amaranth_soc/csr/reg.py"
    fv = FnVerifier("csr.reg.FieldPort.Signature.__init__", [])
    fn = find_def(FILE, "FieldPort.Signature.__init__")
    ex = Exec(FILE, "FieldPort.Signature", axioms=[])
    ex.class_files = {"FieldPort.Signature": FILE}
    common(ex)
    SHAPELIKE, CONV = z3.Bools("shape_is_shape_like access_converts")
    shape_arg, access_arg = Opaque("shape argument"), Opaque("access argument")
    cast = SymObj("Shape", "Shape.cast(shape)")
    acc = SymObj("Access", "converted access")

    def isinst(v, ty, node):
        if v is shape_arg and ty.split(".")[-1] == "ShapeLike":
            return SHAPELIKE
        return None
    ex.isinstance_hook = isinst

    def c_cast(ex_, recv, a, k, q, node):
        if not (len(a) == 1 and a[0] is shape_arg):
            raise Unsupported("Shape.cast() of something else than the `shape` argument")
        ex_.oblige("Shape.cast-only-of-a-shape-like-object", q, SHAPELIKE, node)
        return [(cast, q)]
    ex.contracts["Shape.cast"] = c_cast

    def c_access(ex_, recv, a, k, q, node):
        if not (len(a) == 1 and a[0] is access_arg):
            raise Unsupported("FieldPort.Access() of something else than the `access` argument")
        bad = q.fork(); bad.assume(z3.Not(CONV)); q.assume(CONV)
        return [(acc, q), (Raised("ValueError"), bad)]
    ex.contracts["FieldPort.Access"] = c_access
    self_ = SymObj("FieldPort.Signature", "self")
    q = Path(); q.env.update({"self": self_, "shape": shape_arg, "access": access_arg})
    outs = ex.run(fn, q)
    fv.paths = len(outs)
    valid = z3.And(SHAPELIKE, CONV)
    n_ok = 0
    for k, o in enumerate(outs):
        p, lab = o.path, f"path{k}"
        if o.kind == "raise":
            fv.add("refuses-only-invalid-parameters", lab, p.pc, z3.Not(valid))
            continue
        n_ok += 1
        fv.add("accepts-only-valid-parameters", lab, p.pc, valid)
        kept = [v for k_, v in p.heap.items() if k_[0] == id(self_)]
        fv.add("cast-shape-and-converted-access-kept", lab, p.pc, z3.BoolVal(any(v is cast for v in kept) and any(v is acc for v in kept)))
        got = p.ghost.get("members")
        fv.add("member-table-handed-to-wiring", lab, p.pc, z3.BoolVal(got is not None))
        if got is not None:
            want = {"r_data": ("In", cast), "r_stb": ("Out", 1), "w_data": ("Out", cast), "w_stb": ("Out", 1)}
            for name, (direction, shape) in want.items():
                g = got.get(name)
                if shape is cast:
                    ok = z3.BoolVal(isinstance(g, tuple) and len(g) == 3 and g[0] == "member" and g[1] == direction and g[2] is cast)
                else:
                    ok = same_member(g, direction, shape) if g is not None else z3.BoolVal(False)
                fv.add(f"member:{name}", lab, p.pc, ok)
            fv.add("no-other-member", lab, p.pc, z3.BoolVal(set(got) <= set(want)))
    fv.add("cover:accepting-paths", "vacuity", [], z3.BoolVal(n_ok >= 1))
    fv.add_engine_obligations(ex)
    return fv


def _verify_create(FILE, sig_cls, qual, callee, params, self_positional=False):
    """S.create(path=..., src_loc_at=...): ONE call of the interface class with exactly the signature's own parameters (each read through
    its property, i.e. the value the constructor stored); its result is returned.  (Path and source location are not claimed.)"""
    fv = FnVerifier(qual, [])
    fn = find_def(FILE, f"{sig_cls}.create")
    ex = Exec(FILE, sig_cls, axioms=[])
    ex.class_files = {sig_cls: FILE}
    self_ = SymObj(sig_cls, "self")
    stored = {p_: Opaque(f"stored {p_}") for p_ in params}
    for p_, v in stored.items():
        self_.init_fields["_" + p_] = v
    path_arg = Opaque("path argument")
    calls = []
    made = SymObj("Interface", "the created interface")

    def c_iface(ex_, recv, a, k, q, node):
        calls.append((tuple(a), dict(k)))
        return [(made, q), (Raised("refused-by-the-interface-class"), q.fork())]
    ex.contracts[callee] = c_iface
    q = Path(); q.env.update({"self": self_, "path": path_arg, "src_loc_at": z3.Int("src_loc_at")})
    outs = ex.run(fn, q)
    fv.paths = len(outs)
    n_ok = 0
    for k, o in enumerate(outs):
        if o.kind == "raise":
            fv.add("create-itself-refuses-nothing", f"path{k}", o.path.pc, z3.BoolVal(o.exc.startswith("refused-by-")))
            continue
        n_ok += 1
        fv.add("returns-the-created-interface", f"path{k}", o.path.pc, z3.BoolVal(o.value is made))
    fv.add("interface-class-called-exactly-once", "all", [], z3.BoolVal(len(calls) == 1))
    if len(calls) == 1:
        a, kw = calls[0]
        if self_positional:
            fv.add("the-signature-itself-is-handed-over", "all", [], z3.BoolVal(a == (self_,) or (not a and kw.get("signature") is self_)))
        else:
            given = dict(kw)
            for i, v in enumerate(a):
                if i < len(params):
                    given.setdefault(params[i], v)
            for p_ in params:
                fv.add(f"parameter-{p_}-is-the-signature's-own", "all", [], z3.BoolVal(given.get(p_) is stored[p_]))
    fv.add("cover:accepting-paths", "vacuity", [], z3.BoolVal(n_ok >= 1))
    fv.add_engine_obligations(ex)
    return fv


def _verify_interface_init(FILE, cls, qual, sig_callee, params, n_positional=0):
    """Interface.__init__(params..., path=None): ONE signature built from the parameters AS GIVEN and handed to the interface base class;
    the constructor itself refuses nothing (the signature validates)"""
    fv = FnVerifier(qual, [])
    fn = find_def(FILE, f"{cls}.__init__")
    ex = Exec(FILE, cls, axioms=[])
    args = {p_: Opaque(f"{p_} argument") for p_ in params}
    path_arg = Opaque("path argument")
    sigs, sups = [], []
    sig = SymObj("Signature", "the signature")

    def c_sig(ex_, recv, a, k, q, node):
        sigs.append((tuple(a), dict(k)))
        return [(sig, q), (Raised("refused-by-the-signature"), q.fork())]
    ex.contracts[sig_callee] = c_sig
    ex.contracts["super"] = lambda ex_, recv, a, k, q, node: [(Opaque("super()"), q)]

    def c_super_init(ex_, recv, a, k, q, node):
        sups.append((tuple(a), dict(k)))
        return [(NONE, q)]
    ex.contracts["super().__init__"] = c_super_init
    self_ = SymObj(cls, "self")
    q = Path(); q.env.update({"self": self_, "path": path_arg, "src_loc_at": z3.Int("src_loc_at"), **args})
    outs = ex.run(fn, q)
    fv.paths = len(outs)
    n_ok = 0
    for k, o in enumerate(outs):
        if o.kind == "raise":
            fv.add("the-constructor-itself-refuses-nothing", f"path{k}", o.path.pc, z3.BoolVal(o.exc.startswith("refused-by-")))
            continue
        n_ok += 1
    fv.add("one-signature-built", "all", [], z3.BoolVal(len(sigs) == 1))
    if len(sigs) == 1:
        a, kw = sigs[0]
        given = dict(kw)
        for i, v in enumerate(a):
            if i < len(params):
                given.setdefault(params[i], v)
        for p_ in params:
            fv.add(f"signature-parameter-{p_}-as-given", "all", [], z3.BoolVal(given.get(p_) is args[p_]))
    fv.add("that-signature-handed-to-the-interface-base", "all", [],
           z3.BoolVal(len(sups) == 1 and (sups[0][0][:1] == (sig,) or sups[0][1].get("signature") is sig)))
    fv.add("cover:accepting-paths", "vacuity", [], z3.BoolVal(n_ok >= 1))
    fv.add_engine_obligations(ex)
    return fv


WB, CSRB, REG, EV = "amaranth_soc/wishbone/bus.py", "amaranth_soc/csr/bus.py", "amaranth_soc/csr/reg.py", "amaranth_soc/event.py"
ROUND_TRIP = [
    lambda: _verify_create(WB, "Signature", "wishbone.bus.Signature.create", "Interface", ["addr_width", "data_width", "granularity", "features"]),
    lambda: _verify_interface_init(WB, "Interface", "wishbone.bus.Interface.__init__", "Signature", ["addr_width", "data_width", "granularity", "features"]),
    lambda: _verify_create(CSRB, "Signature", "csr.bus.Signature.create", "Interface", ["addr_width", "data_width"]),
    lambda: _verify_interface_init(CSRB, "Interface", "csr.bus.Interface.__init__", "Signature", ["addr_width", "data_width"]),
    lambda: _verify_create(CSRB, "Element.Signature", "csr.bus.Element.Signature.create", "Element", ["width", "access"]),
    lambda: _verify_interface_init(CSRB, "Element", "csr.bus.Element.__init__", "Element.Signature", ["width", "access"]),
    lambda: _verify_create(REG, "FieldPort.Signature", "csr.reg.FieldPort.Signature.create", "FieldPort", [], self_positional=True),
    lambda: _verify_create(EV, "Source.Signature", "event.Source.Signature.create", "Source", ["trigger"]),
    lambda: _verify_interface_init(EV, "Source", "event.Source.__init__", "Source.Signature", ["trigger"]),
]

ALL = [verify_wb_signature_init, verify_csr_signature_init, verify_element_signature_init,
       verify_source_signature_init, verify_pin_signature_init, verify_fieldport_signature_init]
