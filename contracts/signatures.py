"""C20 (L1 part): every Signature.__eq__ is equivalent to "same class and all defining parameters equal".

Parameters are modelled as integers standing for canonical values (enum members, frozensets, cast shapes): equality of
the Python values <=> equality of the integers.  `Shape.cast` is an uninterpreted function (the property compares CAST
shapes).  `other` is either an instance of the same signature class or some foreign object.
"""
import z3
from vf.pyvc.engine import Exec, Path, SymObj, Opaque, find_def, Unsupported
from vf.pyvc.driver import FnVerifier

ShapeCast = z3.Function("ShapeCast", z3.IntSort(), z3.IntSort())

SIGS = [
    # (file, class qualname, isinstance spelling in the source, fields, which fields go through Shape.cast)
    ("amaranth_soc/csr/bus.py", "Signature", "Signature", ["_addr_width", "_data_width"], []),
    ("amaranth_soc/csr/bus.py", "Element.Signature", "Element.Signature", ["_width", "_access"], []),
    ("amaranth_soc/csr/reg.py", "FieldPort.Signature", "FieldPort.Signature", ["_shape", "_access"], ["_shape"]),
    ("amaranth_soc/wishbone/bus.py", "Signature", "Signature", ["_addr_width", "_data_width", "_granularity", "_features"], []),
    ("amaranth_soc/event.py", "Source.Signature", "Source.Signature", ["_trigger"], []),
    ("amaranth_soc/gpio.py", "PinSignature", "PinSignature", [], []),
]


def verify_eq(file, qual, spelling, fields, cast_fields):
    name = f"{file.split('/')[-2] if file.count('/') > 1 else ''}{'.' if file.count('/') > 1 else ''}{file.split('/')[-1][:-3]}.{qual}.__eq__"
    fv = FnVerifier(name, [])
    fn = find_def(file, qual + ".__eq__")
    for case in ("same-class", "foreign"):
        ex = Exec(file, qual, axioms=[])
        ex.class_files = {qual: file}
        ex.contracts["Shape.cast"] = lambda ex_, recv, a, k, q, n: [(ShapeCast(ex_.toint(a[0], n)), q)]
        ex.isinstance_hook = lambda v, ty, node: (z3.BoolVal(isinstance(v, SymObj) and v.cls == qual) if ty == spelling else None)
        q = Path()
        self_ = SymObj(qual, "self")
        for f in fields:
            self_.init_fields[f] = z3.Int(f"self{f}")
        if case == "same-class":
            other = SymObj(qual, "other")
            for f in fields:
                other.init_fields[f] = z3.Int(f"other{f}")
        else:
            other = Opaque("foreign object")
        q.env.update({"self": self_, "other": other})
        outs = ex.run(fn, q)
        fv.paths += len(outs)
        if case == "same-class":
            conj = []
            for f in fields:
                a, b = self_.init_fields[f], other.init_fields[f]
                conj.append(ShapeCast(a) == ShapeCast(b) if f in cast_fields else a == b)
            spec = z3.And(*conj) if conj else z3.BoolVal(True)
        else:
            spec = z3.BoolVal(False)
        for k, o in enumerate(outs):
            fv.add("no-exception", f"{case}:path{k}", o.path.pc, z3.BoolVal(o.kind == "return"))
            if o.kind == "return":
                fv.add("equal-iff-same-class-and-all-parameters-equal", f"{case}:path{k}", o.path.pc, ex.truth(o.value) == spec)
        fv.add_engine_obligations(ex)
    return fv


def all_verifiers():
    return [lambda s=s: verify_eq(*s) for s in SIGS]


# ---- Interface.memory_map setters (geometry of the map is tied to the geometry of the bus) ---------------------------------
def verify_memory_map_setters():
    from vf.pyvc.engine import pow2, POW2_AXIOMS, NONE
    fvs = []
    for file, qual, kind in (("amaranth_soc/csr/bus.py", "Interface", "csr"), ("amaranth_soc/wishbone/bus.py", "Interface", "wishbone")):
        fv = FnVerifier(f"{kind}.bus.Interface.memory_map.setter", POW2_AXIOMS)
        fn = find_def(file, qual + ".memory_map")          # the last definition with that name is the setter
        if len(fn.args.args) != 2:
            raise Unsupported(f"{file}: memory_map setter not found")
        for case in ("map", "foreign"):
            ex = Exec(file, qual, axioms=POW2_AXIOMS)
            ex.class_files = {qual: file, "MemoryMap": "amaranth_soc/memory.py", "Signature": file}
            ex.isinstance_hook = lambda v, ty, node: (z3.BoolVal(isinstance(v, SymObj) and v.cls == "MemoryMap") if ty == "MemoryMap" else None)
            q = Path()
            self_ = SymObj(qual, "self")
            sig = SymObj("Signature", "self.signature")
            aw, dw, g = z3.Ints("bus_aw bus_dw bus_g")
            sig.init_fields.update({"_addr_width": aw, "_data_width": dw, "_granularity": g})
            self_.init_fields["signature"] = sig
            self_.init_fields["_memory_map"] = NONE
            k = z3.Int("granularity_bits")
            # invariants of the signature (checked by its constructor): widths in {8,16,32,64}, granularity <= data width
            if kind == "wishbone":
                q.assume(z3.And(aw >= 0, z3.Or(*[dw == x for x in (8, 16, 32, 64)]), z3.Or(*[g == x for x in (8, 16, 32, 64)]), g <= dw,
                                k >= 0, k <= 3, pow2(k) * g == dw))
                ex.contracts["exact_log2"] = lambda ex_, recv, a, kw, q_, n, k=k, dw=dw, g=g: [(k, q_)]   # exact_log2(dw // g): ghost k with 2**k * g == dw
            else:
                q.assume(z3.And(aw > 0, dw > 0))
            if case == "map":
                mm = SymObj("MemoryMap", "memory_map")
                maw, mdw = z3.Ints("map_aw map_dw")
                mm.init_fields.update({"_addr_width": maw, "_data_width": mdw})
                q.assume(z3.And(maw > 0, mdw > 0))
            else:
                mm = Opaque("not a MemoryMap")
            q.env.update({"self": self_, "memory_map": mm})
            outs = ex.run(fn, q)
            fv.paths += len(outs)
            if case == "map":
                ok = z3.And(maw == aw, mdw == dw) if kind == "csr" else z3.And(mdw == g, maw == z3.If(aw + k >= 1, aw + k, 1))
            for n_, o in enumerate(outs):
                p = o.path
                lab = f"{case}:path{n_}"
                if o.kind == "raise":
                    fv.add("raises-only-TypeError-or-ValueError", lab, p.pc, z3.BoolVal(o.exc in ("TypeError", "ValueError")))
                    fv.add("refuses-only-a-mismatching-map", lab, p.pc, z3.Not(ok) if case == "map" else z3.BoolVal(o.exc == "TypeError"))
                    fv.add("refusal-stores-nothing", lab, p.pc, z3.BoolVal((id(self_), "_memory_map") not in p.heap))
                else:
                    fv.add("accepts-only-a-map-with-the-bus-geometry", lab, p.pc, ok if case == "map" else z3.BoolVal(False))
                    fv.add("stores-the-map", lab, p.pc, z3.BoolVal(p.heap.get((id(self_), "_memory_map")) is mm))
            fv.add_engine_obligations(ex)
        fvs.append(fv)
    return fvs
