"""C20 (L1 part): every Signature.__eq__ is equivalent to "same class and all defining parameters equal".

Parameters are modelled as integers standing for canonical values (enum members, frozensets, cast shapes): equality of
the Python values <=> equality of the integers.  `Shape.cast` is an uninterpreted function (the property compares CAST
shapes).  `other` is either an instance of the same signature class or some foreign object.
"""
import z3
from vf.pyvc.engine import Exec, Path, SymObj, Opaque, find_def
from vf.pyvc.driver import FnVerifier

ShapeCast = z3.Function("ShapeCast", z3.IntSort(), z3.IntSort())

SIGS = [
    # (file, class qualname, isinstance spelling in the source, fields, which fields go through Shape.cast)
    ("amaranth_soc/csr/bus.py", "Signature", "Signature", ["_addr_width", "_data_width"], []),
    ("amaranth_soc/csr/bus.py", "Element.Signature", "Element.Signature", ["_width", "_access"], []),
    ("amaranth_soc/csr/reg.py", "FieldPort.Signature", "FieldPort.Signature", ["_shape", "_access"], ["_shape"]),
    ("amaranth_soc/wishbone/bus.py", "Signature", "Signature", ["_addr_width", "_data_width", "_granularity", "_features"], []),
    ("amaranth_soc/event.py", "Source.Signature", "Source.Signature", ["_trigger"], []),
    ("amaranth_soc/gpio.py", "PinSignature", "PinSignature", [], []),
]


def verify_eq(file, qual, spelling, fields, cast_fields):
    name = f"{file.split('/')[-2] if file.count('/') > 1 else ''}{'.' if file.count('/') > 1 else ''}{file.split('/')[-1][:-3]}.{qual}.__eq__"
    fv = FnVerifier(name, [])
    fn = find_def(file, qual + ".__eq__")
    for case in ("same-class", "foreign"):
        ex = Exec(file, qual, axioms=[])
        ex.class_files = {qual: file}
        ex.contracts["Shape.cast"] = lambda ex_, recv, a, k, q, n: [(ShapeCast(ex_.toint(a[0], n)), q)]
        ex.isinstance_hook = lambda v, ty, node: (z3.BoolVal(isinstance(v, SymObj) and v.cls == qual) if ty == spelling else None)
        q = Path()
        self_ = SymObj(qual, "self")
        for f in fields:
            self_.init_fields[f] = z3.Int(f"self{f}")
        if case == "same-class":
            other = SymObj(qual, "other")
            for f in fields:
                other.init_fields[f] = z3.Int(f"other{f}")
        else:
            other = Opaque("foreign object")
        q.env.update({"self": self_, "other": other})
        outs = ex.run(fn, q)
        fv.paths += len(outs)
        if case == "same-class":
            conj = []
            for f in fields:
                a, b = self_.init_fields[f], other.init_fields[f]
                conj.append(ShapeCast(a) == ShapeCast(b) if f in cast_fields else a == b)
            spec = z3.And(*conj) if conj else z3.BoolVal(True)
        else:
            spec = z3.BoolVal(False)
        for k, o in enumerate(outs):
            fv.add("no-exception", f"{case}:path{k}", o.path.pc, z3.BoolVal(o.kind == "return"))
            if o.kind == "return":
                fv.add("equal-iff-same-class-and-all-parameters-equal", f"{case}:path{k}", o.path.pc, ex.truth(o.value) == spec)
        fv.add_engine_obligations(ex)
    return fv


def all_verifiers():
    return [lambda s=s: verify_eq(*s) for s in SIGS]
