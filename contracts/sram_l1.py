"""C15 (L1 part): the statements issued by the real WishboneSRAM.elaborate(), for EVERY size / data width / granularity / init image
(pyvc with recording hardware stubs; the method has no loop and never looks at the geometry, so two paths - writable or not - cover
every instance).
  submodule                      the memory created by the constructor is the only submodule
  read-address / read-data       read_port.addr := wb_bus.adr (the WHOLE bus address, no slice, no intermediate signal), dat_r := read_port.data
  write-address / write-data     (writable) write_port.addr := wb_bus.adr, write_port.data := wb_bus.dat_w
  ack-clears                     If(wb_bus.ack): ack := 0   (sync)
  ack-sets                       Elif(wb_bus.cyc & wb_bus.stb): ack := 1   (sync)
  write-enable                   (writable) under the same Elif: write_port.en := Mux(we, sel, 0), read_port.en := ~we
  nothing-else                   no other statement on either path; a read-only SRAM never mentions a write port
What these statements mean in hardware (memory port semantics, If/Elif priority) is Amaranth's semantics: assumed here, checked per
configuration by hdlvc (C15 clauses read_data / mem_next / ack_*).
"""
import z3
from vf.pyvc.engine import Exec, Path, SymObj, Opaque, NONE, find_def, Unsupported
from vf.pyvc.driver import FnVerifier
from . import hdlrec
from .hdlrec import Expr, same_expr

FILE = "amaranth_soc/wishbone/sram.py"


def verify_sram_elaborate():
    fv = FnVerifier("wishbone.sram.WishboneSRAM.elaborate", [])
    fn = find_def(FILE, "WishboneSRAM.elaborate")
    ex = Exec(FILE, "WishboneSRAM", axioms=[])
    log = hdlrec.Log()
    m, values = hdlrec.module(log)
    ex.contracts["Module"] = lambda ex_, recv, a, kw, q, node: [(m, q)]
    ex.contracts["Mux"] = lambda ex_, recv, a, kw, q, node: [(values.wrap(Expr("fn", "Mux", tuple(values.operand(ex_, x, node) for x in a))), q)]
    W = z3.Bool("writable")
    self_ = SymObj("WishboneSRAM", "self")
    for nm in ("wb_bus", "_read_port", "_write_port", "_mem"):
        self_.init_fields[nm] = hdlrec.signal(values, nm)
    self_.init_fields["writable"] = W
    self_.init_fields["_writable"] = W
    q = Path()
    q.env.update({"self": self_, "platform": Opaque("platform")})
    outs = ex.run(fn, q)
    fv.paths = len(outs)
    for k, o in enumerate(outs):
        fv.add("no-exception", f"path{k}", o.path.pc, z3.BoolVal(o.kind == "return"))
        fv.add("returns-the-module", f"path{k}", o.path.pc, z3.BoolVal(o.kind == "return" and o.value is m))
    S = lambda *p: _p(p)

    def _p(p):
        e = Expr("sig", p[0])
        for a in p[1:]:
            e = Expr("attr", e, a)
        return e
    wb = lambda s: S("wb_bus", s)
    c_ack = ("If", wb("ack"))
    c_req = ("Elif", Expr("op", "BitAnd", (wb("cyc"), wb("stb"))))
    zero, one = Expr("const", z3.IntVal(0)), Expr("const", z3.IntVal(1))
    exp_w = [("read-address-is-the-bus-address", "comb", S("_read_port", "addr"), wb("adr"), ()),
             ("read-data-to-the-bus", "comb", wb("dat_r"), S("_read_port", "data"), ()),
             ("write-address-is-the-bus-address", "comb", S("_write_port", "addr"), wb("adr"), ()),
             ("write-data-from-the-bus", "comb", S("_write_port", "data"), wb("dat_w"), ()),
             ("ack-clears-after-one-cycle", "sync", wb("ack"), zero, (c_ack,)),
             ("write-enable-is-select-gated-by-we", "comb", S("_write_port", "en"), Expr("fn", "Mux", (wb("we"), wb("sel"), zero)), (c_req,)),
             ("read-enable-is-not-we", "comb", S("_read_port", "en"), Expr("op", "Invert", (wb("we"),)), (c_req,)),
             ("ack-sets-on-a-request", "sync", wb("ack"), one, (c_req,))]
    exp_r = [exp_w[0], exp_w[1], exp_w[4], exp_w[7]]
    n_w = n_r = 0
    for k, o in enumerate(outs):
        if o.kind != "return":
            continue
        # which entries belong to this path: those whose recorded path condition is a prefix of this outcome's
        pcs = [str(c) for c in o.path.pc]
        mine = [e for e in log.entries if [str(c) for c in e["path"].pc] == pcs[:len(e["path"].pc)]]
        s = z3.Solver(); s.add(*o.path.pc); s.add(W)
        is_w = s.check() == z3.sat
        s = z3.Solver(); s.add(*o.path.pc); s.add(z3.Not(W))
        is_r = s.check() == z3.sat
        if is_w and is_r:
            raise Unsupported(f"{FILE}: a path of elaborate() does not depend on `writable`")
        exp = exp_w if is_w else exp_r
        n_w += is_w; n_r += is_r
        lab = "writable" if is_w else "read-only"
        subs = [e for e in mine if e["kind"] == "submodule"]
        fv.add("the-memory-is-the-only-submodule", lab, o.path.pc,
               z3.BoolVal(len(subs) == 1 and getattr(subs[0]["what"], "expr", None) is not None) if len(subs) != 1 else
               same_expr(subs[0]["what"].expr, Expr("sig", "_mem")))
        asg = [e for e in mine if e["kind"] == "assign"]
        fv.add("nothing-else", lab, o.path.pc, z3.BoolVal(len(asg) == len(exp)))
        if len(asg) == len(exp):
            for (nm, dom, dst, src, ctx), e in zip(exp, asg):
                fv.add(nm, lab, e["path"].pc, z3.And(z3.BoolVal(e["domain"] == dom and len(e["ctx"]) == len(ctx)), same_expr(e["dst"], dst), same_expr(e["src"], src),
                                                     *[z3.And(z3.BoolVal(c1[0] == c2[0]), same_expr(c1[1], c2[1])) for c1, c2 in zip(e["ctx"], ctx)]))
    fv.add("cover:both-variants", "vacuity", [], z3.BoolVal(n_w >= 1 and n_r >= 1))
    from .hdlrec import stores_nothing_on_the_component as _frame
    _frame(fv, ex)
    fv.add_engine_obligations(ex)
    return fv


ALL = [verify_sram_elaborate]
