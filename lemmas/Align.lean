/-
Lemmas whose GROUND INSTANCES pyvc adds to the alignment-invariant obligations (contracts/align_inv.py) and to the C03
dense-window steps (contracts/memory_c03.py).  SMT-LIB `mod` on Int with a positive divisor is Lean's `Int.emod` (`%` on ℤ),
so the integer versions below are literally the formulas instantiated.  Checked by `lean lemmas/Align.lean`.
-/
import Mathlib

namespace Verif

/-- INSTANCE `dvd-trans`:  x % a = 0 ∧ a % b = 0 → x % b = 0 (any integers) -/
theorem int_mod_trans (x a b : ℤ) (h₁ : x % a = 0) (h₂ : a % b = 0) : x % b = 0 :=
  Int.emod_eq_zero_of_dvd (dvd_trans (Int.dvd_of_emod_eq_zero h₂) (Int.dvd_of_emod_eq_zero h₁))

/-- INSTANCE `aligned-coarser`:  al ≤ e ∧ x % 2^e = 0 → x % 2^al = 0, with pow2 the SMT function (pow2 k = 2^k for k ≥ 0) -/
theorem int_aligned_coarser (x : ℤ) (al e : ℕ) (h : al ≤ e) (hx : x % (2 : ℤ) ^ e = 0) : x % (2 : ℤ) ^ al = 0 := by
  apply int_mod_trans x ((2 : ℤ) ^ e) ((2 : ℤ) ^ al) hx
  exact Int.emod_eq_zero_of_dvd (pow_dvd_pow 2 h)

/-- INSTANCE `pow2-test`: the power-of-two test of add_window.  r ≥ 1, r & (r-1) = 0, r ≤ 2^al  →  2^al % r = 0 -/
theorem pow2_test_dvd (r al : ℕ) (h0 : 1 ≤ r) (h1 : r &&& (r - 1) = 0) (h2 : r ≤ 2 ^ al) : 2 ^ al % r = 0 := by
  have hne : r ≠ 0 := by omega
  obtain ⟨k, hk⟩ := (Nat.and_sub_one_eq_zero_iff_isPowerOfTwo hne).mp h1
  subst hk
  have hk : k ≤ al := (Nat.pow_le_pow_iff_right (by norm_num)).mp h2
  exact Nat.mod_eq_zero_of_dvd (pow_dvd_pow 2 hk)

/-- INSTANCE `sum-aligned`: x % b = 0 ∧ y % b = 0 → (x + y) % b = 0 -/
theorem int_mod_add (x y b : ℤ) (h₁ : x % b = 0) (h₂ : y % b = 0) : (x + y) % b = 0 :=
  Int.emod_eq_zero_of_dvd (dvd_add (Int.dvd_of_emod_eq_zero h₁) (Int.dvd_of_emod_eq_zero h₂))

/-- INSTANCE `multiples-gap`: two multiples of P > 0 that differ, differ by at least P -/
theorem int_multiples_gap (x y P : ℤ) (hP : 0 < P) (hx : x % P = 0) (hy : y % P = 0) (h : y < x) : y + P ≤ x := by
  obtain ⟨a, rfl⟩ := Int.dvd_of_emod_eq_zero hx
  obtain ⟨b, rfl⟩ := Int.dvd_of_emod_eq_zero hy
  have hab : b < a := by
    by_contra hc
    push Not at hc
    have : P * a ≤ P * b := Int.mul_le_mul_of_nonneg_left hc (le_of_lt hP)
    omega
  have : P * (b + 1) ≤ P * a := Int.mul_le_mul_of_nonneg_left (by omega) (le_of_lt hP)
  rw [mul_add, mul_one] at this
  exact this

/-- INSTANCE `pow2-succ`: 2^(m+1) = 2 * 2^m -/
theorem pow2_succ (m : ℕ) : (2 : ℤ) ^ (m + 1) = 2 * 2 ^ m := by ring

/-- INSTANCE `pow2-add`: 2^(a+b) = 2^a * 2^b -/
theorem pow2_add (a b : ℕ) : (2 : ℤ) ^ (a + b) = 2 ^ a * 2 ^ b := by ring

end Verif
