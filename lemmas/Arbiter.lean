/-
C09, for ALL N: on the *specification* next-owner function ("the requesting initiator closest after the current owner in
cyclic order") the distance from the owner to any other requester strictly decreases at every released cycle.  Hence a
requester is served after at most N-1 grants.  That the generated netlist implements this function is the per-N hdlvc
obligation `next_owner_closest` (vf/props/arbiter.py); `rank_decreases` there is the per-N instance of `rank_decreases` here.
-/
import Mathlib

namespace Verif

/-- cyclic distance from x to y among N initiators -/
def dist (N x y : ℕ) : ℕ := (y + N - x) % N

theorem dist_eq (N x y : ℕ) (hx : x < N) (hy : y < N) :
    dist N x y = if x ≤ y then y - x else y + N - x := by
  unfold dist
  split_ifs with h
  · have : y + N - x = (y - x) + N := by omega
    rw [this, Nat.add_mod_right, Nat.mod_eq_of_lt (by omega)]
  · exact Nat.mod_eq_of_lt (by omega)

theorem dist_lt (N x y : ℕ) (hx : x < N) (hy : y < N) : dist N x y < N := by
  rw [dist_eq N x y hx hy]; split_ifs <;> omega

theorem dist_pos_of_ne (N x y : ℕ) (hx : x < N) (hy : y < N) (h : x ≠ y) : 0 < dist N x y := by
  rw [dist_eq N x y hx hy]; split_ifs <;> omega

/-- `nxt` is the requester closest after `g`: it requests, is not g, and no other requester is strictly closer -/
def IsNext (N : ℕ) (req : ℕ → Prop) (g nxt : ℕ) : Prop :=
  nxt < N ∧ req nxt ∧ nxt ≠ g ∧ ∀ j, j < N → req j → j ≠ g → dist N g nxt ≤ dist N g j

/-- the ranking argument: after a released cycle the new owner is strictly closer to every other requester -/
theorem rank_decreases (N : ℕ) (req : ℕ → Prop) (g nxt k : ℕ) (hg : g < N) (hk : k < N)
    (hnext : IsNext N req g nxt) (hreq : req k) (hkg : k ≠ g) :
    dist N nxt k < dist N g k := by
  obtain ⟨hn, _, hng, hmin⟩ := hnext
  have hle := hmin k hk hreq hkg
  have hpos := dist_pos_of_ne N g nxt hg hn (Ne.symm hng)
  rw [dist_eq N g nxt hg hn] at hle hpos
  rw [dist_eq N g k hg hk] at hle ⊢
  rw [dist_eq N nxt k hn hk]
  split_ifs at hle hpos ⊢ <;> omega

/-- served after at most N-1 grants: the distance is below N and drops by at least one per released cycle -/
theorem served_within (N g k : ℕ) (hg : g < N) (hk : k < N) : dist N g k ≤ N - 1 := by
  have := dist_lt N g k hg hk; omega

/-- position, in program order, of the conditional assignment `if req v: grant := v` inside `Case(g)` of Arbiter.elaborate:
    first the predecessors g-1, ..., 0, then the successors N-1, ..., g+1 (contracts/arbiter_l1.py proves that the real source
    issues exactly these statements at exactly these positions, for every N) -/
def pos (N g v : ℕ) : ℕ := if v < g then g - 1 - v else g + (N - 1 - v)

/-- "the last assignment whose condition holds wins" picks the requester closest after the owner, for ALL N -/
theorem last_wins_is_next (N : ℕ) (req : ℕ → Prop) (g w : ℕ) (hg : g < N) (hw : w < N) (hwg : w ≠ g) (hreq : req w)
    (hlast : ∀ v, v < N → v ≠ g → req v → pos N g v ≤ pos N g w) : IsNext N req g w := by
  refine ⟨hw, hreq, hwg, ?_⟩
  intro j hj hrj hjg
  have h := hlast j hj hjg hrj
  rw [dist_eq N g w hg hw, dist_eq N g j hg hj]
  unfold pos at h
  split_ifs at h ⊢ <;> omega

/-- and when nobody else requests, no assignment fires: the owner stays -/
theorem nobody_else_no_assignment (N : ℕ) (req : ℕ → Prop) (g : ℕ)
    (hnone : ∀ v, v < N → v ≠ g → ¬ req v) : ¬ ∃ v, v < N ∧ v ≠ g ∧ req v := by
  rintro ⟨v, hv, hvg, hr⟩
  exact hnone v hv hvg hr

end Verif
