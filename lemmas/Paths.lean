/-
The structural half of "the paths reported by all_resources() are pairwise distinct" (property C18).
The SMT half (contracts/naming.py) proves, for every map: the first element of every reported path is a visible name whose
origin is the range entry the resource was reached through, and first elements of different origins are different names.
Here: one level of the tree.  `L` is the list, per range entry, of the paths reported through that entry
(a resource: its one-element path; a named window: the child's paths each prefixed with the window name; an anonymous
window: the child's paths unchanged).  If each entry's list is duplicate-free (induction hypothesis on the child, kept by
prefixing) and paths of different entries start differently, the concatenation all_resources() yields is duplicate-free.
-/
import Mathlib

namespace Verif

variable {Name : Type}

/-- prefixing a window name keeps a duplicate-free list duplicate-free -/
theorem prefixed_nodup (w : Name) (l : List (List Name)) (h : l.Nodup) :
    (l.map (fun p => w :: p)).Nodup :=
  h.map (List.cons_injective)

/-- lists whose members start differently are disjoint -/
theorem disjoint_of_heads (l₁ l₂ : List (List Name))
    (h : ∀ p ∈ l₁, ∀ q ∈ l₂, p.head? ≠ q.head?) : l₁.Disjoint l₂ := by
  intro p hp hq
  exact h p hp p hq rfl

/-- one level of the tree -/
theorem level_nodup (L : List (List (List Name))) (h₁ : ∀ l ∈ L, l.Nodup)
    (h₂ : L.Pairwise (fun l₁ l₂ => ∀ p ∈ l₁, ∀ q ∈ l₂, p.head? ≠ q.head?)) : L.flatten.Nodup := by
  rw [List.nodup_flatten]
  exact ⟨h₁, h₂.imp (fun h => disjoint_of_heads _ _ h)⟩

end Verif
