/-
Lemma library behind the axioms that pyvc's SMT encoding uses (vf/pyvc/engine.py: POW2_AXIOMS, the power-of-two test,
CLOG2_AXIOMS) and behind the cut lemmas of contracts/memory_c03.py.  Checked by `lean lemmas/Pow2.lean` (Lean 4 + Mathlib).
-/
import Mathlib

namespace Verif

/-- POW2_AXIOMS[0]: 2^i ≥ 1 -/
theorem pow2_pos (i : ℕ) : 1 ≤ 2 ^ i := Nat.one_le_two_pow

/-- POW2_AXIOMS[1]: monotone and divisible -/
theorem pow2_mono_dvd (i j : ℕ) (h : i ≤ j) : 2 ^ i ≤ 2 ^ j ∧ 2 ^ j % 2 ^ i = 0 := by
  constructor
  · exact Nat.pow_le_pow_right (by norm_num) h
  · exact Nat.mod_eq_zero_of_dvd (pow_dvd_pow 2 h)

/-- `_align_up`: the result of the Python body is the least multiple of P that is ≥ v -/
theorem align_up_spec (v P : ℕ) (hP : 0 < P) :
    v ≤ (if v % P ≠ 0 then v + (P - v % P) else v) ∧
    (if v % P ≠ 0 then v + (P - v % P) else v) < v + P ∧
    (if v % P ≠ 0 then v + (P - v % P) else v) % P = 0 := by
  by_cases h : v % P = 0
  · have hn : ¬ (v % P ≠ 0) := by simpa using h
    rw [if_neg hn]
    exact ⟨le_refl _, by omega, h⟩
  · have hlt : v % P < P := Nat.mod_lt _ hP
    rw [if_pos h]
    refine ⟨by omega, by omega, ?_⟩
    have hv : P * (v / P) + v % P = v := Nat.div_add_mod v P
    have : v + (P - v % P) = P * (v / P + 1) := by
      rw [Nat.mul_add, Nat.mul_one]; omega
    rw [this]; exact Nat.mul_mod_right _ _

/-- uniqueness: two multiples of P in a window of length P coincide (so the post-condition pins the result down) -/
theorem least_multiple_unique (v P r₁ r₂ : ℕ) (_hP : 0 < P)
    (h₁ : v ≤ r₁ ∧ r₁ < v + P ∧ r₁ % P = 0) (h₂ : v ≤ r₂ ∧ r₂ < v + P ∧ r₂ % P = 0) : r₁ = r₂ := by
  obtain ⟨a₁, b₁, c₁⟩ := h₁
  obtain ⟨a₂, b₂, c₂⟩ := h₂
  obtain ⟨k₁, hk₁⟩ := Nat.dvd_of_mod_eq_zero c₁
  obtain ⟨k₂, hk₂⟩ := Nat.dvd_of_mod_eq_zero c₂
  subst hk₁ hk₂
  rcases Nat.lt_trichotomy k₁ k₂ with h | h | h
  · have : P * (k₁ + 1) ≤ P * k₂ := Nat.mul_le_mul_left P h
    rw [Nat.mul_add, Nat.mul_one] at this; omega
  · rw [h]
  · have : P * (k₂ + 1) ≤ P * k₁ := Nat.mul_le_mul_left P h
    rw [Nat.mul_add, Nat.mul_one] at this; omega

/-- dense-window translation (contracts/memory_c03.py, `translation_lemma`):
    for ρ ≥ 1 with ρ ∣ s and ρ ∣ e:  b + s/ρ ≤ a < b + e/ρ  ↔  s ≤ (a-b)·ρ < e -/
theorem dense_window_translation (a b s e ρ : ℤ) (hρ : 1 ≤ ρ) (hs : ρ ∣ s) (he : ρ ∣ e) :
    (b + s / ρ ≤ a ∧ a < b + e / ρ) ↔ (s ≤ (a - b) * ρ ∧ (a - b) * ρ < e) := by
  obtain ⟨sq, rfl⟩ := hs
  obtain ⟨eq, rfl⟩ := he
  have hpos : 0 < ρ := by omega
  have hne : ρ ≠ 0 := by omega
  rw [Int.mul_ediv_cancel_left _ hne, Int.mul_ediv_cancel_left _ hne]
  constructor
  · rintro ⟨h1, h2⟩
    constructor
    · have : sq ≤ a - b := by omega
      nlinarith
    · have : a - b < eq := by omega
      nlinarith
  · rintro ⟨h1, h2⟩
    constructor
    · have : sq ≤ a - b := by
        by_contra hc
        push Not at hc
        have : (a - b) + 1 ≤ sq := by omega
        nlinarith
      omega
    · have : a - b < eq := by
        by_contra hc
        push Not at hc
        nlinarith
      omega

/-- divisibility lemmas that were tried as SMT axioms (DESIGN.md 8.3 item 4) -/
theorem mod_trans (x a b : ℕ) (h₁ : x % a = 0) (h₂ : a % b = 0) : x % b = 0 :=
  Nat.mod_eq_zero_of_dvd (Nat.dvd_trans (Nat.dvd_of_mod_eq_zero h₂) (Nat.dvd_of_mod_eq_zero h₁))

theorem mod_add (x y b : ℕ) (h₁ : x % b = 0) (h₂ : y % b = 0) : (x + y) % b = 0 :=
  Nat.mod_eq_zero_of_dvd (Nat.dvd_add (Nat.dvd_of_mod_eq_zero h₁) (Nat.dvd_of_mod_eq_zero h₂))

/-- the alignment invariant that pyvc could not carry (DESIGN.md 8.3 item 4), here once and for all:
    a multiple of 2^e with al ≤ e is a multiple of 2^al -/
theorem aligned_coarser (x al e : ℕ) (h : al ≤ e) (hx : x % 2 ^ e = 0) : x % 2 ^ al = 0 :=
  mod_trans x (2 ^ e) (2 ^ al) hx (pow2_mono_dvd al e h).2

/-- CLOG2_AXIOMS: characterisation of ceil_log2 (amaranth.utils.ceil_log2 n = Nat.clog 2 n for n ≥ 1) -/
theorem clog2_spec (n : ℕ) (_hn : 1 ≤ n) :
    n ≤ 2 ^ Nat.clog 2 n ∧ (Nat.clog 2 n = 0 ∨ 2 ^ (Nat.clog 2 n - 1) < n) := by
  constructor
  · exact Nat.le_pow_clog (by norm_num) n
  · by_cases h1 : n ≤ 1
    · left
      exact Nat.clog_of_right_le_one h1 2
    · right
      have hx : 1 < n := by omega
      have := Nat.pow_pred_clog_lt_self (b := 2) (by norm_num) hx
      simpa [Nat.pred_eq_sub_one] using this

end Verif
