#!/bin/bash
# Build the offline tool venv used by every check. Idempotent; safe to run concurrently (flock).
# Python 3.12 venv derived from /venv (which holds Amaranth and the editable amaranth-soc install
# pointing at /repo), plus z3-solver / cvc5 / jsonschema from the offline wheelhouse.
set -e
cd "$(dirname "$0")"
VENV="$PWD/.venv"
WHEELS=/opt/veriftools/wheels
exec 9>"$PWD/.venv.lock"
flock 9
if [ ! -x "$VENV/bin/python" ] || ! "$VENV/bin/python" -c "import z3, cvc5, jsonschema, amaranth" 2>/dev/null; then
    rm -rf "$VENV"
    /venv/bin/python -m venv "$VENV"
    PIP_NO_INDEX=1 "$VENV/bin/pip" install -q --no-index --find-links "$WHEELS" z3-solver cvc5 jsonschema >/dev/null
    SP=$("$VENV/bin/python" -c "import site; print(site.getsitepackages()[0])")
    echo "import site; site.addsitedir('/venv/lib/python3.12/site-packages')" > "$SP/zz_base_venv.pth"
    "$VENV/bin/python" -c "import z3, cvc5, jsonschema, amaranth"
fi
if [ "$1" = "--with-lean" ]; then
    "$VENV/bin/python" -m vf.lean_check --build || true
fi
