#!/usr/bin/env python3
"""tools/addcheck.py ID category engine 'technique' 'text' [design_ref]  -- add/replace a check in tools/checks.json and regenerate MANIFEST.json"""
import json, sys, os, subprocess
HERE = os.path.dirname(os.path.dirname(os.path.abspath(__file__)))
p = os.path.join(HERE, "tools", "checks.json")
t = json.load(open(p))
pid, cat, eng, tech, text = sys.argv[1:6]
t["checks"][pid] = {"category": cat, "engine": eng, "technique": tech, "text": text, "design_ref": sys.argv[6] if len(sys.argv) > 6 else f"DESIGN.md §3 {pid}"}
t["not_applicable"] = [n for n in t["not_applicable"] if n["property_id"] != pid]
for e in t["engines"]:
    if e["name"] == eng.split("+")[0] and pid not in e["serves_properties"]:
        e["serves_properties"].append(pid)
json.dump(t, open(p, "w"), indent=1)
subprocess.run([os.path.join(HERE, ".venv/bin/python"), os.path.join(HERE, "tools/gen_manifest.py")])
