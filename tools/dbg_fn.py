#!/usr/bin/env python3
"""debug helper: tools/dbg_fn.py contracts.memory_c02:verify_add_resource [clause-substring] [timeout_ms]
runs one function verifier and prints every obligation that is not discharged (or all matching the substring)"""
import sys, os, time, importlib, multiprocessing as mp
sys.path.insert(0, os.path.dirname(os.path.dirname(os.path.abspath(__file__))))
sys.path.insert(0, os.environ.get("VERIF_REPO", "/repo"))
from vf.pyvc.driver import _solve
mod, fn = sys.argv[1].split(":")
sub = sys.argv[2] if len(sys.argv) > 2 else ""
tmo = int(sys.argv[3]) if len(sys.argv) > 3 else 30000
t = time.time()
fv = getattr(importlib.import_module(mod), fn)()
obs = [o for o in fv.obs if sub in o.clause]
print(f"{len(fv.obs)} obligations generated in {time.time()-t:.1f}s; solving {len(obs)}")
with mp.get_context("fork").Pool(16) as pool:
    res = pool.map(_solve, [(o.smt2, tmo, False, []) for o in obs if o.smt2], chunksize=1)
it = iter(res)
res = [next(it) if o.smt2 else ("unsat", None, 0.0, "simplify") for o in obs]
for o, r in zip(obs, res):
    want = "sat" if o.expect_sat else "unsat"
    if r[0] != want or sub:
        print(f"{r[0]:8s} {r[2]:6.1f}s {r[3]:8s} {o.clause} :: {o.label}  {str(r[1])[:80] if r[0]=='unknown' else ''}")
if os.environ.get("DUMP"):
    for k, o in enumerate(obs):
        open(f"{os.environ['DUMP']}/{k}.smt2", "w").write(o.smt2)
