#!/usr/bin/env python3
"""Generate /verif/MANIFEST.json from the table below (kept in one place so it stays valid)."""
import json, os, sys

HERE = os.path.dirname(os.path.dirname(os.path.abspath(__file__)))

L2_NOTE = ("Trusted: Amaranth 0.5.10 front end + NIR lowering (defines the DSL's meaning); the NIR->z3 translator "
           "(co-simulated against amaranth.sim on every configuration, mismatch = exit 3); z3 QF_BV. "
           "Bounded stand-in in the CONFIGURATION dimension (enumerated small scope + seeded random); per "
           "configuration every obligation covers all input values, all states and, through induction, all cycles. "
           "Never counted as proved.")
L1_NOTE = ("Trusted: pyvc's encoding of the Python subset (ints as mathematical integers - exact; assumed stdlib "
           "contracts for bisect/list/dict/range/sorted; exception messages dropped), cross-checked against CPython on "
           "seeded inputs every run; z3/cvc5. Unbounded in all arguments and all object states satisfying the "
           "representation invariant, hence all call histories.")

CHECKS = {
    # id: (level category, level text, design_ref, technique, note)
}


def load_checks():
    path = os.path.join(HERE, "tools", "checks.json")
    return json.load(open(path))


def main():
    table = load_checks()
    checks = []
    for pid, c in sorted(table["checks"].items()):
        checks.append({
            "property_id": pid,
            "quick_cmd": f"./check {pid} --tier quick",
            "thorough_cmd": f"./check {pid} --tier thorough",
            "evidence_file": f"evidence/{pid}.json",
            "replay_cmd_template": f"./check {pid} --replay {{path}}",
            "engine": c.get("engine", "hdlvc"),
            "level_claimed": {"category": c["category"], "text": c["text"], "design_ref": c.get("design_ref", "DESIGN.md §3")},
            "level_note": c.get("note") or (L1_NOTE if c.get("engine") == "pyvc" else L2_NOTE),
            "technique": c["technique"],
        })
    manifest = {
        "version": 1,
        "setup_cmd": "./setup.sh --with-lean",
        "hooks": {
            "guard": "AMARANTH_SOC_VERIF",
            "enable": "none needed: contracts are sidecar files under /verif; checks import /repo's working tree directly",
            "baseline_off_cmd": "cd /repo && /venv/bin/python -m pytest -ra -q -p no:cacheprovider --timeout=900 --continue-on-collection-errors",
            "source_commits": [],
            "add_only": True,
        },
        "engines": table.get("engines", []),
        "checks": checks,
        "notes": table.get("notes", ""),
        "not_applicable": table.get("not_applicable", []),
    }
    with open(os.path.join(HERE, "MANIFEST.json"), "w") as f:
        json.dump(manifest, f, indent=1)
    try:
        import jsonschema
        jsonschema.validate(manifest, json.load(open("/root/.vp/MANIFEST.schema.json")))
        print("MANIFEST.json valid;", len(checks), "checks,", len(manifest["not_applicable"]), "not_applicable")
    except ImportError:
        print("MANIFEST.json written (jsonschema not available to validate)")


if __name__ == "__main__":
    main()
