#!/bin/bash
# tools/mutate.sh <ID> '<python expr: s.replace(old,new)>' file  -- run a check against a scratch copy of /repo with one textual mutation
# usage: tools/mutate.sh C02 amaranth_soc/memory.py 'OLD' 'NEW'
set -e
ID=$1; FILE=$2; OLD=$3; NEW=$4
D=$(mktemp -d /tmp/mut.XXXXXX)
trap "rm -rf $D" EXIT
cp -r /repo/amaranth_soc $D/
python3 - "$D/$FILE" "$OLD" "$NEW" <<'PY'
import sys
p,old,new=sys.argv[1:4]
s=open(p).read()
assert s.count(old)>=1, "pattern not found"
open(p,'w').write(s.replace(old,new,1))
PY
cd /verif
VERIF_EVIDENCE_DIR=$D/evidence VERIF_REPLAY_DIR=$D/replays VERIF_REPO=$D ./check $ID --tier quick | grep -v "^  refuted" | cut -c1-220 | tail -${5:-6}
echo "exit=${PIPESTATUS[0]}"
