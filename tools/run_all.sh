#!/bin/bash
# Run every registered check (quick tier by default) on the unchanged tree; print exit codes. Regenerates evidence/.
cd "$(dirname "$0")/.."
TIER=${1:-quick}
fail=0
for id in $(python3 -c "import json; print(' '.join(c['property_id'] for c in json.load(open('MANIFEST.json'))['checks']))"); do
  s=$(date +%s)
  out=$(./check $id --tier $TIER 2>&1); rc=$?
  e=$(date +%s)
  echo "$id exit=$rc $((e-s))s $(echo "$out" | grep "^\[$id\]" | cut -c1-150)"
  [ $rc -ne 0 ] && { fail=1; echo "$out" | grep -v "^\[" | head -5; }
done
exit $fail
