#!/usr/bin/env python3
"""Seeded-change bookkeeping.

  tools/seed.py import  <src _seed dir> <name> <property> ["needs text"]   copy patch/demo/notes into seeded/<name>/
  tools/seed.py verify  <name>        scratch worktree of /repo HEAD: patch applies, 290 tests pass, demo fails with / passes without
  tools/seed.py check   <name> <ID>.. apply to /repo, run ./check <ID> (quick), ALWAYS revert; records caught_by in meta.json
"""
import json, os, subprocess, sys, shutil, tempfile

VERIF = os.path.dirname(os.path.dirname(os.path.abspath(__file__)))
REPO = "/repo"
PY = "/venv/bin/python"


def sh(cmd, cwd=None, env=None, timeout=1800):
    p = subprocess.run(cmd, shell=True, cwd=cwd, env=env, capture_output=True, text=True, timeout=timeout)
    return p.returncode, p.stdout + p.stderr


def meta_path(name):
    return os.path.join(VERIF, "seeded", name, "meta.json")


def load_meta(name):
    p = meta_path(name)
    return json.load(open(p)) if os.path.exists(p) else {}


def save_meta(name, m):
    json.dump(m, open(meta_path(name), "w"), indent=1)


def cmd_import(src, name, prop, needs=""):
    d = os.path.join(VERIF, "seeded", name)
    os.makedirs(d, exist_ok=True)
    for f in ("patch.diff", "demo.py", "notes.txt"):
        if os.path.exists(os.path.join(src, f)):
            shutil.copy(os.path.join(src, f), os.path.join(d, f))
    m = load_meta(name)
    m.update({"property": prop, "origin": "independent sub-agent given only the property text and a scratch worktree",
              "needs": needs or m.get("needs", "see notes.txt")})
    save_meta(name, m)
    print("imported", d)


def cmd_verify(name):
    d = os.path.join(VERIF, "seeded", name)
    wt = tempfile.mkdtemp(prefix="seedverify_", dir="/tmp")
    os.rmdir(wt)
    ran = []
    try:
        rc, out = sh(f"git -C {REPO} worktree add -f {wt} HEAD -q")
        assert rc == 0, out
        env = dict(os.environ, PYTHONPATH=wt, PYTHONDONTWRITEBYTECODE="1")
        rc, out = sh(f"git apply {d}/patch.diff", cwd=wt)
        if rc != 0:
            print("PATCH DOES NOT APPLY to /repo HEAD:\n", out)
            return 2
        rc, out = sh(f"{PY} -m pytest -q -p no:cacheprovider tests 2>&1 | tail -1", cwd=wt, env=env)
        tests = out.strip()
        ran.append(f"pytest with patch: {tests}")
        rc_with, out_with = sh(f"{PY} {d}/demo.py", cwd=wt, env=env)
        ran.append(f"demo.py with patch: exit {rc_with}: {out_with.strip().splitlines()[-1][:200] if out_with.strip() else ''}")
        sh("git checkout -- .", cwd=wt)
        rc_wo, out_wo = sh(f"{PY} {d}/demo.py", cwd=wt, env=env)
        ran.append(f"demo.py without patch: exit {rc_wo}")
        ok = ("290 passed" in tests) and rc_with != 0 and rc_wo == 0
        m = load_meta(name)
        m["verified"] = ok
        m["ran"] = ran
        save_meta(name, m)
        print("\n".join(ran))
        print("VERIFIED" if ok else "NOT VERIFIED")
        return 0 if ok else 1
    finally:
        sh(f"git -C {REPO} worktree remove --force {wt}")
        shutil.rmtree(wt, ignore_errors=True)


def cmd_check(name, ids):
    d = os.path.join(VERIF, "seeded", name)
    rc, out = sh(f"git -C {REPO} status --porcelain")
    if out.strip():
        print("refusing: /repo has uncommitted changes:\n", out)
        return 2
    rc, out = sh(f"git -C {REPO} apply {d}/patch.diff")
    if rc != 0:
        print("patch does not apply:", out)
        return 2
    results = {}
    try:
        for pid in ids:
            env = dict(os.environ, VERIF_EVIDENCE_DIR="/tmp/seed_evidence")     # never overwrite the committed evidence
            rc, out = sh(f"./check {pid} --tier quick", cwd=VERIF, env=env, timeout=3600)
            viol = [l for l in out.splitlines() if l.startswith("VIOLATION")]
            clauses = sorted({l.split("refuted:")[1].strip().split("@")[0].split("[")[0] for l in out.splitlines() if "refuted:" in l})
            results[pid] = {"exit": rc, "violations": len(viol), "clauses": clauses,
                            "confirmed_replay": any("no-failing-input-found" not in l for l in viol)}
            print(pid, results[pid])
            if rc not in (0, 1):
                print(out[-2000:])
    finally:
        sh(f"git -C {REPO} checkout -- .")
    m = load_meta(name)
    cb = m.get("check_results", {})
    cb.update(results)
    m["check_results"] = cb
    m["caught_by"] = sorted(f"{p}:{','.join(r['clauses'])}" for p, r in cb.items() if r["exit"] == 1)
    save_meta(name, m)
    return 0


def cmd_scratch(name, ids):
    """like `check`, but on a scratch COPY of /repo's package with the patch applied (VERIF_REPO): /repo is never touched"""
    d = os.path.join(VERIF, "seeded", name)
    tmp = tempfile.mkdtemp(prefix="seedrun.", dir="/tmp")
    results = {}
    try:
        shutil.copytree(os.path.join(REPO, "amaranth_soc"), os.path.join(tmp, "amaranth_soc"))
        rc, out = sh(f"patch -p1 --quiet -i {d}/patch.diff", cwd=tmp)
        if rc != 0:
            print("patch does not apply:", out)
            return 2
        for pid in ids:
            env = dict(os.environ, VERIF_EVIDENCE_DIR=os.path.join(tmp, "evidence"), VERIF_REPLAY_DIR=os.path.join(tmp, "replays"), VERIF_REPO=tmp)
            rc, out = sh(f"./check {pid} --tier quick", cwd=VERIF, env=env, timeout=3600)
            viol = [l for l in out.splitlines() if l.startswith("VIOLATION")]
            clauses = sorted({l.split("refuted:")[1].strip().split("@")[0].split("[")[0] for l in out.splitlines() if "refuted:" in l})
            results[pid] = {"exit": rc, "violations": len(viol), "clauses": clauses,
                            "confirmed_replay": any("no-failing-input-found" not in l for l in viol)}
            print(pid, results[pid])
            if rc not in (0, 1):
                print(out[-1500:])
    finally:
        shutil.rmtree(tmp, ignore_errors=True)
    m = load_meta(name)
    cb = m.get("check_results", {})
    cb.update(results)
    m["check_results"] = cb
    m["caught_by"] = sorted(f"{p}:{','.join(r['clauses'])}" for p, r in cb.items() if r["exit"] == 1)
    save_meta(name, m)
    return 0


if __name__ == "__main__":
    if sys.argv[1] == "scratch":
        sys.exit(cmd_scratch(sys.argv[2], sys.argv[3:]))
    a = sys.argv[1:]
    if a[0] == "import":
        sys.exit(cmd_import(*a[1:]))
    if a[0] == "verify":
        sys.exit(cmd_verify(a[1]))
    if a[0] == "check":
        sys.exit(cmd_check(a[1], a[2:]))
