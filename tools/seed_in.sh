#!/bin/bash
# tools/seed_in.sh <round dir> <ID> <name-suffix>: import + verify + check one sub-agent seed.
# The check runs on a scratch copy of /repo with the patch applied (tools/seed.py scratch): /repo itself is not touched.
set -e
R=$1; ID=$2; NAME=$3
cd /verif
python3 tools/seed.py import $R/$ID/_seed $NAME $ID >/dev/null
python3 tools/seed.py verify $NAME | tail -1
python3 tools/seed.py scratch $NAME $ID | tail -1 | cut -c1-400
