#!/usr/bin/env python3
"""tools/seed_round.py <round number> <theme file>: prepare /tmp/seed<N>/<ID> scratch worktrees of /repo HEAD (one per property) with
_seed/property.json (the property text only), _seed/avoid.txt (terse names of earlier seeded ideas) and /tmp/seed<N>/prompt.txt.
Nothing from /verif other than the property text and those names is handed to the sub-agents."""
import json, subprocess, os, sys
n, theme = sys.argv[1], open(sys.argv[2]).read().strip()
root = f"/tmp/seed{n}"
os.makedirs(root, exist_ok=True)
props = [json.loads(l) for l in open('/verif/properties.jsonl')]
used = {}
for d in sorted(os.listdir('/verif/seeded')):
    used.setdefault(d[:3], []).append(d[d.index('-') + 1:].replace('-', ' '))
for p in props:
    wt = f"{root}/{p['id']}"
    subprocess.run(f"git -C /repo worktree add -f {wt} HEAD -q", shell=True, check=True)
    os.makedirs(wt + '/_seed', exist_ok=True)
    open(wt + '/_seed/property.json', 'w').write(json.dumps({k: p[k] for k in ('id', 'title', 'statement', 'quantifier', 'why_tests_cant', 'anchors') if k in p}, indent=1))
    open(wt + '/_seed/avoid.txt', 'w').write("\n".join(used.get(p['id'], [])))
PROMPT = r'''You are helping test a verification setup by playing the role of a developer who introduces a subtle regression into a Python library (amaranth-soc, an Amaranth HDL SoC toolkit).

Your working directory is ROOT/@ID@ — a scratch git worktree of the library. Work ONLY inside that directory. Do not read or touch /repo or /verif or any other ROOT/* directory. IMPORTANT: do NOT use `git stash` (the stash is shared between all worktrees and other people are using it at the same time); to test the original code use `git diff -- amaranth_soc > ROOT/@ID@/_seed/patch.diff && git apply -R _seed/patch.diff`, run, then `git apply _seed/patch.diff`.

1. Read ROOT/@ID@/_seed/property.json. It states one semantic property of the library (statement, what it quantifies over, the code it is anchored in).
2. Read the anchored source under ROOT/@ID@/amaranth_soc/ and understand how the code makes the property true.
3. Make ONE small, realistic source change under amaranth_soc/ (not tests) that BREAKS the property for at least some inputs/configurations, while:
   - the code still imports and the existing test suite still passes completely: run `cd ROOT/@ID@ && PYTHONPATH=ROOT/@ID@ /venv/bin/python -m pytest -q -p no:cacheprovider tests 2>&1 | tail -3` and confirm "290 passed";
   - the change looks like something a developer could plausibly write (a refactoring slip, an "optimisation", an off-by-one, a misplaced statement, a wrong operand, a stale cache, a condition that is too weak/strong) — not sabotage, no dead code, no special-casing of magic values, at most ~10 changed lines;
   - it is a DIFFERENT mechanism from the earlier ideas listed (one per line, terse) in ROOT/@ID@/_seed/avoid.txt — that list is long (many earlier rounds); read it carefully and find something none of them is about. THEME
   Everything else must keep working. The violation must still be a violation of THIS property as stated, inside the domain its "quantifier" describes.
4. Write ROOT/@ID@/_seed/demo.py: a standalone script (run as `PYTHONPATH=ROOT/@ID@ /venv/bin/python _seed/demo.py` from the worktree root) that demonstrates the violation through the library's public behaviour (simulate with amaranth.sim if hardware behaviour is concerned): it must exit non-zero with an AssertionError whose message says what went wrong WITH your change, and exit 0 on the original code. Verify both (with the change applied, and with it reverse-applied as described above, then re-applied).
5. Write ROOT/@ID@/_seed/patch.diff with `git diff -- amaranth_soc > _seed/patch.diff` (must be non-empty and contain only your source change), and ROOT/@ID@/_seed/notes.txt: 5-10 lines — what you changed, why it is plausible, which inputs expose it, why the test suite does not notice.

Leave your change applied in the worktree. Do not commit. Finish by reporting: the one-line idea, the file/function changed, the failing input of the demo, and confirmation of the three runs (tests 290 passed; demo fails with change; demo passes without).
'''
open(f"{root}/prompt.txt", "w").write(PROMPT.replace("ROOT", root).replace("THEME", theme))
print(root, len(props), "worktrees")
