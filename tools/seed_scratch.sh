#!/bin/bash
# tools/seed_scratch.sh <seed name> <ID>...: run quick checks against a SCRATCH COPY of /repo with the seed's patch applied
# (VERIF_REPO); /repo itself is never touched, so this is safe while a sweep or a self-test is running.
set -e
NAME=$1; shift
D=$(mktemp -d /tmp/seedrun.XXXXXX)
trap "rm -rf $D" EXIT
cp -r /repo/amaranth_soc $D/
( cd $D && patch -p1 --quiet -i /verif/seeded/$NAME/patch.diff )
cd /verif
for ID in "$@"; do
  OUT=$(VERIF_EVIDENCE_DIR=$D/evidence VERIF_REPLAY_DIR=$D/replays VERIF_REPO=$D ./check $ID --tier quick 2>&1) && RC=0 || RC=$?
  V=$(echo "$OUT" | grep -c "^VIOLATION" || true)
  NF=$(echo "$OUT" | grep "^VIOLATION" | grep -vc "no-failing-input-found" || true)
  CL=$(echo "$OUT" | grep "refuted:" | sed 's/.*refuted: *//; s/@.*//; s/\[.*//' | sort -u | tr '\n' ',' | cut -c1-300)
  echo "$ID exit=$RC violations=$V replayed=$NF clauses=$CL"
  if [ $RC -ne 0 ] && [ $RC -ne 1 ]; then echo "$OUT" | tail -5 | cut -c1-300; fi
done
