#!/bin/bash
# run every quick check with several VERIF_SEED values on the unchanged tree: all must exit 0
cd "$(dirname "$0")/.."
for seed in ${@:-1 2 3 5 8 13 21 34}; do
  for id in $(python3 -c "import json; print(' '.join(c['property_id'] for c in json.load(open('MANIFEST.json'))['checks']))"); do
    out=$(VERIF_SEED=$seed VERIF_EVIDENCE_DIR=/tmp/sweep_ev VERIF_REPLAY_DIR=/tmp/sweep_rp ./check $id --tier quick 2>&1); rc=$?
    [ $rc -ne 0 ] && { echo "seed=$seed $id exit=$rc"; echo "$out" | grep -v "^\[" | head -4 | cut -c1-300; }
  done
  echo "seed $seed done"
done
