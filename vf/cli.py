"""./check <ID> [--tier quick|thorough] [--replay PATH]"""
import argparse, importlib, os, sys, traceback, json, time
from .common import Run, tier_from_env, seed_from_env, EXIT_ENGINE, EXIT_OK, VERIF


def main(argv=None):
    ap = argparse.ArgumentParser()
    ap.add_argument("prop")
    ap.add_argument("--tier", default=tier_from_env())
    ap.add_argument("--replay", default=None)
    args = ap.parse_args(argv)
    os.chdir(VERIF)
    if args.prop == "selftest":
        from . import selftest
        return selftest.main(args)
    if args.replay:
        from .replay import replay_file
        return replay_file(args.prop, args.replay)
    try:
        mod = importlib.import_module(f"vf.props.{args.prop}")
    except ModuleNotFoundError:
        print(f"no check for property {args.prop}")
        return EXIT_ENGINE
    run = Run(args.prop, tier=args.tier, seed=seed_from_env(), level=getattr(mod, "LEVEL", "other"))
    try:
        return mod.main(run)
    except Exception:
        # a crash of the checker is an engine fault; it never prints VIOLATION
        traceback.print_exc()
        print(f"ENGINE-FAULT: checker for {args.prop} crashed")
        try:
            run.engine_faults.append("checker crashed: " + traceback.format_exc()[-400:])
            run.finish(explanation="checker crashed")
        except Exception:
            pass
        return EXIT_ENGINE


if __name__ == "__main__":
    sys.exit(main())
