"""Shared plumbing: obligation registry, evidence writer, known-findings handling, exit codes.

Exit-code discipline (DESIGN.md §5):
  0  every obligation generated from /repo's current source was discharged (known findings printed)
  1  VIOLATION  (an obligation is refuted; replay file written)
  2  undecided  (solver unknown/timeout, unsupported construct) -- never prints VIOLATION
  3  engine fault (translator/CPython cross-check mismatch, vacuous harness, crash) -- never VIOLATION
"""
import json, os, sys, time, traceback, hashlib

VERIF = os.path.dirname(os.path.dirname(os.path.abspath(__file__)))
REPLAYS = os.environ.get("VERIF_REPLAY_DIR") or os.path.join(VERIF, "replays")   # scratch runs (self-test, seeds on a copy) keep their replays apart
REPO = os.environ.get("VERIF_REPO", "/repo")
if REPO not in sys.path:
    sys.path.insert(0, REPO)

EXIT_OK, EXIT_VIOLATION, EXIT_UNDECIDED, EXIT_ENGINE = 0, 1, 2, 3

BASE_ASSUMPTIONS_L1 = [
    "pyvc encodes Python int as mathematical Int (exact: Python ints are unbounded)",
    "CPython 3.12 evaluation order for the supported subset; no monkey-patching of the classes under contract",
    "id() is injective on live objects; bisect, list.insert, dict, sorted, range meet their documented contracts (assumed stdlib contracts)",
    "exception messages (f-strings) are dropped by the extraction; only the exception class and the path are kept",
    "z3 5.1 / cvc5 1.4 soundness",
]
BASE_ASSUMPTIONS_L2 = [
    "Amaranth 0.5.10 front end + NIR lowering (amaranth.hdl._ir.build_netlist) defines the meaning of the DSL (assumed dependency contract)",
    "NIR->z3 translator (vf/hdl/nir.py) -- validated on every configuration by random co-simulation against amaranth.sim; a mismatch is an engine fault (exit 3)",
    "single 'sync' clock domain; rst held 0 except in the reset/init obligations",
    "configurations are ENUMERATED (bounded stand-in in the configuration dimension); per configuration the obligation covers all input values, all states and, by induction, all cycles",
    "z3 QF_BV/QF_ABV soundness",
]


class EngineFault(Exception):
    pass


class Undecided(Exception):
    pass


def load_known_findings():
    """known_findings.txt: lines 'finding: property=<id> key=<key> <text>' or 'fixed: property=<id> <commit> <text>'."""
    path = os.path.join(VERIF, "known_findings.txt")
    findings = []
    if os.path.exists(path):
        for line in open(path):
            line = line.strip()
            if not line or line.startswith("#"):
                continue
            if line.startswith("finding:"):
                rest = line[len("finding:"):].strip()
                parts = rest.split(None, 2)
                pid = parts[0].split("=", 1)[1]
                key = parts[1].split("=", 1)[1]
                text = parts[2] if len(parts) > 2 else ""
                findings.append({"property": pid, "key": key, "text": text})
    return findings


class Obligation:
    __slots__ = ("name", "status", "backend", "time_s", "config", "detail", "kind", "bounded")

    def __init__(self, name, status, backend="z3", time_s=0.0, config=None, detail=None, kind="vc", bounded=False):
        self.name, self.status, self.backend, self.time_s = name, status, backend, time_s
        self.config, self.detail, self.kind, self.bounded = config, detail, kind, bounded


class Run:
    """One execution of one property check."""

    def __init__(self, prop_id, tier="quick", seed=0, level="other"):
        self.prop_id, self.tier, self.seed, self.level = prop_id, tier, seed, level
        self.t0 = time.time()
        self.obligations = []
        self.functions = {}          # qualified name -> "proved" | "bounded" | "unsupported" | "per-config"
        self.assumptions = []
        self.trusted_base = []
        self.violations = []         # dicts: obligation, replay path, confirmed, text
        self.known_hits = []
        self.undecided = []
        self.engine_faults = []
        self.samples = []
        self.configs = 0
        self.nontrivial = set()
        self.solver_time = {}
        self.extra = {}
        self.required_clauses = set()
        self.seen_clauses = set()
        self.known = [k for k in load_known_findings() if k["property"] == prop_id]
        self.canaries_ok = 0
        self.canaries_total = 0
        self.bounded_notes = []
        self.misfits = []            # obligations of statement-level contracts whose recorded SHAPE differs: the contract does not fit this tree
        import shutil
        shutil.rmtree(os.path.join(REPLAYS, prop_id), ignore_errors=True)   # replays belong to one run

    # ---- recording -------------------------------------------------------------------------
    def add(self, name, status, backend="z3", time_s=0.0, config=None, detail=None, clause=None, bounded=False):
        o = Obligation(name, status, backend, time_s, config, detail, bounded=bounded)
        self.obligations.append(o)
        self.solver_time[backend] = self.solver_time.get(backend, 0.0) + time_s
        if clause is None:
            clause = name.split("[")[0].split("@")[0]
        if status == "discharged":
            self.seen_clauses.add(clause)
        return o

    def require(self, *clauses):
        self.required_clauses.update(clauses)

    def _trusted(self):
        """what the verdicts rest on, derived from the back ends that actually produced results in this run"""
        tb = list(dict.fromkeys(self.trusted_base))
        backends = {o.backend for o in self.obligations}
        def add(x):
            if x not in tb:
                tb.append(x)
        if any(b.startswith("z3") or b.startswith("cvc5") for b in backends):
            add("z3 5.1 (cvc5 1.0 as second opinion for pyvc obligations)")
        if any(getattr(o, "bounded", False) for o in self.obligations) or self.configs:
            add("hdlvc: Amaranth 0.5.10 lowering to NIR + vf/hdl/nir.py translation to bit-vectors (co-simulated against amaranth.sim per configuration)")
        if any(k for k in self.functions if "proved" in str(self.functions[k])):
            add("pyvc: vf/pyvc/engine.py (symbolic execution of the Python subset; cross-checked against CPython in C02)")
        if "native evaluation" in backends or any("native" in b for b in backends):
            add("CPython executing the real code (bounded runtime contracts)")
        if any("lean" in str(k).lower() for k in self.extra):
            add("Lean 4.33 + Mathlib (lemmas/*.lean, hash-checked acceptance)")
        return tb

    def canary(self, name, refuted):
        """A must-fail probe: `refuted` must be True (solver said sat), else the harness is vacuous."""
        self.canaries_total += 1
        if refuted:
            self.canaries_ok += 1
        else:
            self.engine_faults.append(f"vacuity canary '{name}' was NOT refuted: harness proves a false clause")

    def violation(self, obligation, text, replay_obj, confirmed, key=None):
        """Record a refuted obligation. Known findings (matched by key) are reported separately."""
        key = key or obligation
        for k in self.known:
            if k["key"] == key:
                self.known_hits.append((k, text))
                return None
        os.makedirs(os.path.join(REPLAYS, self.prop_id), exist_ok=True)
        fn = hashlib.sha1(obligation.encode()).hexdigest()[:10]
        safe = "".join(c if c.isalnum() or c in "._-" else "_" for c in obligation)[:80]
        path = os.path.join(REPLAYS, self.prop_id, f"{safe}.{fn}.json")
        replay_obj = dict(replay_obj)
        replay_obj.update({"property": self.prop_id, "obligation": obligation, "key": key, "text": text,
                           "confirmed_on_real_code": bool(confirmed)})
        with open(path, "w") as f:
            json.dump(replay_obj, f, indent=1, default=str)
        self.violations.append({"obligation": obligation, "replay": path, "confirmed": bool(confirmed), "text": text})
        return path

    def sample(self, s):
        if len(self.samples) < 12:
            self.samples.append(s)

    # ---- finishing -------------------------------------------------------------------------
    def finish(self, explanation="", checker_cmd="", rule="", exhaustive=None):
        wall = time.time() - self.t0
        n_ob = len(self.obligations)
        n_dis = sum(1 for o in self.obligations if o.status == "discharged")
        n_fail = sum(1 for o in self.obligations if o.status == "failed")
        n_und = sum(1 for o in self.obligations if o.status == "undecided")
        missing = sorted(self.required_clauses - self.seen_clauses)
        if n_ob == 0:
            self.engine_faults.append("zero obligations generated")
        # a required clause that was neither discharged nor refuted means the harness lost it
        failed_clauses = {o.name.split("[")[0].split("@")[0] for o in self.obligations if o.status != "discharged"}
        not_discharged = [o.name for o in self.obligations if o.status != "discharged"]
        truly_missing = [c for c in missing if c not in failed_clauses and not any(n == c or n.startswith(c + "::") for n in not_discharged)
                         and not any(c == k["key"].split("[")[0].split("@")[0] for k, _ in self.known_hits)]
        if truly_missing and not self.violations:
            self.engine_faults.append(f"required clauses without any obligation: {truly_missing}")

        cov = {
            "obligations": n_ob,
            "discharged": n_dis,
            "failed": n_fail,
            "undecided": n_und,
            "statement_contract_obligations_not_fitting": len(self.misfits),
            "checker_cmd": checker_cmd or f"./check {self.prop_id} --tier {self.tier}",
            "trusted_base": self._trusted(),
            "evaluations": max(self.configs, 1) if self.configs else max(n_ob, 1),
            "distinct_nontrivial": len(self.nontrivial),
            "rule": rule,
            "samples": self.samples or [o.name for o in self.obligations[:8]],
            "explanation": explanation,
            "functions_under_contract": self.functions,
            "solver_time_s": {k: round(v, 3) for k, v in self.solver_time.items()},
            "required_clauses": sorted(self.required_clauses),
            "clauses_discharged": sorted(self.seen_clauses),
            "vacuity_canaries": {"refuted_as_expected": self.canaries_ok, "total": self.canaries_total},
            "known_findings_hit": [k["key"] for k, _ in self.known_hits],
            "bounded_parts": self.bounded_notes,
        }
        if self.misfits:
            fns = sorted({m.split("::")[0] for m in self.misfits})
            for key in list(self.functions):
                if any(f in key for f in fns) and str(self.functions[key]).startswith("proved"):
                    self.functions[key] = "NOT proved on this tree: the statement-level contract does not fit (shape differs); per-configuration clauses decide"
            cov["statement_contracts_not_fitting_this_tree"] = {
                "functions": fns, "obligations": self.misfits[:40],
                "meaning": "the recorded statements / calls of these functions differ in SHAPE from what the sidecar contract expects: the all-configuration "
                           "argument for them does NOT apply to this tree (they are NOT counted as proved here); only the per-configuration clauses decide them"}
            cov["bounded_parts"] = list(self.bounded_notes) + [f"{f}: statement-level contract does not fit this tree - decided per configuration only" for f in fns]
        if exhaustive is not None:
            cov["exhaustive"] = exhaustive
        cov.update(self.extra)
        ev = {
            "property_id": self.prop_id, "tier": self.tier, "seed": int(self.seed), "level": self.level,
            "coverage": cov, "assumptions": self.assumptions, "wall_s": round(wall, 3),
            "violations": len(self.violations),
        }
        evdir = os.environ.get("VERIF_EVIDENCE_DIR") or os.path.join(VERIF, "evidence")
        os.makedirs(evdir, exist_ok=True)
        with open(os.path.join(evdir, f"{self.prop_id}.json"), "w") as f:
            json.dump(ev, f, indent=1, default=str)
        try:
            import jsonschema
            schema_path = "/root/.vp/EVIDENCE.schema.json"
            if os.path.exists(schema_path):
                jsonschema.validate(ev, json.load(open(schema_path)))
        except Exception as e:  # schema problems are engine faults, not violations
            self.engine_faults.append(f"evidence does not validate: {e}")

        printed = set()
        for k, text in self.known_hits:
            if k["key"] not in printed:
                printed.add(k["key"])
                n = sum(1 for kk, _ in self.known_hits if kk["key"] == k["key"])
                print(f"KNOWN-FINDING: property={self.prop_id} {k['key']}: {k['text']} [{n} refuted obligation(s) match this finding]")
        for f_ in sorted({m.split("::")[0] for m in self.misfits}):
            print(f"NOTE: the statement-level contract of {f_} does not fit this tree (shape differs): not proved for all configurations here; "
                  f"the per-configuration clauses decide")
        print(f"[{self.prop_id}] tier={self.tier} obligations={n_ob} discharged={n_dis} failed={n_fail} "
              f"undecided={n_und}{f' not-fitting={len(self.misfits)}' if self.misfits else ''} configs={self.configs} canaries={self.canaries_ok}/{self.canaries_total} "
              f"wall={wall:.1f}s")
        if self.violations:
            per_clause = {}
            for v in self.violations:
                cl = v["obligation"].split("@")[0].split("[")[0]
                per_clause[cl] = per_clause.get(cl, 0) + 1
                if per_clause[cl] > 3:
                    continue       # every refuted obligation has its replay file; print at most 3 per clause
                suffix = "" if v["confirmed"] else " no-failing-input-found"
                print(f"  refuted: {v['obligation'][:300]}")
                print(f"VIOLATION property={self.prop_id} replay={v['replay']}{suffix}")
            for cl, n in per_clause.items():
                if n > 3:
                    print(f"  ... clause {cl}: {n} refuted obligations in total (replay files under replays/{self.prop_id}/)")
            return EXIT_VIOLATION
        if self.engine_faults:
            for e in self.engine_faults:
                print(f"ENGINE-FAULT: {e}")
            return EXIT_ENGINE
        if n_und or self.undecided:
            for o in self.obligations:
                if o.status == "undecided":
                    print(f"UNDECIDED: {o.name} ({o.detail})")
            for u in self.undecided:
                print(f"UNDECIDED: {u}")
            return EXIT_UNDECIDED
        return EXIT_OK


def tier_from_env(default="quick"):
    return os.environ.get("VERIF_TIER", default)


def seed_from_env():
    try:
        return int(os.environ.get("VERIF_SEED", "0"))
    except ValueError:
        return 0
