"""Translator validation: random co-simulation of the z3 model against amaranth.sim (every configuration used).

A mismatch is an *engine* fault (exit 3), never a property violation.
Also provides `simulate()`, used by replay: drive the real design in Amaranth's own simulator from a
chosen state with chosen inputs and return the observed values.
"""
import random
import z3
from amaranth.hdl import Fragment
from amaranth.sim import Simulator
from ..common import EngineFault


def _concrete(expr, subs):
    r = z3.simplify(z3.substitute(expr, *subs))
    return r


def _mem_array(sv, words):
    arr = z3.K(z3.BitVecSort(sv.aw), z3.BitVecVal(0, sv.width))
    for a, w in enumerate(words):
        if w:
            arr = z3.Store(arr, z3.BitVecVal(a, sv.aw), z3.BitVecVal(w, sv.width))
    return arr


def simulate(fragment, nl, cycles, drive, observe, init_state=None):
    """Run amaranth.sim for `cycles` clock cycles.

    drive(t) -> list of (Signal, int) to set before the t-th clock edge;
    observe: list of Signals sampled in every cycle (after inputs settle, before the edge).
    init_state: optional {Signal: int} applied to flip-flop-backed signals by patching Signal.init
    (restored afterwards).  Returns list (per cycle) of {id(sig): value}.
    """
    saved = []
    if init_state:
        for sig, v in init_state:
            saved.append((sig, sig._init))
            from amaranth.hdl import Const
            sig._init = Const(v, sig.shape()).value
    from .nir import preserved_domains
    try:
      with preserved_domains(fragment):
        sim = Simulator(fragment)
        try:
            sim.add_clock(1e-6)
            clocked = True
        except NameError:          # purely combinational design: no 'sync' domain
            clocked = False
        trace = []

        async def bench(ctx):
            for t in range(cycles):
                for sig, v in drive(t):
                    ctx.set(sig, v)
                row = {}
                for sig in observe:
                    try:
                        val = ctx.get(sig)
                    except Exception:
                        continue
                    row[id(sig)] = _to_int(val, sig)
                trace.append(row)
                if clocked:
                    await ctx.tick()
                else:
                    await ctx.delay(1e-6)
        sim.add_testbench(bench)
        sim.run()
        return trace
    finally:
        for sig, init in saved:
            sig._init = init


def _to_int(val, sig):
    try:
        v = int(val)
    except TypeError:
        v = int(val.value) if hasattr(val, "value") else int(getattr(val, "as_value")())
    w = len(sig)
    return v & ((1 << w) - 1) if w else 0


def validate(nl, fragment, cycles=24, seed=0, extra_stimulus=None):
    """Co-simulate from reset with random inputs; compare every named signal each cycle. Returns #comparisons."""
    rng = random.Random(seed)
    ins = [s for s in nl.input_signals() if s.name not in ("clk", "rst")]
    stim = []
    for t in range(cycles):
        row = []
        for s in ins:
            w = len(s)
            mode = rng.random()
            if mode < 0.15:
                v = 0
            elif mode < 0.3:
                v = (1 << w) - 1
            else:
                v = rng.getrandbits(w) if w else 0
            row.append((s, v))
        stim.append(row)
    if extra_stimulus:
        extra_stimulus(stim, rng)
    sigs = [s for s, v in nl.signals() if s.name not in ("clk", "rst")]
    trace = simulate(fragment, nl, cycles, lambda t: [(s, _signed(s, v)) for s, v in stim[t]], sigs)
    # z3 side
    state = {}
    for sv in nl.state:
        if sv.kind == "mem":
            state[sv.idx] = _mem_array(sv, sv.init)
        else:
            state[sv.idx] = z3.BitVecVal(sv.init, sv.width)
    compared = 0
    for t in range(cycles):
        subs = []
        stim_by_id = {id(s): v for s, v in stim[t]}
        for s in nl.input_signals():
            var = nl.input_var(s)
            if var is None:
                continue
            v = stim_by_id.get(id(s), 0)
            subs.append((var, z3.BitVecVal(v, var.size())))
        for name, var in nl.in_vars.items():
            if var is not None and name in ("clk", "rst"):
                subs.append((var, z3.BitVecVal(0, var.size())))
            elif var is not None and var.decl().name() in nl.tied:
                subs.append((var, nl.tied[var.decl().name()]))
        for sv in nl.state:
            subs.append((sv.var, state[sv.idx]))
        for s in sigs:
            if id(s) not in trace[t]:
                continue
            got = _concrete(nl.sig_expr(s), subs)
            if not z3.is_bv_value(got):
                raise EngineFault(f"cosim: could not evaluate {s.name} concretely: {got}")
            if got.as_long() != trace[t][id(s)]:
                raise EngineFault(f"cosim mismatch at cycle {t} on signal {s.name}: z3={got.as_long():#x} "
                                  f"amaranth.sim={trace[t][id(s)]:#x}")
            compared += 1
        new_state = {}
        for sv in nl.state:
            new_state[sv.idx] = _concrete(nl.next[sv.idx], subs)
        state = new_state
    return compared


def _signed(sig, v):
    """ctx.set wants a value in the signal's range (signed signals: two's complement -> python int)."""
    shape = sig.shape()
    try:
        from amaranth.hdl import Shape
        sh = Shape.cast(shape)
        if sh.signed and sh.width and v >= (1 << (sh.width - 1)):
            return v - (1 << sh.width)
    except Exception:
        pass
    return v
