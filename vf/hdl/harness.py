"""L2 harness: per-configuration contract checking of `elaborate()` results.

A property module supplies
    configs(tier, seed) -> list of JSON-able configuration descriptors
    check_config(ctx, cfg)  -- builds the real component(s), calls ctx.netlist(...), states clauses via ctx.prove(...)
Everything solver-related happens inside worker processes (z3 objects are not picklable); workers return
plain dict results that the parent folds into the Run.
"""
import json, os, sys, time, traceback, multiprocessing as mp
import z3
from .nir import Netlist, prove, preserved_domains, build_netlist, Fragment
from . import cosim
from ..common import Run, EngineFault, Undecided, BASE_ASSUMPTIONS_L2, VERIF


class Refused(Exception):
    """The constructor refused this configuration with ValueError/TypeError (counted, not a failure)."""


def is_refusal(exc):
    """A deliberate refusal = ValueError/TypeError raised by an explicit `raise` statement inside amaranth_soc
    (as opposed to an internal error surfacing from a library call or an accidental TypeError)."""
    if not isinstance(exc, (ValueError, TypeError)):
        return False
    tb = traceback.extract_tb(exc.__traceback__)
    if not tb:
        return False
    last = tb[-1]
    return "amaranth_soc" in last.filename and (last.line or "").lstrip().startswith("raise ")


class ElaborationFailed(Exception):
    """The real elaborate() of an accepted configuration raised."""
    def __init__(self, msg, tb=""):
        super().__init__(msg); self.tb = tb


class Ctx:
    def __init__(self, cfg, key, cosim_cycles=16, seed=0, do_replay=True):
        self.cfg, self.key = cfg, key
        self.results = []
        self.cosim_cycles, self.seed = cosim_cycles, seed
        self.nl = None
        self.do_replay = do_replay
        self.nontrivial = False
        self.info = {}

    # -- building ---------------------------------------------------------------------------
    def netlist(self, component, probes=(), ports=None, validate=True, tie=()):
        t = time.time()
        from amaranth.hdl import Fragment
        try:
            frag = Fragment.get(component, None)
        except Exception as e:
            if is_refusal(e):
                raise Refused("at elaboration: " + str(e))
            # the real elaborate() raised: a fact about the code, not about the harness
            raise ElaborationFailed(f"{type(e).__name__}: {e}", traceback.format_exc())
        nl = Netlist(frag, probes=probes, ports=ports if ports is not None else
                     [sig for path, member, sig in component.signature.flatten(component)])
        self.nl = nl
        # One elaboration result stands for "the hardware of this component" in every clause.  That is only meaningful if a second
        # elaboration of the SAME instance gives the same netlist (simulating and then synthesising one object, or simulating it
        # twice, elaborates it twice): checked here for every configuration of every per-configuration check.
        if getattr(self, "check_again", True) and not isinstance(component, Fragment):
            try:
                frag2 = Fragment.get(component, None)
                with preserved_domains(frag2):
                    design2 = frag2.prepare(ports=nl.ports, hierarchy=("top",))
                text2 = str(build_netlist(design2, all_undef_to_ff=False))
                same, detail = (text2 == str(nl.nl)), "the netlist of the second elaboration differs from the first"
                if not same:
                    detail += f" ({len(str(nl.nl).splitlines())} vs {len(text2.splitlines())} lines)"
            except Exception as e:
                same, detail = False, f"second elaboration raised {type(e).__name__}: {e}"
            self.results.append({"name": f"same_hardware_when_elaborated_again@{self.key}", "clause": "same_hardware_when_elaborated_again",
                                 "status": "discharged" if same else "failed", "time": 0.0,
                                 "replay": {"confirmed": True, "how": "the same component instance elaborated twice natively; NIR netlists compared",
                                            "detail": detail if not same else ""},
                                 "cfg": self.cfg, "known_key": "same_hardware_when_elaborated_again", "solver": "native evaluation"})
        self.info["cells"] = len(nl.cells)
        self.info["state_bits"] = nl.n_state_bits()
        self.info["translate_s"] = round(time.time() - t, 3)
        for sig in tie:
            nl.tie_off(sig.as_value() if hasattr(sig, "as_value") else sig)
        if validate and self.cosim_cycles:
            t = time.time()
            n = cosim.validate(nl, nl.fragment, cycles=self.cosim_cycles, seed=self.seed)
            self.info["cosim_comparisons"] = n
            self.info["cosim_s"] = round(time.time() - t, 3)
        return nl

    # -- obligations -------------------------------------------------------------------------
    def prove(self, clause, claim, assumptions=(), frames=(), observe=(), timeout_ms=60000, known_key=None,
              mem_replay=None):
        """One obligation: claim must hold for all values of all free variables under the assumptions."""
        name = f"{clause}@{self.key}"
        t = time.time()
        status, model = prove(claim, assumptions, timeout_ms)
        dt = time.time() - t
        if status == "unsat":
            self.results.append({"name": name, "clause": clause, "status": "discharged", "time": dt})
            return True
        if status == "unknown":
            self.results.append({"name": name, "clause": clause, "status": "undecided", "time": dt, "detail": str(model)})
            return None
        rep = None
        if self.do_replay and frames:
            try:
                rep = self._replay(model, frames, observe, mem_replay)
            except Exception as e:   # replay problems never upgrade or hide the solver's verdict
                rep = {"confirmed": False, "error": f"{type(e).__name__}: {e}"}
        self.results.append({"name": name, "clause": clause, "status": "failed", "time": dt,
                             "replay": rep, "cfg": self.cfg, "known_key": known_key or name,
                             "solver": "z3 sat; counter-model over netlist state/inputs"})
        return False

    def canary(self, name, claim, assumptions=()):
        """Must-fail probe: the (wrong) claim has to be refuted, otherwise the harness is vacuous."""
        status, _ = prove(claim, assumptions, 30000)
        self.results.append({"name": f"canary:{name}@{self.key}", "status": "canary", "refuted": status == "sat", "unknown": status == "unknown"})

    def sat(self, name, formula):
        """Reachability/cover probe: formula must be satisfiable (guards against contradictory assumptions)."""
        s = z3.Solver(); s.set("timeout", 30000); s.add(formula)
        self.results.append({"name": f"cover:{name}@{self.key}", "status": "canary", "refuted": s.check() == z3.sat})

    # -- replay on the real design in amaranth.sim ----------------------------------------------
    def _replay(self, model, frames, observe, mem_replay=None):
        nl = self.nl

        def ev(term):
            if term is None:
                return 0
            v = model.eval(term, model_completion=True)
            return v.as_long() if z3.is_bv_value(v) else None

        f0 = frames[0]
        init_state, state_dump = [], {}
        for sig, ci in nl.ff_signals():
            v = ev(f0.state[ci])
            if v is not None:
                init_state.append((sig, v)); state_dump[sig.name] = v
        mem_images = {}
        for sv in nl.state:
            if sv.kind == "mem":
                arr = f0.state[sv.idx]
                mem_images[sv.idx] = [ev(arr[z3.BitVecVal(a, sv.aw)]) for a in range(sv.depth)]
        ins = [s for s in nl.input_signals() if s.name not in ("clk", "rst") and len(s) > 0]
        stim = []
        for f in frames:
            row = []
            for s in ins:
                row.append((s, ev(f.inp(s))))
            stim.append(row)
        obs_sigs = list(observe) if observe else [s for s, _ in nl.signals() if s.name not in ("clk", "rst")]
        restore = None
        if mem_images and mem_replay is not None:
            restore = mem_replay(mem_images)
        try:
            trace = cosim.simulate(nl.fragment, nl, len(frames),
                                   lambda t: [(s, cosim._signed(s, v)) for s, v in stim[t]], obs_sigs,
                                   init_state=init_state)
        finally:
            if restore is not None:
                restore()
        mismatches, observed = [], []
        for t, f in enumerate(frames):
            row = {}
            for s in obs_sigs:
                if id(s) not in trace[t]:
                    continue
                exp = ev(f.val(s))
                row[s.name] = trace[t][id(s)]
                if exp is not None and exp != trace[t][id(s)]:
                    mismatches.append((t, s.name, exp, trace[t][id(s)]))
            observed.append(row)
        return {"confirmed": not mismatches and not (mem_images and mem_replay is None),
                "how": "real design simulated in amaranth.sim from the model's state with the model's inputs; "
                       "all observed signals equal the counter-model, on which the clause is false",
                "initial_state": state_dump, "memories": {str(k): v for k, v in mem_images.items()},
                "inputs_per_cycle": [{s.name: v for s, v in row} for row in stim],
                "observed_per_cycle": observed, "mismatches": mismatches}


# ---- pool driver -----------------------------------------------------------------------------
_MOD = None


def _worker(args):
    modname, cfg, key, cosim_cycles, seed = args
    import importlib
    mod = importlib.import_module(modname)
    ctx = Ctx(cfg, key, cosim_cycles=cosim_cycles, seed=seed)
    t = time.time()
    try:
        mod.check_config(ctx, cfg)
        return {"key": key, "cfg": cfg, "results": ctx.results, "info": ctx.info, "nontrivial": ctx.nontrivial,
                "time": time.time() - t}
    except Refused as e:
        return {"key": key, "cfg": cfg, "refused": str(e), "results": ctx.results, "info": ctx.info, "time": time.time() - t}
    except ElaborationFailed as e:
        ctx.results.append({"name": f"elaborates@{key}", "clause": "elaborates", "status": "failed", "time": 0.0,
                            "replay": {"confirmed": True, "how": "constructing and elaborating this configuration natively raises",
                                       "exception": str(e), "traceback": e.tb[-1500:]},
                            "cfg": cfg, "known_key": f"elaborates@{key}", "solver": "n/a (native exception)"})
        return {"key": key, "cfg": cfg, "results": ctx.results, "info": ctx.info, "time": time.time() - t}
    except EngineFault as e:
        return {"key": key, "cfg": cfg, "engine_fault": str(e), "results": ctx.results, "info": ctx.info, "time": time.time() - t}
    except Exception as e:
        return {"key": key, "cfg": cfg, "crash": f"{type(e).__name__}: {e}", "tb": traceback.format_exc(),
                "results": ctx.results, "info": ctx.info, "time": time.time() - t}


def cfg_key(cfg):
    return json.dumps(cfg, sort_keys=True, separators=(",", ":"), default=str)


def run_configs(run: Run, modname, cfgs, cosim_cycles=16, procs=None, crash_is_violation=None, must_accept=False):
    """Check every configuration in a process pool and fold the results into `run`.
    must_accept: every generated configuration is valid by the documented rules (the generator only produces such), so a
    constructor/add() that REFUSES one breaks "for every configuration ..." - reported as clause accepts_valid_configuration
    (native, confirmed) instead of silently shrinking the explored set."""
    procs = procs or min(16, os.cpu_count() or 4)
    jobs = [(modname, cfg, cfg_key(cfg), cosim_cycles, run.seed) for cfg in cfgs]
    if len(jobs) <= 1 or os.environ.get("VERIF_SERIAL"):
        outs = [_worker(j) for j in jobs]
    else:
        ctxm = mp.get_context("fork")
        # results are collected with a HARD limit per configuration: z3 does not always honour its own timeout (a seeded change once
        # kept one bit-vector query busy for half an hour), and a check must end.  A configuration that does not come back is
        # undecided (exit 2) - it says nothing about the property.
        hard_s = float(os.environ.get("VERIF_CONFIG_HARD_S", "1800"))
        outs = []
        with ctxm.Pool(min(procs, len(jobs))) as pool:
            it = pool.imap(_worker, jobs, chunksize=1)
            for j in jobs:
                try:
                    outs.append(it.next(timeout=hard_s))
                except mp.TimeoutError:
                    outs.append({"key": j[2], "cfg": j[1], "results": [], "info": {}, "time": hard_s, "hard_timeout": True})
                except StopIteration:
                    outs.append({"key": j[2], "cfg": j[1], "results": [], "info": {}, "time": 0.0, "hard_timeout": True})
            pool.terminate()
    refused = 0
    for out in outs:
        run.configs += 1
        if "refused" in out:
            refused += 1
            verdict = must_accept(out["cfg"]) if callable(must_accept) else must_accept      # (runs in the parent process)
            if verdict:
                # a callable may return a string naming the CLASS of configuration (used as the known-finding key suffix)
                kf = "accepts_valid_configuration" + (":" + verdict if isinstance(verdict, str) else "")
                name = f"accepts_valid_configuration@{out['key']}"
                run.add(name, "failed", "native evaluation", 0.0, clause="accepts_valid_configuration")
                run.violation(name, f"a valid configuration was refused: {out['refused'][:300]}",
                              {"config": out["cfg"], "native_replay": {"confirmed": True, "how": "constructing this configuration natively raises",
                                                                       "exception": out["refused"][:600]},
                               "replay_cmd": f"./check {run.prop_id} --replay <this file>"}, confirmed=True, key=kf)
        if out.get("hard_timeout"):
            run.undecided.append(f"{out['key'][:160]}: the configuration did not come back within the hard limit ({out['time']:.0f} s)")
        if "engine_fault" in out:
            run.engine_faults.append(f"{out['key']}: {out['engine_fault']}")
        if "crash" in out:
            if crash_is_violation:
                crash_is_violation(run, out)
            else:
                run.engine_faults.append(f"{out['key']}: harness crash {out['crash']}\n{out.get('tb','')}")
        if out.get("nontrivial"):
            run.nontrivial.add(out["key"])
        for r in out["results"]:
            if r["status"] == "canary" and r.get("unknown"):
                # the probe could not be evaluated within the budget: no evidence either way -> undecided (exit 2), not a fault
                run.undecided.append(f"{r['name']}: vacuity probe left open by the solver within the budget")
            elif r["status"] == "canary":
                run.canary(r["name"], r["refuted"])
            elif r["status"] == "discharged":
                run.add(r["name"], "discharged", "z3", r["time"], clause=r["clause"], bounded=True)
            elif r["status"] == "undecided":
                run.add(r["name"], "undecided", "z3", r["time"], detail=r.get("detail"), clause=r["clause"])
            elif r["status"] == "failed":
                run.add(r["name"], "failed", "z3", r["time"], clause=r["clause"])
                rep = r.get("replay") or {}
                run.violation(r["name"], f"clause {r['clause']} refuted for configuration {out['key']}",
                              {"config": out["cfg"], "solver": r.get("solver"), "native_replay": rep,
                               "replay_cmd": f"./check {run.prop_id} --replay <this file>"},
                              confirmed=bool(rep.get("confirmed")), key=r.get("known_key"))
        if out["results"]:
            run.sample({"config": out["cfg"], "obligations": [r["name"].split("@")[0] for r in out["results"]][:12],
                        "info": out.get("info")})
    run.extra["configurations_refused_by_constructor"] = run.extra.get("configurations_refused_by_constructor", 0) + refused
    if refused:
        run.extra.setdefault("refused_examples", [])
        run.extra["refused_examples"] += [{"config": o["cfg"], "message": o["refused"][:200]} for o in outs if "refused" in o][:3]
    return outs
