"""hdlvc core: Amaranth NIR netlist -> z3 transition system.

The real `elaborate()` runs in CPython; Amaranth itself lowers the result to its NIR netlist
(`amaranth.hdl._ir.build_netlist`); every NIR cell is translated to a z3 bit-vector term.
Flip-flop outputs, synchronous read-port outputs and memories are state variables; top-level
inputs are free bit-vectors.  Nothing of the design is re-implemented here.

Frames: a `Frame` is one clock cycle: (state terms, input terms) -> signal values and next-state
terms.  Frames are chained for k-step unrolling; the first frame's state is either fully symbolic
(arbitrary state) or the reset state.
"""
import warnings
warnings.simplefilter("ignore")
import os
import z3
from amaranth.hdl import Fragment, Signal
from amaranth.hdl._ir import build_netlist
from amaranth.hdl import _nir


def _bv1(cond):
    return z3.If(cond, z3.BitVecVal(1, 1), z3.BitVecVal(0, 1))


def _is1(x):
    return x == z3.BitVecVal(1, 1)


def _fit(x, w):
    if x.size() > w:
        return z3.Extract(w - 1, 0, x)
    if x.size() < w:
        return z3.ZeroExt(w - x.size(), x)
    return x


import contextlib


@contextlib.contextmanager
def preserved_domains(frag):
    snap = []

    def walk(fr):
        snap.append((fr, dict(fr.domains)))
        for sub in fr.subfragments:
            walk(sub[0])
    walk(frag)
    try:
        yield
    finally:
        for fr, doms in snap:
            fr.domains.clear(); fr.domains.update(doms)


class StateVar:
    """A state-holding element: flip-flop, sync read port register, or memory."""
    __slots__ = ("kind", "cell", "idx", "var", "init", "width", "depth", "aw")

    def __init__(self, kind, cell, idx, var, init, width, depth=None, aw=None):
        self.kind, self.cell, self.idx, self.var, self.init = kind, cell, idx, var, init
        self.width, self.depth, self.aw = width, depth, aw


class Netlist:
    def __init__(self, component, probes=(), ports=None, name=""):
        self.component = component
        frag = component if isinstance(component, Fragment) else Fragment.get(component, None)
        self.fragment = frag
        if ports is None:
            ports = []
            if hasattr(component, "signature"):
                ports = [sig for path, member, sig in component.signature.flatten(component)]
        # de-duplicate by identity (Signals are unhashable by value)
        seen, allports = set(), []
        for s in list(ports) + list(probes):
            if not isinstance(s, Signal) and hasattr(s, "as_value"):
                s = s.as_value()       # view classes (enum/struct views) wrap a plain Signal
            if isinstance(s, Signal) and id(s) not in seen:
                seen.add(id(s)); allports.append(s)
        self.ports = allports
        # Fragment.prepare() propagates clock domains through the hierarchy *in place*; snapshot and restore the
        # per-fragment domain tables so that the very same elaboration result can afterwards be handed to
        # amaranth.sim (co-simulation, replay) without elaborating the component a second time.
        with preserved_domains(frag):
            self.design = frag.prepare(ports=allports, hierarchy=("top",))
        self.nl = build_netlist(self.design, all_undef_to_ff=False)
        self.cells = self.nl.cells
        self.top = self.cells[0]
        self._build()

    # ------------------------------------------------------------------------------------
    def _build(self):
        cells = self.cells
        self.in_vars = {}           # port name -> BV var (None for zero width)
        self.tied = {}              # input var name -> constant (undriven signals the contract does not treat as free)
        self._topbits = {}
        for name, (start, width) in self.top.ports_i.items():
            v = z3.BitVec(f"in!{name}", width) if width > 0 else None
            self.in_vars[name] = v
            for b in range(width):
                self._topbits[start + b] = z3.Extract(b, b, v)
        self.state = []             # StateVar list
        self._cellout = {}
        self._mem = {}
        for idx, c in enumerate(cells):
            if isinstance(c, _nir.FlipFlop):
                w = len(c.data)
                var = z3.BitVec(f"ff!{idx}", w)
                self._cellout[idx] = var
                self.state.append(StateVar("ff", c, idx, var, c.init, w))
            elif isinstance(c, _nir.SyncReadPort):
                var = z3.BitVec(f"rp!{idx}", c.width)
                self._cellout[idx] = var
                self.state.append(StateVar("rp", c, idx, var, 0, c.width))
            elif isinstance(c, _nir.Memory):
                aw = max(1, (c.depth - 1).bit_length())
                var = z3.Array(f"mem!{idx}", z3.BitVecSort(aw), z3.BitVecSort(c.width))
                sv = StateVar("mem", c, idx, var, list(c.init), c.width, c.depth, aw)
                self._mem[idx] = sv
                self.state.append(sv)
            elif isinstance(c, (_nir.Top, _nir.Operator, _nir.Part, _nir.Matches, _nir.PriorityMatch,
                                _nir.AssignmentList, _nir.SyncWritePort, _nir.AsyncReadPort)):
                pass
            else:
                raise NotImplementedError(f"NIR cell {type(c).__name__} not supported by hdlvc")
        # next-state expressions
        self.next = {}
        for sv in self.state:
            if sv.kind == "ff":
                c = sv.cell
                if c.clk_edge != "pos":
                    raise NotImplementedError("negedge flip-flop")
                if not (_nir.Net.ensure(c.arst).is_const and _nir.Net.ensure(c.arst).const == 0):
                    raise NotImplementedError("async reset")
                self.next[sv.idx] = self._val(c.data)
        # memories: write ports applied in cell order
        writes = {}
        for idx, c in enumerate(cells):
            if isinstance(c, _nir.SyncWritePort):
                writes.setdefault(c.memory, []).append((idx, c))
        self._writes = writes
        for midx, sv in self._mem.items():
            arr = sv.var
            for widx, c in writes.get(midx, []):
                arr = self._apply_write(arr, sv, c)
            self.next[midx] = arr
        for sv in self.state:
            if sv.kind == "rp":
                c = sv.cell
                msv = self._mem[c.memory]
                addr = self._addr(c.addr, msv.aw)
                data = msv.var[addr]
                # transparency: a write this cycle to the same address is visible
                for widx in c.transparent_for:
                    wc = cells[widx]
                    waddr = self._addr(wc.addr, msv.aw)
                    en = self._val(wc.en); wd = self._val(wc.data)
                    data = z3.If(waddr == addr, (data & ~en) | (wd & en), data)
                if msv.depth != (1 << msv.aw):
                    data = z3.If(z3.ULT(addr, z3.BitVecVal(msv.depth, msv.aw)), data, z3.BitVecVal(0, sv.width))
                self.next[sv.idx] = z3.If(_is1(self._net(c.en)), data, sv.var)
        self.out_exprs = {name: self._val(v) for name, v in self.top.ports_o.items()}
        # signal table (by identity)
        self._sig = {}
        self._sig_obj = {}
        self._in_by_sig = {}
        # top-level inputs: by the Design's own (name, signal) port table, never by net aliasing
        for pname, psig, pdir in self.design.ports:
            if isinstance(psig, Signal) and pname in self.top.ports_i:
                self._in_by_sig[id(psig)] = self.in_vars[pname]
                self._sig_obj[id(psig)] = psig
        self._ff_by_sig = {}
        for sig, v in self.nl.signals.items():
            self._sig_obj[id(sig)] = sig
            if len(v) == 0:
                continue
            self._sig[id(sig)] = v
            n0 = v[0]
            if n0.is_cell and isinstance(self.cells[n0.cell], _nir.FlipFlop):
                if all(n.is_cell and n.cell == n0.cell and n.bit == n0.bit + i for i, n in enumerate(v)) \
                        and n0.bit == 0 and len(v) == len(self.cells[n0.cell].data):
                    self._ff_by_sig[id(sig)] = n0.cell

    def _addr(self, v, aw):
        a = self._val(v)
        if a is None:
            return z3.BitVecVal(0, aw)
        return _fit(a, aw)

    def _apply_write(self, arr, msv, c):
        addr_full = self._val(c.addr)
        addr = z3.BitVecVal(0, msv.aw) if addr_full is None else _fit(addr_full, msv.aw)
        en = self._val(c.en); data = self._val(c.data)
        new_word = (arr[addr] & ~en) | (data & en)
        upd = z3.Store(arr, addr, new_word)
        if msv.depth != (1 << msv.aw) or (addr_full is not None and addr_full.size() > msv.aw):
            inrange = z3.ULT(z3.ZeroExt(1, addr_full), z3.BitVecVal(msv.depth, addr_full.size() + 1)) \
                if addr_full is not None else z3.BoolVal(True)
            return z3.If(inrange, upd, arr)
        return upd

    # ---- nets ---------------------------------------------------------------------------
    def _net(self, n):
        n = _nir.Net.ensure(n)
        if n.is_const:
            return z3.BitVecVal(n.const, 1)
        ci, bit = n.cell, n.bit
        if ci == 0:
            return self._topbits[bit]
        return z3.Extract(bit, bit, self._cell(ci))

    def _val(self, v):
        v = list(v)
        if not v:
            return None
        parts, i = [], 0
        while i < len(v):
            n = v[i]
            if n.is_const:
                j, x = i, 0
                while j < len(v) and v[j].is_const:
                    x |= v[j].const << (j - i); j += 1
                parts.append(z3.BitVecVal(x, j - i)); i = j
            elif n.cell != 0:
                j = i
                while j < len(v) and v[j].is_cell and v[j].cell == n.cell and v[j].bit == n.bit + (j - i):
                    j += 1
                parts.append(z3.Extract(n.bit + (j - i) - 1, n.bit, self._cell(n.cell))); i = j
            else:
                parts.append(self._net(n)); i += 1
        if len(parts) == 1:
            return parts[0]
        return z3.Concat(*reversed(parts))

    def _cell(self, ci):
        if ci in self._cellout:
            return self._cellout[ci]
        c = self.cells[ci]
        if isinstance(c, _nir.Operator):
            r = self._operator(c)
        elif isinstance(c, _nir.Part):
            r = self._part(c)
        elif isinstance(c, _nir.Matches):
            v = self._val(c.value)
            alts = []
            for p in c.patterns:
                conj = []
                for i, ch in enumerate(reversed(p)):
                    if ch == "-":
                        continue
                    conj.append(z3.Extract(i, i, v) == z3.BitVecVal(int(ch), 1))
                alts.append(z3.And(*conj) if conj else z3.BoolVal(True))
            r = _bv1(z3.Or(*alts)) if alts else z3.BitVecVal(0, 1)
        elif isinstance(c, _nir.PriorityMatch):
            en = _is1(self._net(c.en))
            ins = [_is1(self._net(n)) for n in c.inputs]
            outs, prev = [], z3.BoolVal(False)
            for x in ins:
                outs.append(_bv1(z3.And(en, x, z3.Not(prev))))
                prev = z3.Or(prev, x)
            r = outs[0] if len(outs) == 1 else z3.Concat(*reversed(outs))
        elif isinstance(c, _nir.AssignmentList):
            cur = self._val(c.default)
            if cur is None:
                self._cellout[ci] = None
                return None
            w = cur.size()
            for a in c.assignments:
                av = self._val(a.value); lo = a.start
                if av is None or lo >= w:
                    continue
                hi = lo + av.size()
                if hi > w:
                    av = z3.Extract(w - lo - 1, 0, av); hi = w
                parts = []
                if lo > 0:
                    parts.append(z3.Extract(lo - 1, 0, cur))
                parts.append(av)
                if hi < w:
                    parts.append(z3.Extract(w - 1, hi, cur))
                new = parts[0] if len(parts) == 1 else z3.Concat(*reversed(parts))
                cur = z3.If(_is1(self._net(a.cond)), new, cur)
            r = cur
        elif isinstance(c, _nir.AsyncReadPort):
            msv = self._mem[c.memory]
            addr = self._addr(c.addr, msv.aw)
            r = msv.var[addr]
            if msv.depth != (1 << msv.aw):
                r = z3.If(z3.ULT(addr, z3.BitVecVal(msv.depth, msv.aw)), r, z3.BitVecVal(0, c.width))
        else:
            raise NotImplementedError(type(c).__name__)
        self._cellout[ci] = r
        return r

    def _operator(self, c):
        a = [self._val(i) for i in c.inputs]
        op = c.operator
        if any(x is None for x in a):
            # zero-width operands (z3 has no 0-bit vectors): results follow Amaranth's semantics of the empty value 0
            if op in ("b", "r|", "r^", "!=", "u<", "u>", "s<", "s>"):
                return z3.BitVecVal(0, 1)
            if op in ("r&", "==", "u<=", "u>=", "s<=", "s>="):
                return z3.BitVecVal(1, 1)
            if op == "m" and a[1] is None:
                return None
            if op in ("<<", "u>>", "s>>") and a[0] is not None:
                return a[0]
            return None
        if op == "~": return ~a[0]
        if op == "-" and len(a) == 1: return -a[0]
        if op in ("b", "r|"): return _bv1(a[0] != 0)
        if op == "r&": return _bv1(a[0] == z3.BitVecVal(-1, a[0].size()))
        if op == "r^":
            r = z3.Extract(0, 0, a[0])
            for k in range(1, a[0].size()):
                r = r ^ z3.Extract(k, k, a[0])
            return r
        if op == "+": return a[0] + a[1]
        if op == "-": return a[0] - a[1]
        if op == "*": return a[0] * a[1]
        if op == "&": return a[0] & a[1]
        if op == "|": return a[0] | a[1]
        if op == "^": return a[0] ^ a[1]
        if op == "u//": return z3.If(a[1] == 0, z3.BitVecVal(0, a[0].size()), z3.UDiv(a[0], a[1]))
        if op == "u%": return z3.If(a[1] == 0, z3.BitVecVal(0, a[0].size()), z3.URem(a[0], a[1]))
        if op == "==": return _bv1(a[0] == a[1])
        if op == "!=": return _bv1(a[0] != a[1])
        if op == "u<": return _bv1(z3.ULT(a[0], a[1]))
        if op == "u>": return _bv1(z3.UGT(a[0], a[1]))
        if op == "u<=": return _bv1(z3.ULE(a[0], a[1]))
        if op == "u>=": return _bv1(z3.UGE(a[0], a[1]))
        if op == "s<": return _bv1(a[0] < a[1])
        if op == "s>": return _bv1(a[0] > a[1])
        if op == "s<=": return _bv1(a[0] <= a[1])
        if op == "s>=": return _bv1(a[0] >= a[1])
        if op == "m": return z3.If(_is1(a[0]), a[1], a[2])
        if op in ("<<", "u>>", "s>>"):
            x, sh = a[0], a[1]; w = x.size()
            ww = max(w, sh.size()) + 1
            xe = z3.SignExt(ww - w, x) if op == "s>>" else z3.ZeroExt(ww - w, x)
            she = z3.ZeroExt(ww - sh.size(), sh)
            big = z3.UGE(she, z3.BitVecVal(ww, ww))
            if op == "<<":
                y = z3.If(big, z3.BitVecVal(0, ww), xe << she)
            elif op == "u>>":
                y = z3.If(big, z3.BitVecVal(0, ww), z3.LShR(xe, she))
            else:
                y = z3.If(big, xe >> z3.BitVecVal(ww - 1, ww), xe >> she)
            return z3.Extract(w - 1, 0, y)
        raise NotImplementedError(f"NIR operator {op}")

    def _part(self, c):
        v = self._val(c.value); off = self._val(c.offset)
        vw = v.size()
        ww = vw + c.width + 1
        ow = max(off.size() + c.stride.bit_length() + 1, ww.bit_length() + 1)
        W = max(ww, ow)
        ve = z3.SignExt(W - vw, v) if c.value_signed else z3.ZeroExt(W - vw, v)
        offe = z3.ZeroExt(W - off.size(), off) * z3.BitVecVal(c.stride, W)
        big = z3.UGE(offe, z3.BitVecVal(W, W))
        if c.value_signed:
            sh = z3.If(big, ve >> z3.BitVecVal(W - 1, W), ve >> offe)
        else:
            sh = z3.If(big, z3.BitVecVal(0, W), z3.LShR(ve, offe))
        return z3.Extract(c.width - 1, 0, sh)

    # ---- public handles --------------------------------------------------------------------
    def has(self, sig):
        return id(sig) in self._sig

    def tie_off(self, sig):
        """Declare that `sig`, if nothing in the design drives it, is NOT an environment input: an undriven signal
        keeps its init value in hardware (Amaranth lists undriven ports as netlist inputs; the contract decides
        which of those are genuinely free)."""
        v = self._in_by_sig.get(id(sig))
        if v is not None:
            self.tied[v.decl().name()] = z3.BitVecVal(sig.init & ((1 << len(sig)) - 1), len(sig))
            return True
        return False

    def sig_expr(self, sig):
        """Current-cycle value of a Signal as a term over the base state/input variables."""
        if id(sig) not in self._sig:
            raise KeyError(f"signal {sig!r} is not in the netlist")
        return self._val(self._sig[id(sig)])

    def input_var(self, sig):
        return self._in_by_sig.get(id(sig))

    def is_input(self, sig):
        return id(sig) in self._in_by_sig

    def ff_of(self, sig):
        """Index of the flip-flop cell whose output *is* this signal, or None."""
        return self._ff_by_sig.get(id(sig))

    def signals(self):
        return [(self._sig_obj[i], v) for i, v in self._sig.items()]

    def input_signals(self):
        return [self._sig_obj[i] for i, v in self._in_by_sig.items() if v is None or v.decl().name() not in self.tied]

    def ff_signals(self):
        return [(self._sig_obj[i], ci) for i, ci in self._ff_by_sig.items()]

    def state_in_submodule(self, sub_name):
        """state elements (cell indices) that live in the direct submodule `sub_name` of the top module, or below it"""
        mods = self.nl.modules
        out = []
        for sv in self.state:
            mi = sv.cell.module_idx
            name = mods[mi].name
            if len(name) >= 2 and name[1] == sub_name:
                out.append(sv.idx)
        return out

    @property
    def rst_var(self):
        return self.in_vars.get("rst")

    def n_state_bits(self):
        return sum(sv.width for sv in self.state if sv.kind != "mem")

    # ---- frames ---------------------------------------------------------------------------
    def frame(self, tag, prev=None, state=None, rst=0):
        return Frame(self, tag, prev=prev, state=state, rst=rst)

    def reset_state(self):
        """State after power-on: flip-flops at init, read ports 0, memories at their init image."""
        st = {}
        for sv in self.state:
            if sv.kind == "mem":
                arr = z3.K(z3.BitVecSort(sv.aw), z3.BitVecVal(0, sv.width))
                for a, word in enumerate(sv.init):
                    arr = z3.Store(arr, z3.BitVecVal(a, sv.aw), z3.BitVecVal(int(word), sv.width))
                st[sv.idx] = arr
            else:
                st[sv.idx] = z3.BitVecVal(sv.init, sv.width)
        return st


class Frame:
    """One clock cycle of the netlist with its own input variables.

    state: dict cell idx -> term (defaults: fresh symbolic = arbitrary state, or prev frame's next state)."""

    def __init__(self, nl, tag, prev=None, state=None, rst=0):
        self.nl, self.tag = nl, tag
        self.inputs = {}
        subs = []
        for name, v in nl.in_vars.items():
            if v is None:
                continue
            if name == "rst" and rst is not None:
                nv = z3.BitVecVal(rst, 1)
            elif v.decl().name() in nl.tied:
                nv = nl.tied[v.decl().name()]
            else:
                nv = z3.BitVec(f"{name}@{tag}", v.size())
            self.inputs[name] = nv
            subs.append((v, nv))
        self.state = {}
        for sv in nl.state:
            if state is not None and sv.idx in state:
                t = state[sv.idx]
            elif prev is not None:
                t = prev.next_state(sv.idx)
            else:
                if sv.kind == "mem":
                    t = z3.Array(f"mem!{sv.idx}@{tag}", z3.BitVecSort(sv.aw), z3.BitVecSort(sv.width))
                else:
                    t = z3.BitVec(f"{'ff' if sv.kind == 'ff' else 'rp'}!{sv.idx}@{tag}", sv.width)
            self.state[sv.idx] = t
            subs.append((sv.var, t))
        self._subs = subs
        self._cache = {}

    def inst(self, expr):
        if expr is None:
            return None
        return z3.substitute(expr, *self._subs)

    def val(self, sig):
        k = id(sig)
        if k not in self._cache:
            self._cache[k] = self.inst(self.nl.sig_expr(sig))
        return self._cache[k]

    def inp(self, sig):
        if not self.nl.is_input(sig):
            raise KeyError(f"{sig!r} is not a top-level input")
        v = self.nl.input_var(sig)
        if v is None:
            return None            # zero-width input
        return self.inst(v)

    def next_state(self, idx):
        k = ("n", idx)
        if k not in self._cache:
            self._cache[k] = self.inst(self.nl.next[idx])
        return self._cache[k]

    def next_val(self, sig):
        """Value of a flip-flop-backed signal in the next cycle."""
        ci = self.nl.ff_of(sig)
        if ci is None:
            raise KeyError(f"{sig!r} is not a flip-flop output")
        return self.next_state(ci)

    def cur_state(self, idx):
        return self.state[idx]

    def experiment(self, overrides):
        """Same state, but with some inputs replaced (Signal -> term): an 'experiment' on the transition function."""
        f = Frame.__new__(Frame)
        f.nl, f.tag = self.nl, self.tag + "x"
        f.inputs = dict(self.inputs)
        omap = {}
        for sig, term in overrides:
            v = self.nl.input_var(sig)
            if v is None:
                raise KeyError(f"{sig!r} not an input")
            omap[v.decl().name()] = term
        subs = []
        for (base, t) in self._subs:
            nm = base.decl().name()
            if nm in omap:
                t = omap[nm] if not isinstance(omap[nm], int) else z3.BitVecVal(omap[nm], base.size())
            subs.append((base, t))
        f._subs = subs
        f.state = self.state
        f._cache = {}
        return f


# ---- solving -------------------------------------------------------------------------------
def prove(claim, assumptions=(), timeout_ms=60000, retry=True):
    """Return ('unsat', None) when the claim holds for all values, ('sat', model) with a counter-model, or ('unknown', reason)."""
    s = z3.Solver()
    s.set("timeout", timeout_ms)
    for a in assumptions:
        s.add(a)
    s.add(z3.Not(claim))
    r = s.check()
    if r == z3.unknown and retry and not os.environ.get("VERIF_NO_RETRY"):
        # a busy machine must not flip a verdict: one more attempt with three times the budget
        s.set("timeout", timeout_ms * 3)
        r = s.check()
    if r == z3.unsat:
        return "unsat", None
    if r == z3.sat:
        return "sat", s.model()
    return "unknown", s.reason_unknown()
