"""Lean lemma library: `python -m vf.lean_check --build` compiles lemmas/*.lean with Lean 4 + Mathlib and records the
SHA-256 of every accepted file in lemmas/ACCEPTED.json; `--verify` (used by checks) compares hashes only."""
import hashlib, json, os, subprocess, sys, time

HERE = os.path.dirname(os.path.dirname(os.path.abspath(__file__)))
LEM = os.path.join(HERE, "lemmas")


def sha(path):
    return hashlib.sha256(open(path, "rb").read()).hexdigest()


def build():
    ok = {}
    rc = 0
    for f in sorted(os.listdir(LEM)):
        if not f.endswith(".lean"):
            continue
        t = time.time()
        p = subprocess.run(["lean", f], cwd=LEM, capture_output=True, text=True, timeout=3600)
        out = (p.stdout + p.stderr).strip()
        good = p.returncode == 0 and "error" not in out
        print(f"lean {f}: {'accepted' if good else 'REJECTED'} in {time.time() - t:.0f}s")
        if good:
            ok[f] = sha(os.path.join(LEM, f))
        else:
            rc = 1
            print(out[:2000])
    json.dump(ok, open(os.path.join(LEM, "ACCEPTED.json"), "w"), indent=1)
    return rc


def status():
    """-> dict file -> 'accepted' | 'changed-since-accepted' | 'never-accepted'"""
    try:
        ok = json.load(open(os.path.join(LEM, "ACCEPTED.json")))
    except Exception:
        ok = {}
    res = {}
    for f in sorted(os.listdir(LEM)):
        if f.endswith(".lean"):
            res[f] = "accepted" if ok.get(f) == sha(os.path.join(LEM, f)) else ("changed-since-accepted" if f in ok else "never-accepted")
    return res


if __name__ == "__main__":
    if "--build" in sys.argv:
        sys.exit(build())
    print(json.dumps(status(), indent=1))
