"""C01 -- the memory map tells the truth about the hardware, end to end.

Composition check on GENERATED hierarchies (flattened real design; every component by its real body):
 CSR-rooted trees (decoders over decoders over bridges / event monitors / GPIO): the generic CSR-target contract
   (csrtarget: strobe exactness for ALL inputs, zero-when-idle, snapshot/write invariants) at the ROOT bus with the
   registers and addresses that root.memory_map.all_resources() reports  -- "a leaf is reached iff the root map decodes
   the address to it, at the offset the map reports; unassigned addresses strobe nobody and read zero";
   plus (native, exhaustive over the root address space) decode_address()/find_resource() agree with all_resources().
 Wishbone-rooted trees (wishbone.Decoder over SRAMs and Wishbone-to-CSR bridges over CSR subtrees): one fully symbolic
   transfer unrolled from the state "bridge sequencers idle, SRAM acknowledges low, everything else arbitrary"
   (justified by C10's induction over transfers):
     csr_leaf_reach     cycle k: leaf R read-strobed iff sel[k] & !we & (adr*ratio+k == R.start in root-map units); write
                        strobe one cycle later iff ... == R.end-1; no strobe in any other cycle
     sram_reach         SRAM M sees cyc iff root cyc and adr in M's range; its word address is adr - base; M's memory changes
                        only by a write inside its range
     unselected_silent  an address in no window: no acknowledge in any cycle, no leaf strobe, no memory change
The per-component clauses are C04-C07, C10, C15; the arithmetic of windows/patterns/translation is C02/C03 (pyvc).
"""
import z3
from ..common import Run, BASE_ASSUMPTIONS_L2
from ..hdl.harness import run_configs, Refused
from ..hdl.nir import _fit
from . import csrtarget, tree

PROP = "C01"
LEVEL = "other"
WB_CLAUSES = ["csr_leaf_reach", "sram_reach", "unselected_silent", "sequencer_back_at_reset"]
KNOWN_ACK = "wb-ack-on-unassigned-address-inside-csr-bridge-window"


def configs(tier, seed):
    return ([{"kind": "csr", **c} for c in tree.csr_configs(tier, seed, salt=1)] +
            [{"kind": "wb", **c} for c in tree.wb_configs(tier, seed)])


def native(ctx, clause, ok, detail, cfg):
    ctx.results.append({"name": f"{clause}@{ctx.key}", "clause": clause, "status": "discharged" if ok else "failed", "time": 0.0,
                        "replay": {"confirmed": True, "how": "native evaluation on the real memory map", "detail": detail},
                        "cfg": cfg, "known_key": clause, "solver": "native evaluation"})


def map_agreement(ctx, mm, cfg):
    """decode_address / find_resource / all_resources agree on every address of the root map (exhaustive, native)"""
    infos = list(mm.all_resources())
    bad = []
    owner = {}
    for info in infos:
        for a in range(info.start, info.end):
            if a in owner:
                bad.append(("overlap", a))
            owner[a] = info.resource
        try:
            f = mm.find_resource(info.resource)
            if (f.start, f.end, f.width, tuple(f.path)) != (info.start, info.end, info.width, tuple(info.path)):
                bad.append(("find_resource", tuple(info.path)))
        except KeyError:
            bad.append(("find_resource KeyError", tuple(info.path)))
    for a in range(1 << mm.addr_width):
        if mm.decode_address(a) is not owner.get(a):
            bad.append(("decode_address", a))
    starts = [i.start for i in infos]
    if starts != sorted(starts):
        bad.append("order")
    native(ctx, "map_agreement", not bad, str(bad[:5]), cfg)


def check_csr(ctx, cfg):
    m, bus, built = tree.build_csr_root(cfg)
    regs = csrtarget.regs_from_map(bus.memory_map)
    map_agreement(ctx, bus.memory_map, cfg)
    csrtarget.range_covers_width(ctx, regs, cfg["dw"], cfg)
    ports = [bus.addr, bus.r_data, bus.r_stb, bus.w_data, bus.w_stb]
    nl = ctx.netlist(m, ports=ports, probes=csrtarget.elem_signals(regs), tie=[bus.r_data])
    ctx.nontrivial = len(regs) >= 2
    ctx.info["registers"] = len(regs)
    csrtarget.read_clauses(ctx, nl, bus, regs)
    csrtarget.write_clauses(ctx, nl, bus, regs)


def check_wb(ctx, cfg):
    from .arbiter import sigs_of
    m, dec, leaves, built = tree.build_wb_root(cfg)
    bus = dec.bus
    mm = bus.memory_map
    map_agreement(ctx, mm, cfg)
    infos = list(mm.all_resources())
    regs = [i for i in infos if hasattr(i.resource, "element")]
    csrtarget.range_covers_width(ctx, [{"name": "/".join(map(str, i.path)), "start": i.start, "stop": i.end, "width": i.resource.element.width} for i in regs], cfg["g"], cfg)
    probes = []
    for i in regs:
        e = i.resource.element
        probes += [getattr(e, n) for n in ("r_stb", "w_stb", "r_data", "w_data") if hasattr(e, n)]
    srams = [(s, nm) for kind, s, nm in leaves if kind == "sram"]
    bridges = [(b, nm) for kind, b, nm in leaves if kind == "csr"]
    for s, _ in srams:
        probes += sigs_of(s.wb_bus)
    for b, _ in bridges:
        probes += sigs_of(b.wb_bus)
    nl = ctx.netlist(m, ports=sigs_of(bus), probes=probes, tie=[bus.ack, bus.dat_r])
    ctx.nontrivial = len(leaves) >= 2
    dw, g = cfg["dw"], cfg["g"]
    ratio = dw // g
    one, zero = z3.BitVecVal(1, 1), z3.BitVecVal(0, 1)
    # start state: bridge sequencers at reset, every acknowledge low, everything else (registers, memories, shadows) arbitrary
    st0 = {}
    for b, nm in bridges:
        for idx in nl.state_in_submodule(nm):
            sv = [x for x in nl.state if x.idx == idx][0]
            if sv.kind == "ff" and idx != nl.ff_of(b.wb_bus.dat_r):
                st0[idx] = z3.BitVecVal(sv.init, sv.width)
    for s, nm in srams:
        st0[nl.ff_of(s.wb_bus.ack)] = zero
    def mem_replay(images):
        """replay only: preload the simulator's memory images (see C15)"""
        saved = []
        for s_, nm_ in srams:
            mem = next(iter(s_.wb_bus.memory_map.resources()))[0]
            raw = mem.data._init._raw
            for midx in nl.state_in_submodule(nm_):
                if midx in images:
                    saved.append((raw, list(raw)))
                    raw[:] = [int(x or 0) for x in images[midx]][:len(raw)]
        def restore():
            for raw, old in saved:
                raw[:] = old
        return restore

    K = ratio + 2          # cycles 0 .. ratio+1 of ONE transfer (the acknowledge is out in cycle ratio+1)
    frames, prev = [], None
    for k in range(K):
        f = nl.frame(f"t{k}", prev=prev, state=st0 if prev is None else None)
        frames.append(f); prev = f
    W = mm.addr_width + 4
    has_adr = len(bus.adr) > 0
    adr = z3.BitVec("ADR", len(bus.adr)) if has_adr else None
    sel = z3.BitVec("SEL", ratio); we = z3.BitVec("WE", 1); datw = z3.BitVec("DATW", dw)
    held = []
    for f in frames:
        held += [f.inp(bus.cyc) == 1, f.inp(bus.stb) == 1, f.inp(bus.sel) == sel, f.inp(bus.we) == we, f.inp(bus.dat_w) == datw]
        if has_adr:
            held.append(f.inp(bus.adr) == adr)
    a0 = (z3.ZeroExt(W - adr.size(), adr) * z3.BitVecVal(ratio, W)) if has_adr else z3.BitVecVal(0, W)
    # windows of the root decoder (extent = the subordinate's own span)
    wins = {}
    for win, name, (start, stop, r) in mm.windows():
        wins[id(win)] = (start, min(stop, start + (1 << win.addr_width) // r))
    inwin = lambda rng: z3.And(z3.UGE(a0, z3.BitVecVal(rng[0], W)), z3.ULT(a0, z3.BitVecVal(rng[1], W)))
    any_win = z3.Or(*[inwin(r) for r in wins.values()]) if wins else z3.BoolVal(False)
    # --- CSR leaves behind bridges
    conj = []
    for info in regs:
        e = info.resource.element
        for k, f in enumerate(frames):
            ak = a0 + z3.BitVecVal(k, W)
            if hasattr(e, "r_stb"):
                exp = z3.If(z3.And(z3.BoolVal(k < ratio), z3.Extract(min(k, ratio - 1), min(k, ratio - 1), sel) == 1, we == 0,
                                   ak == z3.BitVecVal(info.start, W)), one, zero)
                conj.append(f.val(e.r_stb) == exp)
            if hasattr(e, "w_stb") and k >= 1:
                kk = k - 1
                akk = a0 + z3.BitVecVal(kk, W)
                exp = z3.If(z3.And(z3.BoolVal(kk < ratio), z3.Extract(min(kk, ratio - 1), min(kk, ratio - 1), sel) == 1, we == 1,
                                   akk == z3.BitVecVal(info.end - 1, W)), one, zero)
                conj.append(f.val(e.w_stb) == exp)
    if conj:
        ctx.prove("csr_leaf_reach", z3.And(*conj), held, frames=frames, mem_replay=mem_replay)
    else:
        ctx.prove("csr_leaf_reach", z3.BoolVal(True))
    # --- the start-state assumption above is re-established by every transfer: after the acknowledge cycle each bridge's
    #     sequencer is in its reset state again, whether the initiator goes idle or presents the next transfer back to back
    #     (so the clauses hold for every transfer of every sequence, by induction over transfers)
    back = []
    last = frames[-1]
    for idx, v0 in st0.items():
        sv = [x for x in nl.state if x.idx == idx][0]
        if sv.kind == "ff" and not any(idx == nl.ff_of(s.wb_bus.ack) for s, _ in srams):
            back.append(last.next_state(idx) == v0)
    if back and bridges:
        ctx.prove("sequencer_back_at_reset", z3.And(*back), held + [z3.Or(*[frames[-1].val(b.wb_bus.ack) == 1 for b, _ in bridges])], frames=frames, mem_replay=mem_replay)
    # --- SRAM leaves
    f0 = frames[0]
    sconj = []
    k = dw // g
    for s, nm in srams:
        rng = wins[id(s.wb_bus.memory_map)]
        sel_here = inwin(rng)
        sconj.append(f0.val(s.wb_bus.cyc) == z3.If(sel_here, one, zero))
        if len(s.wb_bus.adr):
            off = z3.UDiv(a0 - z3.BitVecVal(rng[0], W), z3.BitVecVal(k, W))
            sconj.append(z3.Implies(sel_here, z3.ZeroExt(W - len(s.wb_bus.adr), f0.val(s.wb_bus.adr)) == off))
        for midx in nl.state_in_submodule(nm):
            sv = [x for x in nl.state if x.idx == midx][0]
            if sv.kind == "mem":
                i = z3.BitVec(f"mi{midx}", sv.aw)
                sconj.append(z3.Implies(z3.Not(z3.And(sel_here, we == 1)), f0.next_state(midx)[i] == f0.state[midx][i]))
    ctx.prove("sram_reach", z3.And(*sconj) if sconj else z3.BoolVal(True), held, frames=frames[:2], mem_replay=mem_replay)
    # --- nobody selected
    quiet = [f.val(bus.ack) == 0 for f in frames]
    for s, nm in srams:
        for midx in nl.state_in_submodule(nm):
            sv = [x for x in nl.state if x.idx == midx][0]
            if sv.kind == "mem":
                i = z3.BitVec(f"qi{midx}", sv.aw)
                quiet.append(frames[-1].state[midx][i] == f0.state[midx][i])
    ctx.prove("unselected_silent", z3.And(*quiet), held + [z3.Not(any_win)], frames=frames, mem_replay=mem_replay)
    covered = sum(hi - lo for lo, hi in wins.values())
    if has_adr and covered < (1 << mm.addr_width):          # otherwise every address selects somebody: nothing to cover
        ctx.sat("some-address-is-unselected", z3.And(*held, z3.Not(any_win)))
    # --- the literal reading of "unassigned addresses are never acknowledged" (known finding when a bridge window has holes)
    assigned = z3.Or(*[z3.And(z3.UGE(a0 + z3.BitVecVal(ratio - 1, W), z3.BitVecVal(i.start, W)), z3.ULT(a0, z3.BitVecVal(i.end, W)))
                       for i in infos]) if infos else z3.BoolVal(False)
    ctx.prove("unassigned_never_acknowledged", z3.And(*[f.val(bus.ack) == 0 for f in frames]), held + [z3.Not(assigned)],
              frames=frames, known_key=KNOWN_ACK, mem_replay=mem_replay)


def check_config(ctx, cfg):
    if cfg["kind"] == "csr":
        check_csr(ctx, cfg)
    else:
        check_wb(ctx, cfg)


def main(run: Run):
    cfgs = configs(run.tier, run.seed)
    run.require(*(csrtarget.READ_CLAUSES + csrtarget.WRITE_CLAUSES + WB_CLAUSES + ["map_agreement"]))
    run.assumptions += BASE_ASSUMPTIONS_L2
    run.assumptions += ["Wishbone-rooted trees: one transfer from the state 'bridge sequencers at reset, SRAM acknowledges low, all other "
                        "state arbitrary' - sufficient by C10's induction over transfers and C15's ack clause",
                        "the induction over arbitrary tree shapes is argued in DESIGN.md (each node's clause is the induction step), not mechanised; "
                        "tree shapes are enumerated/seeded (bounded)"]
    run.functions["composition: csr.Decoder / csr.Bridge / csr.Multiplexer / csr.EventMonitor / gpio.Peripheral / wishbone.Decoder / WishboneSRAM / WishboneCSRBridge (flattened)"] = "per generated hierarchy (bounded in shapes), all root addresses and all inputs"
    run_configs(run, __name__, cfgs, cosim_cycles=8, must_accept=lambda cfg: bool(cfg.get('directed')))
    from . import patterns_l1
    patterns_l1.add_to(run)
    from . import validation
    validation.add_to(run, ["wb_csr_bridge_ctor", "memory_map_setters"])
    from ..pyvc.driver import discharge_all as _da
    from ..pyvc.engine import Unsupported as _Uns
    try:
        from contracts import glue_l1
        fvb = glue_l1.verify_csr_bridge_elaborate()
        run.functions["amaranth_soc.csr.reg.Bridge.elaborate [statements issued, any register set]"] = f"proved ({fvb.paths} paths, {len(fvb.obs)} obligations)"
        run.require("csr.reg.Bridge.elaborate::each-register-becomes-a-submodule-exactly-once", "csr.reg.Bridge.elaborate::bus-connected-to-the-multiplexer")
        _da(run, fvb.obs, timeout_ms=10000)
    except _Uns as e:
        run.bounded_notes.append(f"csr.Bridge.elaborate: outside the pyvc subset on this tree ({e}); the per-hierarchy clauses decide")
    from . import ctor_l1
    ctor_l1.add_to(run, ['reg_bridge_init', 'mux_init'])
    return run.finish(
        explanation="End-to-end composition on generated hierarchies: the flattened real design is checked at the root bus against the "
                    "addresses root.memory_map.all_resources() reports (CSR-rooted: generic CSR-target contract with a symbolic root "
                    "address; Wishbone-rooted: one symbolic transfer unrolled). Per-component contracts are C04-C07/C10/C15, address "
                    "arithmetic is C02/C03. Bounded in hierarchy shapes.",
        rule="configuration = one generated hierarchy (JSON tree); non-trivial = >= 2 leaves/registers")
