"""C02 -- memory-map allocation never overlaps, overflows, misaligns or half-applies (L1: pyvc, level proof)."""
import time
from ..common import Run, BASE_ASSUMPTIONS_L1
from ..pyvc.driver import discharge_all
from ..pyvc.engine import Unsupported

PROP = "C02"
LEVEL = "proof"


def collect():
    from contracts import memory_c02 as c
    fns = [c.verify_align_up, c.verify_align_to, c.verify_compute_addr_range, c.verify_add_resource]
    for name in ("verify_add_window", "verify_freeze", "verify_init", "verify_rangemap_init", "verify_resources", "verify_windows"):
        if hasattr(c, name):
            fns.append(getattr(c, name))
    try:
        from contracts import rangemap
        fns += rangemap.ALL
    except ImportError:
        pass
    return fns


def main(run: Run):
    obs = []
    for f in collect():
        t = time.time()
        try:
            fv = f()
        except Unsupported as e:
            run.functions[f.__name__.replace("verify_", "")] = f"unsupported: {e}"
            run.undecided.append(f"{f.__name__}: unsupported construct: {e}")
            continue
        run.functions["amaranth_soc.memory." + fv.qualname] = f"proved ({fv.paths} paths, {len(fv.obs)} obligations generated in {time.time() - t:.1f}s)"
        obs += fv.obs
    run.assumptions += BASE_ASSUMPTIONS_L1
    run.assumptions += ["self and the window argument are distinct objects (a map added to itself is outside the property's domain)",
                        "an object is not both a wiring.Component and a MemoryMap; id() of a new object differs from every registered id",
                        "the quantified pow2 axioms are proved in Lean 4/Mathlib (lemmas/Pow2.lean); `x & (x-1)` is an arbitrary non-negative integer except in the "
                        "wf-align obligations, where a ground instance of Align.lean pow2_test_dvd (Lean core: and_sub_one_eq_zero_iff_isPowerOfTwo) is used",
                        "_Namespace availability is an uninterpreted predicate here (its semantics is property C18)"]
    run.trusted_base += ["pyvc VC generator (vf/pyvc/engine.py)", "z3 5.1 / cvc5 1.0", "Lean 4.33 + Mathlib for the arithmetic lemma library",
                         "CPython cross-check of the engine's path summaries (vf/pyvc/crosscheck.py)"]
    discharge_all(run, obs, timeout_ms=40000)
    # engine validation against CPython (every run): disagreement = engine fault (exit 3), never a violation
    from ..pyvc.crosscheck import crosscheck_memory
    from ..common import EngineFault
    try:
        n = crosscheck_memory(seed=run.seed, n_inputs=16 if run.tier == "quick" else 150)
        run.extra["cpython_crosscheck"] = {"function_input_pairs": n, "disagreements": 0,
                                           "inputs_skipped_because_the_solver_left_a_path_undecided": getattr(crosscheck_memory, "skipped", 0)}
    except EngineFault as e:
        run.engine_faults.append(str(e))
    # "frozen ... by being handed to a bridge": csr.reg.Bridge.__init__ freezes every map it accepts (pyvc, any map)
    from . import ctor_l1
    ctor_l1.add_to(run, ["reg_bridge_init_freezes"])
    from . import memtrees
    memtrees.run_bounded(run, "history", run.tier, forced=bool(run.undecided) or any(o.status == "undecided" for o in run.obligations))
    for o in obs[:6]:
        run.sample(f"{o.fn}::{o.clause}::{o.label}")
    from ..lean_check import status as _lean_status
    run.extra["lean_lemmas"] = {"files": _lean_status(), "used": "Pow2.lean: pow2_pos, pow2_mono_dvd, align_up_spec, least_multiple_unique, clog2_spec; Align.lean: int_aligned_coarser, pow2_test_dvd (ground instances in the wf-align obligations)"}
    for _f, _st in run.extra["lean_lemmas"]["files"].items():
        if _st != "accepted":
            run.assumptions.append(f"Lean lemma file {_f} is '{_st}': the SMT axioms it backs are TRUSTED in this run")
    return run.finish(
        explanation="Every function of the allocator is verified against its contract by pyvc: the real source is symbolically "
                    "executed path by path; post-conditions, frame/atomicity conditions, internal asserts and arithmetic side "
                    "conditions are discharged by z3/cvc5 for all arguments and all object states satisfying the representation "
                    "invariant; the invariant is preserved by every method, hence holds after every call history.",
        checker_cmd="./check C02 --tier " + run.tier)
