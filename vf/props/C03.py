"""C03 -- resource lookup through windows is coherent in every direction (L1: pyvc)."""
import time
from ..common import Run, BASE_ASSUMPTIONS_L1
from ..pyvc.driver import discharge_all
from ..pyvc.engine import Unsupported

PROP = "C03"
LEVEL = "proof"


def main(run: Run):
    from contracts import memory_c03 as c
    obs = []
    for f in c.ALL:
        t = time.time()
        try:
            fv = f()
        except Unsupported as e:
            run.functions[f.__name__.replace("verify_", "")] = f"unsupported: {e}"
            run.undecided.append(f"{f.__name__}: unsupported construct: {e}")
            continue
        run.functions["amaranth_soc.memory." + fv.qualname] = f"proved ({fv.paths} paths, {len(fv.obs)} obligations generated in {time.time() - t:.1f}s)"
        obs += fv.obs
    run.assumptions += BASE_ASSUMPTIONS_L1
    run.assumptions += [
        "trees only: recursion on a child uses the same contract (measure: height); a map reachable from itself is outside the domain",
        "ASSUMED (not proved): for a dense window of ratio > 1 the child is a leaf map whose every range start and size is a "
        "multiple of the ratio (consequence of add_window's alignment check and add_resource's alignment rule; proving the "
        "alignment invariant made z3 diverge on divisibility over symbolic powers of two) - monitored at run time in the thorough tier",
        "ASSUMED tree well-formedness per window: the window's range spans at least 2**child.addr_width / ratio addresses (add_window post-condition, C02)",
        "names/paths are opaque symbols: only their provenance (which dict entry / which child path) is tracked",
        "dict.values() / generator / for-loop semantics of CPython (each element visited once, in order)"]
    run.trusted_base += ["pyvc VC generator (vf/pyvc/engine.py)", "z3 5.1 / cvc5 1.0", "contracts of _RangeMap.get/items proved in C02"]
    discharge_all(run, obs, timeout_ms=30000)
    from . import memtrees
    memtrees.run_bounded(run, "tree", run.tier, forced=bool(run.undecided) or any(o.status == "undecided" for o in run.obligations))
    for o in obs[:6]:
        run.sample(f"{o.fn}::{o.clause}::{o.label}")
    from ..lean_check import status as _lean_status
    run.extra["lean_lemmas"] = {"files": _lean_status(), "used": "Pow2.lean: dense_window_translation"}
    for _f, _st in run.extra["lean_lemmas"]["files"].items():
        if _st != "accepted":
            run.assumptions.append(f"Lean lemma file {_f} is '{_st}': the SMT axioms it backs are TRUSTED in this run")
    return run.finish(
        explanation="_translate, ResourceInfo.__init__, decode_address, all_resources and find_resource are verified against "
                    "contracts over the abstract map view; recursive calls use the function's own contract on the child; the "
                    "coherence of the three lookups is the induction step proved as arithmetic lemmas over those contracts.",
        checker_cmd="./check C03 --tier " + run.tier)
