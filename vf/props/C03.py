"""C03 -- resource lookup through windows is coherent in every direction (L1: pyvc)."""
import time
from ..common import Run, BASE_ASSUMPTIONS_L1
from ..pyvc.driver import discharge_all
from ..pyvc.engine import Unsupported

PROP = "C03"
LEVEL = "proof"


def main(run: Run):
    from contracts import memory_c03 as c
    obs = []
    for f in c.ALL:
        t = time.time()
        try:
            fv = f()
        except Unsupported as e:
            run.functions[f.__name__.replace("verify_", "")] = f"unsupported: {e}"
            run.undecided.append(f"{f.__name__}: unsupported construct: {e}")
            continue
        run.functions["amaranth_soc.memory." + fv.qualname] = f"proved ({fv.paths} paths, {len(fv.obs)} obligations generated in {time.time() - t:.1f}s)"
        obs += fv.obs
    # the second layer of the representation invariant (alignment rule, window geometry) that the dense-window steps rest on:
    # its inductiveness obligations (MemoryMap.__init__ / add_resource / add_window) are re-discharged here, not assumed
    from contracts import memory_c02
    for f in (memory_c02.verify_init, memory_c02.verify_add_resource, memory_c02.verify_add_window):
        t = time.time()
        try:
            fv = f()
        except Unsupported as e:
            run.functions["amaranth_soc.memory." + f.__name__.replace("verify_", "MemoryMap.") + " [alignment layer]"] = f"unsupported: {e}"
            run.undecided.append(f"{f.__name__}: unsupported construct: {e}")
            continue
        mine = [o for o in fv.obs if "wf-align" in o.clause]
        run.functions["amaranth_soc.memory." + fv.qualname + " [alignment layer of the invariant]"] = \
            f"proved ({len(mine)} obligations generated in {time.time() - t:.1f}s)"
        obs += mine
    run.assumptions += BASE_ASSUMPTIONS_L1
    run.assumptions += [
        "trees only: recursion on a child uses the same contract (measure: height); a map reachable from itself is outside the domain",
        "REQUIRES on the tree (the property's stated domain): dense windows of ratio > 1 sit over leaf maps",
        "divisibility steps (a multiple of 2**e is a multiple of 2**al for al <= e; x % 2**a == 0 and 2**a % t == 0 give x % t == 0; "
        "the r & (r-1) power-of-two test) are GROUND INSTANCES of lemmas proved in Lean (lemmas/Align.lean), connected to the SMT "
        "side through the defined predicates AlignedTo / DividesPow2 / fdiv whose definitions are unfolded at ground terms only",
        "AWc/DWc/ALc(id) denote the geometry of the map with that identity (read-only properties set once in __init__)",
        "names/paths are opaque symbols: only their provenance (which dict entry / which child path) is tracked",
        "dict.values() / generator / for-loop semantics of CPython (each element visited once, in order)"]
    run.trusted_base += ["pyvc VC generator (vf/pyvc/engine.py)", "z3 5.1 / cvc5 1.0", "contracts of _RangeMap.get/items proved in C02"]
    discharge_all(run, obs, timeout_ms=30000)
    from . import memtrees
    memtrees.run_bounded(run, "tree", run.tier, forced=bool(run.undecided) or any(o.status == "undecided" for o in run.obligations))
    for o in obs[:6]:
        run.sample(f"{o.fn}::{o.clause}::{o.label}")
    from ..lean_check import status as _lean_status
    from contracts import memory_model as _mm
    run.extra["lean_lemmas"] = {"files": _lean_status(), "used": "Pow2.lean: dense_window_translation; Align.lean: int_aligned_coarser, int_mod_trans, pow2_test_dvd",
                                "ground_instances": {k: _mm.LEMMA_INSTANCES.count(k) for k in sorted(set(_mm.LEMMA_INSTANCES))}}
    for _f, _st in run.extra["lean_lemmas"]["files"].items():
        if _st != "accepted":
            run.assumptions.append(f"Lean lemma file {_f} is '{_st}': the SMT axioms it backs are TRUSTED in this run")
    return run.finish(
        explanation="_translate, ResourceInfo.__init__, decode_address, all_resources and find_resource are verified against "
                    "contracts over the abstract map view; recursive calls use the function's own contract on the child; the "
                    "coherence of the three lookups is the induction step proved as arithmetic lemmas over those contracts.  The "
                    "alignment facts the dense-window steps need come from the second layer of the representation invariant "
                    "(ranges are multiples of 2**alignment; a window's ratio divides 2**alignment of the window's map), whose "
                    "inductiveness obligations for __init__/add_resource/add_window are discharged in the same run.",
        checker_cmd="./check C03 --tier " + run.tier)
