"""C04 -- CSR multiplexer reads are atomic snapshots and side-effect exact (contract: csrtarget.read_clauses)."""
from ..common import Run, BASE_ASSUMPTIONS_L2
from ..hdl.harness import run_configs
from . import mux, csrtarget

PROP = "C04"
LEVEL = "other"


def check_config(ctx, cfg):
    m, regs, nl = mux.netlist(ctx, cfg)
    csrtarget.read_clauses(ctx, nl, m.bus, regs)


def main(run: Run):
    cfgs = mux.configs(run.tier, run.seed, 4)
    run.require(*csrtarget.READ_CLAUSES)
    run.assumptions += BASE_ASSUMPTIONS_L2
    run.functions["amaranth_soc.csr.bus.Multiplexer.elaborate (read path)"] = "per-layout (bounded), all access sequences/all time by induction with a ghost monitor and an observational invariant"
    run.functions["amaranth_soc.csr.bus.Multiplexer._Shadow.add/prepare/decode_address/encode_offset"] = "executed by elaborate() for every layout; hash lemmas by pyvc (see C04 L1 part)"
    from . import mux as _mux
    run_configs(run, __name__, cfgs, must_accept=_mux.must_accept)
    from . import shadow_l1
    shadow_l1.add_to(run)
    shadow_l1.add_population(run)
    from . import mux_l1
    mux_l1.add_to(run, "read")
    from . import ctor_l1
    ctor_l1.add_to(run, ['mux_check_map', 'mux_init'])
    return run.finish(
        explanation="Multiplexer.elaborate read-side contract per layout: strobe exactness and zero-when-idle for ALL input "
                    "sequences; atomic snapshot for protocol-conforming sequences via a ghost transaction monitor and an "
                    "observational invariant (experiments on the netlist's own transition function), inductive over cycles. "
                    "Registers are mock components, so register values change arbitrarily every cycle. Bounded in layouts.",
        rule="configuration = (data width, address width, map alignment, shadow_overlaps, registers: width/access/placement); "
             "non-trivial = >= 2 registers and >= 1 state bit")
