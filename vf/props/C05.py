"""C05 -- CSR multiplexer writes are atomic and reach exactly the addressed register (contract: csrtarget.write_clauses)."""
from ..common import Run, BASE_ASSUMPTIONS_L2
from ..hdl.harness import run_configs
from . import mux, csrtarget

PROP = "C05"
LEVEL = "other"


def check_config(ctx, cfg):
    m, regs, nl = mux.netlist(ctx, cfg)
    csrtarget.write_clauses(ctx, nl, m.bus, regs)


def main(run: Run):
    cfgs = mux.configs(run.tier, run.seed, 5)
    run.require(*csrtarget.WRITE_CLAUSES)
    run.assumptions += BASE_ASSUMPTIONS_L2
    run.functions["amaranth_soc.csr.bus.Multiplexer.elaborate (write path)"] = "per-layout (bounded), all access sequences/all time by induction with a ghost monitor and an observational invariant"
    run.functions["amaranth_soc.csr.bus.Multiplexer._Shadow.add/prepare/decode_address/encode_offset"] = "executed by elaborate() for every layout; hash lemmas by pyvc (see C05 L1 part)"
    from . import mux as _mux
    run_configs(run, __name__, cfgs, must_accept=_mux.must_accept)
    from . import shadow_l1
    shadow_l1.add_to(run)
    shadow_l1.add_population(run)
    from . import mux_l1
    mux_l1.add_to(run, "write")
    from . import ctor_l1
    ctor_l1.add_to(run, ['mux_check_map', 'mux_init'])
    return run.finish(
        explanation="Multiplexer.elaborate write-side contract per layout: write-strobe exactness (one cycle after a write to the last address, never otherwise) for ALL input "
                    "sequences; atomicity via a ghost monitor of the chunks written in the open transaction and an inductive invariant over "
                    "the elements' w_data slices; writes outside writable registers change nothing. "
                    "Registers are mock components, so register values change arbitrarily every cycle. Bounded in layouts.",
        rule="configuration = (data width, address width, map alignment, shadow_overlaps, registers: width/access/placement); "
             "non-trivial = >= 2 registers and >= 1 state bit")
