"""C06 -- CSR decoder routes each access to exactly one subordinate, transparently.

Contract on csr.Decoder.elaborate().  Window placement comes from the decoder's memory map (windows()).
Clauses (combinational, all input values):
  strobe_route   sub_i.r_stb = bus.r_stb & (addr in window_i);  same for w_stb        (=> exactly one / none)
  addr_forward   addr in window_i  =>  sub_i.addr = addr - start_i
  w_data_copy    sub_i.w_data = bus.w_data
  r_data_merge   bus.r_data = OR_i sub_i.r_data   (idle subordinates contribute zero; hence, when only the addressed
                 subordinate presents data, bus.r_data is exactly its data -- clause r_data_addressed)
Window extent = the subordinate's address span 2**sub.addr_width at the reported start (padding from decoder alignment
selects nobody).  The "tree of decoders == one multiplexer" half is checked on flattened trees in tree_equiv (see C01).
"""
import random
import z3
from ..common import Run, BASE_ASSUMPTIONS_L2
from ..hdl.harness import run_configs, Refused
from .arbiter import sigs_of

PROP = "C06"
LEVEL = "other"
CLAUSES = ["strobe_route", "addr_forward", "w_data_copy", "r_data_merge", "r_data_addressed"]


def configs(tier, seed):
    rng = random.Random(seed * 17 + 6)
    cfgs = []
    cfgs.append({"aw": 4, "dw": 8, "align": 0, "subs": []})
    cfgs.append({"aw": 8, "dw": 8, "align": 4, "subs": [{"aw": 2, "name": None, "addr": None}, {"aw": 2, "name": "b", "addr": None},
                                                        {"aw": 2, "name": None, "addr": None}]})
    cfgs.append({"aw": 6, "dw": 16, "align": 0, "subs": [{"aw": 3, "name": "hi", "addr": 0x20}, {"aw": 2, "name": "lo", "addr": 0x4},
                                                         {"aw": 1, "name": None, "addr": 0x3e}]})
    cfgs.append({"aw": 1, "dw": 8, "align": 0, "subs": [{"aw": 1, "name": None, "addr": None}]})
    cfgs.append({"aw": 6, "dw": 8, "align": 0, "refused_before": [0, 1, 2],
                 "subs": [{"aw": 3, "name": "a", "addr": None}, {"aw": 2, "name": None, "addr": None}]})
    # many windows: every number of subordinates from 5 to 17 (fan-in reductions of every shape)
    for nsub in list(range(5, 18)) + ([33] if tier == "thorough" else []):
        cfgs.append({"aw": 8, "dw": 8, "align": 0,
                     "subs": [{"aw": 1 + (i % 3 == 0), "name": None if i % 4 == 1 else f"m{i}", "addr": None} for i in range(nsub)]})
    # explicit addresses in descending order, the last one at address 0
    cfgs.append({"aw": 8, "dw": 8, "align": 0, "subs": [{"aw": 4, "name": "hi", "addr": 0x40}, {"aw": 3, "name": None, "addr": 0x20}, {"aw": 4, "name": "lo", "addr": 0x0}]})
    # an add() refused for a taken window name (k % 4 == 2) / the same subordinate added twice (k % 4 == 3), mid-history and at the end
    for n, where in ((2, [2]), (3, [3]), (4, [2, 3]), (7, [3, 6, 7])):
        cfgs.append({"aw": 7, "dw": 8, "align": 0, "refused_before": where, "subs": [{"aw": 1 + i % 2, "name": f"n{i}", "addr": None} for i in range(n)]})
    for c in cfgs:
        c["directed"] = True          # hand-written window sets are valid by construction: a refusal is a violation (must_accept)
    n = 60 if tier == "quick" else 1200
    for _ in range(n):
        aw = rng.randint(2, 8)
        subs = []
        for i in range(rng.randint(1, 4)):
            subs.append({"aw": rng.randint(1, max(1, aw - 1)), "name": rng.choice([None, f"w{i}"]), "addr": None,
                         "align_to": rng.choice([None, None, None, 1, 2, 5])})
        align = rng.choice([0, 0, 0, 1, 2, 3])
        # widen the decoder until the window set fits (generation only: most random sets are then explored instead of refused;
        # one in five keeps its random width, so tight and overflowing sets are still generated)
        if rng.random() < 0.8:
            cur = 0
            for sc in subs:
                al = max(align, sc["aw"], sc["align_to"] or 0)
                cur = -(-cur // (1 << al)) * (1 << al) + (1 << max(sc["aw"], align))
            aw = max(aw, (cur - 1).bit_length())
        cfgs.append({"aw": aw, "dw": rng.choice([8, 16, 32]), "align": align, "subs": subs})
        if rng.random() < 0.3:
            cfgs[-1]["refused_before"] = sorted(set(rng.sample(range(len(subs) + 1), rng.randint(1, 2))))
        if rng.random() < 0.25 and len(subs) >= 2:
            cfgs[-1]["elab_before"] = [len(subs) - 1]
    return cfgs


REFUSED = []      # buses whose add() was refused in the last build(): their signals stay free environment inputs of the netlist


def build(cfg, upto=None):
    """-> (decoder, subordinate buses[, adder]); with `upto` only the first `upto` subordinates are added and a function
    adding the i-th one later is returned as well (used by C19's add-after-elaboration clause)"""
    from amaranth_soc import csr
    from amaranth_soc.memory import MemoryMap
    subs = []
    del REFUSED[:]

    def add(dec, i):
        sc = cfg["subs"][i]
        sb = csr.Interface(addr_width=sc["aw"], data_width=cfg["dw"], path=(f"sub{i}",))
        sb.memory_map = MemoryMap(addr_width=sc["aw"], data_width=cfg["dw"])
        if sc.get("align_to") is not None:
            dec.align_to(sc["align_to"])
        from amaranth.lib.wiring import flipped as _fl
        dec.add(_fl(sb) if i % 3 == 2 else sb, name=sc["name"], addr=sc["addr"])        # a flipped interface is accepted as well
        subs.append(sb)
    def refused_add(dec, k):
        """an add() the decoder must refuse (window larger than the decoder's space / other data width): afterwards the
        decoder must behave exactly as if the call had never been made (a refused call leaves no trace)"""
        taken = [sc["name"] for sc in cfg["subs"][:len(subs)] if sc["name"]]
        if k % 4 == 2 and taken:
            # a perfectly valid subordinate under a window name that is already taken: refused for its NAME only
            sb = csr.Interface(addr_width=1, data_width=cfg["dw"], path=(f"refused{k}",))
            sb.memory_map = MemoryMap(addr_width=1, data_width=cfg["dw"])
            REFUSED.append(sb)
            try:
                dec.add(sb, name=taken[-1])
                raise AssertionError(f"a second window named {taken[-1]!r} was accepted")
            except (ValueError, TypeError):
                pass
            return
        if k % 4 == 3 and subs:
            # the SAME subordinate a second time: refused, and its first registration must survive
            try:
                dec.add(subs[-1], name=f"again{k}")
                raise AssertionError("a subordinate was accepted twice")
            except (ValueError, TypeError):
                pass
            return
        bad_aw, bad_dw = (cfg["aw"] + 1, cfg["dw"]) if k % 2 == 0 else (1, cfg["dw"] * 2)
        sb = csr.Interface(addr_width=bad_aw, data_width=bad_dw, path=(f"refused{k}",))
        sb.memory_map = MemoryMap(addr_width=bad_aw, data_width=bad_dw)
        REFUSED.append(sb)
        try:
            dec.add(sb, name=f"refused{k}")
        except (ValueError, TypeError):
            pass
    try:
        kw_ = {} if (cfg["align"] == 0 and len(cfg["subs"]) % 2 == 0) else {"alignment": cfg["align"]}         # alignment=0 is the documented default
        dec = csr.Decoder(addr_width=cfg["aw"], data_width=cfg["dw"], **kw_)
        for i in range(len(cfg["subs"]) if upto is None else upto):
            if i in cfg.get("refused_before", ()):
                refused_add(dec, i)
            if i in cfg.get("elab_before", ()):
                from amaranth.hdl import Fragment
                Fragment.get(dec, None)          # elaborated once with the windows added so far; more are added afterwards
            add(dec, i)
        if len(cfg["subs"]) in cfg.get("refused_before", ()) and upto is None:
            refused_add(dec, len(cfg["subs"]))
    except (ValueError, TypeError) as e:
        raise Refused(str(e))
    if upto is not None:
        return dec, subs, lambda i: add(dec, i)
    return dec, subs


def must_accept(cfg):
    """Does the window set fit?  Address arithmetic after the documented allocation rule (C02): a window of a map with w address
    bits takes 2**max(w, alignment) addresses at the next multiple of that size (after an optional align_to), or sits at its
    explicit address."""
    try:
        top = 1 << cfg["aw"]
        cur, taken = 0, []
        for sc in cfg["subs"]:
            w = sc["aw"]
            if sc.get("align_to") is not None:
                a = max(sc["align_to"], cfg["align"])
                cur = -(-cur // (1 << a)) * (1 << a)
            size = 1 << max(cfg["align"], w)
            if sc["addr"] is not None:
                start = sc["addr"]
                if start % (1 << cfg["align"]):
                    return False
            else:
                start = -(-cur // size) * size
            end = start + size
            if end > top or any(s < end and start < e for s, e in taken):
                return False
            taken.append((start, end)); cur = end
        return True
    except Exception:
        return False


def check_config(ctx, cfg):
    dec, subs = build(cfg)
    probes = []
    for sb in subs + REFUSED:          # a refused bus is somebody else's: whatever it carries must not matter to this decoder
        probes += sigs_of(sb)
    tie = [dec.bus.r_data]
    for sb in subs:
        tie += [sb.addr, sb.r_stb, sb.w_stb, sb.w_data]
    nl = ctx.netlist(dec, probes=probes, tie=tie)
    ctx.nontrivial = len(subs) >= 2
    bus = dec.bus
    f0 = nl.frame("0")
    one, zero = z3.BitVecVal(1, 1), z3.BitVecVal(0, 1)
    W = cfg["aw"] + 1
    addr = z3.ZeroExt(1, f0.inp(bus.addr))
    ranges = {id(win): (start, stop) for win, name, (start, stop, ratio) in bus.memory_map.windows()}
    matches = []
    for k_, sb in enumerate(subs):
        start, stop = ranges[id(sb.memory_map)]
        stop = min(stop, start + (1 << sb.memory_map.addr_width))
        # a window DECLARED at an explicit address sits there (also at address 0), and every window spans its subordinate's full width
        want_addr = cfg["subs"][k_].get("addr")
        ctx.prove("strobe_route", z3.BoolVal((want_addr is None or start == want_addr) and stop - start == 1 << sb.memory_map.addr_width
                                             and start % (1 << sb.memory_map.addr_width) == 0))
        m = z3.And(z3.UGE(addr, z3.BitVecVal(start, W)), z3.ULT(addr, z3.BitVecVal(stop, W)))
        matches.append(m)
        ctx.prove("strobe_route", z3.And(f0.val(sb.r_stb) == z3.If(z3.And(m, f0.inp(bus.r_stb) == 1), one, zero),
                                         f0.val(sb.w_stb) == z3.If(z3.And(m, f0.inp(bus.w_stb) == 1), one, zero)), frames=[f0])
        ctx.prove("addr_forward", z3.Implies(m, z3.ZeroExt(W - len(sb.addr), f0.val(sb.addr)) == addr - z3.BitVecVal(start, W)),
                  frames=[f0])
        ctx.prove("w_data_copy", f0.val(sb.w_data) == f0.inp(bus.w_data), frames=[f0])
    spec = z3.BitVecVal(0, cfg["dw"])
    for sb in subs:
        spec = spec | f0.inp(sb.r_data)
    ctx.prove("r_data_merge", f0.val(bus.r_data) == spec, frames=[f0])
    for i, sb in enumerate(subs):
        others_idle = [f0.inp(o.r_data) == 0 for j, o in enumerate(subs) if j != i]
        ctx.prove("r_data_addressed", f0.val(bus.r_data) == f0.inp(sb.r_data), others_idle, frames=[f0])
    if not subs:
        ctx.prove("r_data_addressed", f0.val(bus.r_data) == 0, frames=[f0])
        ctx.prove("strobe_route", z3.BoolVal(True)); ctx.prove("addr_forward", z3.BoolVal(True)); ctx.prove("w_data_copy", z3.BoolVal(True))
    elif (1 << subs[0].memory_map.addr_width) < (1 << cfg["aw"]):
        ctx.canary("strobe_broadcast", f0.val(subs[0].r_stb) == f0.inp(bus.r_stb))


def main(run: Run):
    cfgs = configs(run.tier, run.seed)
    run.require(*CLAUSES)
    run.assumptions += BASE_ASSUMPTIONS_L2
    run.functions["amaranth_soc.csr.bus.Decoder.elaborate"] = "per-configuration (bounded: window sets), all inputs"
    run.functions["amaranth_soc.csr.bus.Decoder.add"] = "exercised; window ranges from bus.memory_map.windows()"
    run_configs(run, __name__, cfgs, must_accept=must_accept)
    from . import tree_equiv
    tree_equiv.add_to(run, "C06")
    from . import patterns_l1
    patterns_l1.add_to(run)
    from . import busadd_l1
    busadd_l1.add_to(run, ['csr_decoder_add'])
    from . import decoder_l1
    decoder_l1.add_to(run, "csr")
    from . import validation
    validation.add_to(run, ['csr_decoder_add'])
    from . import ctor_l1 as _ctor_l1
    _ctor_l1.add_to(run, ['csr_decoder_init', 'csr_decoder_align_to'])
    return run.finish(
        explanation="csr.Decoder.elaborate contract: strobe routing by the memory map's window placement, low address bits "
                    "forwarded as offset, write data copied, read data OR-merged; combinational over all inputs. "
                    "Decoder trees over multiplexers are checked against all_resources() on flattened hierarchies "
                    "(tree_equiv). Bounded in window sets / tree shapes.",
        rule="configuration = (decoder geometry/alignment, subordinates with width/name/placement); non-trivial = >= 2 subordinates")
