"""C06, second half: registers spread over a TREE of decoders behave exactly like the same registers on one multiplexer at the
addresses the memory map reports -- the generic CSR-target contract at the root of generated decoder trees."""
from .C01 import check_csr


def check_config(ctx, cfg):
    check_csr(ctx, cfg)
