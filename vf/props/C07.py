"""C07 -- Wishbone decoder selects one subordinate and relays only its responses.

Contract on wishbone.Decoder.elaborate().  The window ranges come from the decoder's own memory map
(`bus.memory_map.windows()`): the map is what software is told, the netlist is what hardware does.
Clauses (combinational, all input values):
  cyc_select       sub_i.cyc = bus.cyc & (adr*k in [start_i, stop_i))            k = data_width/granularity
  request_copy     sub_i.dat_w/we/stb = bus's;  lock/cti/bte = bus's, or 0/CLASSIC/LINEAR when the decoder lacks them
  sel_fanout       dense: sub_i.sel = bus.sel (equal granularity)
  adr_offset       dense & selected: sub_i.adr = adr - start_i/k
  response_relay   assuming unselected subordinates keep ack/err/rty/stall low:
                   bus.ack/err/rty/stall = those of the selected subordinate, 0 if nobody is selected;
                   bus.dat_r = selected subordinate's dat_r, 0 if nobody is selected
Known finding (stated in the property): dense window onto a finer-granularity subordinate.
"""
import itertools, random
import z3
from ..common import Run, BASE_ASSUMPTIONS_L2
from ..hdl.harness import run_configs, Refused
from .arbiter import ALLF, sigs_of

PROP = "C07"
LEVEL = "other"
CLAUSES = ["cyc_select", "request_copy", "sel_fanout", "adr_offset", "response_relay", "bus_as_configured"]
PAIRS = [(8, 8), (16, 8), (16, 16), (32, 8), (32, 16), (32, 32), (64, 8), (64, 16), (64, 32), (64, 64)]
KNOWN_KEY = "dense-window-onto-finer-granularity-subordinate"


def configs(tier, seed):
    rng = random.Random(seed * 13 + 7)
    cfgs = []
    subsets = [list(c) for r in range(7) for c in itertools.combinations(ALLF, r)]

    def sub_feats(dfeat):
        f = [x for x in ALLF if rng.random() < 0.5]
        return [x for x in f if x in dfeat or x in ("lock", "cti", "bte")]

    # all 64 decoder feature subsets x representative subordinate subsets
    for df in subsets:
        reps = 1 if tier == "quick" else 3
        for _ in range(reps):
            subs = [{"aw": rng.randint(0, 2), "feat": sub_feats(df), "sparse": False, "name": rng.choice([None, "s"]), "addr": None}
                    for i in range(rng.randint(1, 3))]
            for i, s in enumerate(subs):
                if s["name"]:
                    s["name"] = f"s{i}"
            cfgs.append({"aw": 4, "dw": 32, "g": 8, "feat": df, "align": 0, "subs": subs})
    # subordinates with exactly one optional request signal each (bte-without-cti, etc.)
    for one in ("lock", "cti", "bte"):
        cfgs.append({"aw": 3, "dw": 16, "g": 8, "feat": ALLF, "align": 0,
                     "subs": [{"aw": 1, "feat": [one], "sparse": False, "name": None, "addr": None},
                              {"aw": 1, "feat": [x for x in ("lock", "cti", "bte") if x != one], "sparse": False, "name": "b", "addr": None}]})
        cfgs.append({"aw": 3, "dw": 16, "g": 8, "feat": [], "align": 0,
                     "subs": [{"aw": 1, "feat": [one], "sparse": False, "name": None, "addr": None}]})
    # geometry: all width/granularity pairs, windows of several sizes/orders/placements, decoder alignment
    for dw, g in PAIRS:
        for align in (0, 1, 3):
            nsub = rng.randint(1, 4)
            subs = []
            for i in range(nsub):
                subs.append({"aw": rng.randint(0, 3), "feat": sub_feats(ALLF), "sparse": False,
                             "name": rng.choice([None, f"w{i}"]), "addr": None, "align_to": rng.choice([None, None, 2, 4])})
            cfgs.append({"aw": 6, "dw": dw, "g": g, "feat": ALLF, "align": align, "subs": subs})
    # explicit aligned addresses, reverse order
    cfgs.append({"aw": 6, "dw": 32, "g": 8, "feat": ["err"], "align": 0,
                 "subs": [{"aw": 2, "feat": ["err"], "sparse": False, "name": "hi", "addr": 0x80},
                          {"aw": 3, "feat": [], "sparse": False, "name": "lo", "addr": 0x20},
                          {"aw": 0, "feat": [], "sparse": False, "name": None, "addr": 0xfc}]})
    # the smallest decoders: no address bits at all (one word), one and two subordinates of the minimum size
    cfgs.append({"aw": 0, "dw": 8, "g": 8, "feat": [], "align": 0, "subs": [{"aw": 0, "feat": [], "sparse": False, "name": "only", "addr": None}]})
    cfgs.append({"aw": 0, "dw": 32, "g": 8, "feat": ["err"], "align": 0, "subs": [{"aw": 0, "feat": ["err"], "sparse": False, "name": None, "addr": None}]})
    cfgs.append({"aw": 1, "dw": 16, "g": 16, "feat": [], "align": 0, "subs": [{"aw": 0, "feat": [], "sparse": False, "name": "a", "addr": None},
                                                                                 {"aw": 0, "feat": [], "sparse": False, "name": "b", "addr": None}]})
    # explicit addresses in descending order, the last one at address 0
    cfgs.append({"aw": 6, "dw": 8, "g": 8, "feat": [], "align": 0,
                 "subs": [{"aw": 3, "feat": [], "sparse": False, "name": "hi", "addr": 0x20}, {"aw": 2, "feat": [], "sparse": False, "name": None, "addr": 0x10},
                          {"aw": 3, "feat": [], "sparse": False, "name": "lo", "addr": 0x0}]})
    # no subordinate at all
    cfgs.append({"aw": 3, "dw": 8, "g": 8, "feat": ALLF, "align": 0, "subs": []})
    # very wide address buses: small windows at high addresses with low bits set (window starts with more than 53 significant bits)
    cfgs.append({"aw": 56, "dw": 8, "g": 8, "feat": [], "align": 0,
                 "subs": [{"aw": 55, "feat": [], "sparse": False, "name": "lo", "addr": None}] +
                         [{"aw": 1, "feat": [], "sparse": False, "name": f"r{i}", "addr": None} for i in range(4)]})
    cfgs.append({"aw": 62, "dw": 32, "g": 8, "feat": ["err"], "align": 0,
                 "subs": [{"aw": 59, "feat": [], "sparse": False, "name": "lo", "addr": None},
                          {"aw": 2, "feat": ["err"], "sparse": False, "name": None, "addr": (5 << 61) + (1 << 56) + 48},
                          {"aw": 0, "feat": [], "sparse": False, "name": "one", "addr": (7 << 61) + 4}]})
    # many windows: every number of subordinates from 5 to 17 (fan-in reductions of every shape)
    for nsub in list(range(5, 18)) + ([33] if tier == "thorough" else []):
        cfgs.append({"aw": 8, "dw": 32, "g": 8, "feat": ["err", "stall"], "align": 0,
                     "subs": [{"aw": i % 2, "feat": (["err"] if i % 3 == 0 else []) + (["stall"] if i % 5 == 0 else []), "sparse": False,
                               "name": None if i % 4 == 1 else f"m{i}", "addr": None} for i in range(nsub)]})
    # sparse windows (selection only): subordinate data width == its granularity, narrower than the decoder
    for dw, g, sdw in [(32, 8, 8), (16, 8, 8), (64, 16, 16), (32, 16, 8), (32, 32, 8), (16, 16, 16)]:
        cfgs.append({"aw": 5, "dw": dw, "g": g, "feat": ["stall"], "align": 0,
                     "subs": [{"aw": 2, "feat": [], "sparse": True, "sdw": sdw, "name": "sp", "addr": None},
                              {"aw": 1, "feat": ["stall"], "sparse": False, "name": None, "addr": None}]})
    # the known finding named by the property: dense window onto a finer-granularity subordinate
    cfgs.append({"aw": 4, "dw": 32, "g": 16, "feat": [], "align": 0, "probe": KNOWN_KEY,
                 "subs": [{"aw": 2, "feat": [], "sparse": False, "name": "fine", "addr": None, "sg": 8, "salign": 1}]})
    if tier == "thorough":
        for _ in range(400):
            dw, g = rng.choice(PAIRS)
            df = rng.choice(subsets)
            subs = [{"aw": rng.randint(0, 3), "feat": sub_feats(df), "sparse": False, "name": rng.choice([None, f"w{i}"]),
                     "addr": None, "align_to": rng.choice([None, None, 1, 3])} for i in range(rng.randint(0, 5))]
            cfgs.append({"aw": rng.randint(4, 7), "dw": dw, "g": g, "feat": df, "align": rng.choice([0, 0, 1, 2]), "subs": subs})
    # the same decoders reached by other legal routes: features spelled as Feature members; refused add() calls in between
    for k, c in enumerate(cfgs):
        if k % 3 == 1:
            c["enum_features"] = True
        if k % 7 == 5 and c["feat"]:
            c["iter_features"] = True
        if k % 4 == 2:
            c["refused_before"] = sorted({0, len(c["subs"])} if k % 8 == 2 else {len(c["subs"]) // 2})
        if k % 5 == 3 and len(c["subs"]) >= 2:
            c["elab_before"] = [len(c["subs"]) - 1]
    # subordinates whose OWN memory map has an alignment (ratio-1 windows): the window is still a block of 2**width addresses at a
    # multiple of its size, whatever alignment the subordinate uses inside
    for sal in (1, 2, 3):
        cfgs.append({"aw": 6, "dw": 8, "g": 8, "feat": [], "align": 0,
                     "subs": [{"aw": 2, "feat": [], "sparse": False, "name": "a", "addr": None},
                              {"aw": 4, "feat": [], "sparse": False, "name": "b", "addr": None, "salign": sal},
                              {"aw": 3, "feat": [], "sparse": False, "name": None, "addr": None, "salign": sal - 1}]})
        cfgs.append({"aw": 5, "dw": 32, "g": 8, "feat": ["err"], "align": 0,
                     "subs": [{"aw": 0, "feat": [], "sparse": False, "name": "a", "addr": None},
                              {"aw": 2, "feat": ["err"], "sparse": False, "name": "b", "addr": None, "salign": sal}]})
    # directed: an add() refused for a taken window NAME (k % 4 == 2) and the same subordinate added twice (k % 4 == 3), in the
    # middle and at the end of the history
    sub = lambda i, feat=(): {"aw": i % 2, "feat": list(feat), "sparse": False, "name": f"n{i}", "addr": None}
    for n, where in ((2, [2]), (3, [3]), (4, [2, 3]), (7, [3, 6, 7])):
        cfgs.append({"aw": 6, "dw": 32, "g": 8, "feat": ["err", "stall"], "align": 0, "subs": [sub(i, ["err"] if i % 2 else []) for i in range(n)],
                     "refused_before": where})
    return cfgs


def log2(x):
    return x.bit_length() - 1


REFUSED = []      # buses whose add() was refused in the last build(): their signals stay free environment inputs of the netlist


def build(cfg, upto=None):
    from amaranth_soc import wishbone
    from amaranth_soc.memory import MemoryMap
    subs = []
    del REFUSED[:]

    def spell(feats):
        # the documented alternative spelling with Feature members instead of strings: the same component must result
        if cfg.get("iter_features"):
            return iter([wishbone.Feature(f) if i % 2 else f for i, f in enumerate(feats)])      # any iterable, also a one-shot iterator
        return {wishbone.Feature(f) for f in feats} if cfg.get("enum_features") else feats

    def add(dec, i):
        sc = cfg["subs"][i]
        sdw = sc.get("sdw", cfg["dw"])
        sg = sc.get("sg", sdw if sc["sparse"] else cfg["g"])
        sb = wishbone.Interface(addr_width=sc["aw"], data_width=sdw, granularity=sg, features=spell(sc["feat"]), path=(f"sub{i}",))
        sb.memory_map = MemoryMap(addr_width=max(1, sc["aw"] + log2(sdw // sg)), data_width=sg, alignment=sc.get("salign", 0))
        if sc.get("align_to") is not None:
            dec.align_to(sc["align_to"])
        from amaranth.lib.wiring import flipped as _fl
        kw = {} if (sc["sparse"] is False and i % 2 == 1) else {"sparse": sc["sparse"]}       # sparse=False is the default: given or left out
        dec.add(_fl(sb) if i % 3 == 2 else sb, name=sc["name"], addr=sc["addr"], **kw)       # a flipped interface is accepted as well
        subs.append(sb)
    def refused_add(dec, k):
        """an add() the decoder must refuse; afterwards it must behave as if the call had never been made"""
        taken = [sc["name"] for sc in cfg["subs"][:len(subs)] if sc["name"]]
        if k % 4 == 2 and taken:
            # a perfectly valid subordinate under a window name that is already taken: refused for its NAME, after every other check passed
            sb = wishbone.Interface(addr_width=0, data_width=cfg["dw"], granularity=cfg["g"], features=[f for f in cfg["feat"] if f in ("err", "rty", "stall")],
                                    path=(f"refused{k}",))
            sb.memory_map = MemoryMap(addr_width=max(1, log2(cfg["dw"] // cfg["g"])), data_width=cfg["g"])
            REFUSED.append(sb)
            try:
                dec.add(sb, name=taken[-1])
                raise AssertionError(f"a second window named {taken[-1]!r} was accepted")
            except (ValueError, TypeError):
                pass
            return
        if k % 4 == 3 and subs:
            # the SAME subordinate a second time (at another address): refused, and the first registration must survive
            try:
                dec.add(subs[-1], name=f"again{k}")
                raise AssertionError("a subordinate was accepted twice")
            except (ValueError, TypeError):
                pass
            return
        if k % 2 == 0:          # window larger than the decoder's address space
            aw_, dw_, g_ = cfg["aw"] + 1, cfg["dw"], cfg["g"]
        else:                    # coarser granularity than the decoder
            aw_, dw_, g_ = 1, max(cfg["dw"], cfg["g"] * 2), cfg["g"] * 2
            if g_ > 64:
                aw_, dw_, g_ = cfg["aw"] + 2, cfg["dw"], cfg["g"]
        sb = wishbone.Interface(addr_width=aw_, data_width=dw_, granularity=g_, features=cfg["feat"], path=(f"refused{k}",))
        sb.memory_map = MemoryMap(addr_width=max(1, aw_ + log2(dw_ // g_)), data_width=g_)
        REFUSED.append(sb)
        try:
            dec.add(sb, name=f"refused{k}")
        except (ValueError, TypeError):
            pass
    try:
        kw_ = {"granularity": cfg["g"], "features": spell(cfg["feat"]), "alignment": cfg["align"]}
        odd = len(cfg["subs"]) % 2 == 1
        if odd and cfg["align"] == 0:
            del kw_["alignment"]                      # documented defaults: alignment 0, no features, granularity = data width
        if odd and not cfg["feat"]:
            del kw_["features"]
        if odd and cfg["g"] == cfg["dw"]:
            del kw_["granularity"]
        dec = wishbone.Decoder(addr_width=cfg["aw"], data_width=cfg["dw"], **kw_)
        for i in range(len(cfg["subs"]) if upto is None else upto):
            if i in cfg.get("refused_before", ()):
                refused_add(dec, i)
            if i in cfg.get("elab_before", ()):
                from amaranth.hdl import Fragment
                Fragment.get(dec, None)          # elaborated once with the windows added so far; more are added afterwards
            add(dec, i)
        if len(cfg["subs"]) in cfg.get("refused_before", ()) and upto is None:
            refused_add(dec, len(cfg["subs"]))
    except (ValueError, TypeError) as e:
        raise Refused(str(e))
    if upto is not None:
        return dec, subs, lambda i: add(dec, i)
    return dec, subs


def must_accept(cfg):
    """Does the window set fit?  Plain address arithmetic after the documented allocation rule (C02): a window of a map with
    w address bits takes 2**max(w, alignment) addresses at the next multiple of that size (after an optional align_to), or
    sits at its explicit address.  Only claimed for the simple cases (ratio-1 windows, no explicit addresses colliding):
    anything else returns False = no claim."""
    try:
        top = 1 << max(1, cfg["aw"] + log2(cfg["dw"] // cfg["g"]))
        cur, taken = 0, []
        for sc in cfg["subs"]:
            sdw = sc.get("sdw", cfg["dw"])
            sg = sc.get("sg", sdw if sc["sparse"] else cfg["g"])
            if sg != cfg["g"] and not sc["sparse"]:
                return False                      # dense window with a ratio: not claimed here
            w = max(1, sc["aw"] + log2(sdw // sg))
            if sc.get("align_to") is not None:
                a = max(sc["align_to"], cfg["align"])
                cur = -(-cur // (1 << a)) * (1 << a)
            al = max(cfg["align"], w)
            size = 1 << al
            if sc["addr"] is not None:
                start = sc["addr"]
                if start % (1 << cfg["align"]):
                    return False
            else:
                start = -(-cur // size) * size
            end = start + size
            if end > top or any(s < end and start < e for s, e in taken):
                return False
            taken.append((start, end)); cur = end
        return True
    except Exception:
        return False


def check_config(ctx, cfg):
    dec, subs = build(cfg)
    probes = []
    for sb in subs + REFUSED:          # a refused bus is somebody else's: whatever it carries must not matter to this decoder
        probes += sigs_of(sb)
    # responses the decoder does not drive at all (e.g. no subordinate) keep their reset value 0: not free inputs
    tie = [getattr(dec.bus, r) for r in ("ack", "dat_r", "err", "rty", "stall") if hasattr(dec.bus, r)]
    for sb in subs:
        tie += [getattr(sb, r) for r in ("cyc", "stb", "we", "adr", "dat_w", "sel", "lock", "cti", "bte") if hasattr(sb, r)]
    nl = ctx.netlist(dec, probes=probes, tie=tie)
    ctx.nontrivial = len(subs) >= 2
    bus = dec.bus
    # the decoder's bus is the one that was CONFIGURED, however the feature set was spelled (the clauses below look at the signals the bus
    # has: a bus that silently lost its optional signals would satisfy them vacuously)
    from amaranth_soc import wishbone as _wb
    want_sig = _wb.Signature(addr_width=cfg["aw"], data_width=cfg["dw"], granularity=cfg["g"], features=set(cfg["feat"]))
    ctx.prove("bus_as_configured", z3.BoolVal(bus.signature == want_sig and all(hasattr(bus, f) for f in cfg["feat"])))
    S = lambda x: x.as_value() if hasattr(x, "as_value") else x
    f0 = nl.frame("0")
    I = lambda s: f0.inp(S(s))
    V = lambda s: f0.val(S(s))
    one, zero = z3.BitVecVal(1, 1), z3.BitVecVal(0, 1)
    known = cfg.get("probe")
    kk = (lambda clause: f"{known}") if known else (lambda clause: None)
    k = cfg["dw"] // cfg["g"]
    mapw = max(1, cfg["aw"] + log2(k))
    W = mapw + 2
    adr = I(bus.adr) if len(bus.adr) else None
    a_map = (z3.ZeroExt(W - adr.size(), adr) * z3.BitVecVal(k, W)) if adr is not None else z3.BitVecVal(0, W)
    ranges = {}
    for win, name, (start, stop, ratio) in bus.memory_map.windows():
        ranges[id(win)] = (start, stop, ratio)
    match, selected_resp = [], {"ack": [], "err": [], "rty": [], "stall": []}
    assume_quiet = []
    datr_spec = z3.BitVecVal(0, cfg["dw"])
    for i, (sb, sc) in enumerate(zip(subs, cfg["subs"])):
        start, stop, ratio = ranges[id(sb.memory_map)]
        # Window extent = the subordinate's own address span placed at the reported start.  When the decoder's
        # alignment exceeds the window's address width, add_window() pads the *allocation* [start, stop); the padding
        # belongs to no subordinate (decode_address() maps it to nothing), so it must select nobody.
        stop = min(stop, start + (1 << sb.memory_map.addr_width) // ratio)
        # a window DECLARED at an explicit address sits there (also at address 0)
        if sc.get("addr") is not None:
            ctx.prove("cyc_select", z3.BoolVal(start == sc["addr"]), known_key=kk("cyc_select"))
        m = z3.And(z3.UGE(a_map, z3.BitVecVal(start, W)), z3.ULT(a_map, z3.BitVecVal(stop, W)))
        match.append(m)
        ctx.prove("cyc_select", V(sb.cyc) == z3.If(z3.And(I(bus.cyc) == 1, m), one, zero), frames=[f0], known_key=kk("cyc_select"))
        req = [V(sb.we) == I(bus.we), V(sb.stb) == I(bus.stb)]
        if not sc["sparse"]:
            req.append(V(sb.dat_w) == I(bus.dat_w))
        for opt in ("lock", "cti", "bte"):
            if hasattr(sb, opt):
                sv = V(getattr(sb, opt))
                req.append(sv == (I(getattr(bus, opt)) if hasattr(bus, opt) else z3.BitVecVal(0, sv.size())))
        ctx.prove("request_copy", z3.And(*req), frames=[f0], known_key=kk("request_copy"))
        if not sc["sparse"]:
            sg = sc.get("sg", cfg["g"])
            r = cfg["g"] // sg
            bsel = I(bus.sel)
            nb = len(sb.sel)
            bits = [z3.Extract(b // r, b // r, bsel) for b in range(nb)]
            selx = bits[0] if nb == 1 else z3.Concat(*reversed(bits))
            ctx.prove("sel_fanout", V(sb.sel) == selx, frames=[f0], known_key=kk("sel_fanout"))
            if len(sb.adr):
                # offset within the window, in data-width words: (adr*k - start)/k
                off = (a_map - z3.BitVecVal(start, W))
                offw = z3.UDiv(off, z3.BitVecVal(k, W))
                ctx.prove("adr_offset", z3.Implies(m, z3.ZeroExt(W - len(sb.adr), V(sb.adr)) == offw), frames=[f0],
                          known_key=kk("adr_offset"))
        quiet = []
        for r_ in ("ack", "err", "rty", "stall"):
            if hasattr(sb, r_):
                quiet.append(I(getattr(sb, r_)) == 0)
                selected_resp[r_].append(z3.If(z3.And(m, I(bus.cyc) == 1), I(getattr(sb, r_)), zero))
        assume_quiet.append(z3.Implies(V(sb.cyc) == 0, z3.And(*quiet)))
        sdr = I(sb.dat_r)
        if sdr.size() < cfg["dw"]:
            sdr = z3.ZeroExt(cfg["dw"] - sdr.size(), sdr)
        datr_spec = z3.If(m, sdr, datr_spec)

    def orall(xs):
        r = zero
        for x in xs:
            r = r | x
        return r
    resp = [V(bus.ack) == orall(selected_resp["ack"]), V(bus.dat_r) == datr_spec]
    for r_ in ("err", "rty", "stall"):
        if hasattr(bus, r_):
            resp.append(V(getattr(bus, r_)) == orall(selected_resp[r_]))
    ctx.prove("response_relay", z3.And(*resp), assume_quiet, frames=[f0], known_key=kk("response_relay"))
    if subs and adr is not None:
        st0, sp0, _ = ranges[id(subs[0].memory_map)]
        if sp0 - st0 < (1 << mapw):
            ctx.canary("cyc_broadcast", V(subs[0].cyc) == I(bus.cyc))
    if subs:
        ctx.sat("quiet_assumption_satisfiable", z3.And(*assume_quiet, I(bus.cyc) == 1, match[0]))


def main(run: Run):
    cfgs = configs(run.tier, run.seed)
    run.require(*CLAUSES)
    run.assumptions += BASE_ASSUMPTIONS_L2
    run.assumptions.append("response_relay assumes unselected subordinates keep ack/err/rty/stall low (stated in the property)")
    run.functions["amaranth_soc.wishbone.bus.Decoder.elaborate"] = "per-configuration (bounded: geometry, feature subsets, window sets), all inputs"
    run.functions["amaranth_soc.wishbone.bus.Decoder.add"] = "exercised (refusals counted); window ranges taken from bus.memory_map.windows()"
    run_configs(run, __name__, cfgs, must_accept=must_accept)
    from . import patterns_l1
    patterns_l1.add_to(run)
    from . import busadd_l1
    busadd_l1.add_to(run, ['wb_decoder_add'])
    from . import decoder_l1
    decoder_l1.add_to(run, "wb")
    from . import validation
    validation.add_to(run, ['wb_decoder_add', 'memory_map_setters'])
    from . import ctor_l1 as _ctor_l1
    _ctor_l1.add_to(run, ['wb_decoder_init', 'wb_decoder_align_to'])
    return run.finish(
        explanation="wishbone.Decoder.elaborate contract: per-subordinate selection by the memory map's window range, request "
                    "copy with feature defaults, select fan-out, dense address offset, response relay under the Wishbone "
                    "'respond only while selected' assumption. Combinational clauses over all request/response values. "
                    "Bounded in geometry/feature subsets/window sets; all 64 decoder feature subsets are enumerated.",
        rule="configuration = (decoder geometry+features+alignment, list of subordinates with geometry/features/placement); non-trivial = >= 2 subordinates")
