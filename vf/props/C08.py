"""C08 -- Wishbone arbiter: one owner at a time, isolated, never pre-empted mid-cycle (see arbiter.py)."""
from ..common import Run, BASE_ASSUMPTIONS_L2
from ..hdl.harness import run_configs
from . import arbiter

PROP = "C08"
LEVEL = "other"


def check_config(ctx, cfg):
    arbiter.check_config(ctx, cfg, "C08")


def main(run: Run):
    cfgs = arbiter.configs(run.tier, run.seed, salt=8)
    run.require(*arbiter.C08_CLAUSES)
    run.assumptions += BASE_ASSUMPTIONS_L2
    run.functions["amaranth_soc.wishbone.bus.Arbiter.elaborate"] = "per-configuration (bounded: N, features, granularities), all inputs/states/time"
    run.functions["amaranth_soc.wishbone.bus.Arbiter.add"] = "exercised (constructor refusals counted)"
    run_configs(run, __name__, cfgs, must_accept=True)
    from . import busadd_l1
    busadd_l1.add_to(run, ['arbiter_add'])
    from . import validation
    validation.add_to(run, ['arbiter_add'])
    return run.finish(
        explanation="Arbiter.elaborate contract with an observational owner predicate and the inductive invariant "
                    "'exactly one owner': request fan-out (select replication, defaults), response routing, isolation of "
                    "non-owners, no pre-emption while busy. All initiator/target signal values, all states satisfying the "
                    "invariant, all cycles by induction. Bounded in N/features/granularity.",
        rule="configuration = (N, arbiter features, per-initiator features and granularity, widths); non-trivial = N >= 2")
