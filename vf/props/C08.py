"""C08 -- Wishbone arbiter: one owner at a time, isolated, never pre-empted mid-cycle (see arbiter.py)."""
from ..common import Run, BASE_ASSUMPTIONS_L2
from ..hdl.harness import run_configs
from . import arbiter

PROP = "C08"
LEVEL = "other"


def check_config(ctx, cfg):
    arbiter.check_config(ctx, cfg, "C08")


def main(run: Run):
    cfgs = arbiter.configs(run.tier, run.seed, salt=8)
    run.require(*arbiter.C08_CLAUSES)
    run.assumptions += BASE_ASSUMPTIONS_L2
    run.functions["amaranth_soc.wishbone.bus.Arbiter.elaborate"] = "per-configuration (bounded: N, features, granularities), all inputs/states/time"
    run.functions["amaranth_soc.wishbone.bus.Arbiter.add"] = "exercised (constructor refusals counted)"
    run_configs(run, __name__, cfgs, must_accept=True)
    from . import busadd_l1
    busadd_l1.add_to(run, ['arbiter_add'])
    # L1, for ALL N: the fan-out statements and the busy condition issued by the real Arbiter.elaborate() (recording hardware stubs)
    from ..pyvc.driver import discharge_all
    from ..pyvc.engine import Unsupported
    from ..common import BASE_ASSUMPTIONS_L1
    try:
        from contracts import arbiter_l1
        obs = []
        for f in (arbiter_l1.verify_arbiter_fanout, arbiter_l1.verify_arbiter_grant):
            fv = f()
            run.functions[f"amaranth_soc.{fv.qualname} [statements issued, all N]"] = f"proved ({fv.paths} paths, {len(fv.obs)} obligations)"
            obs += fv.obs
        run.require("wishbone.bus.Arbiter.elaborate[fan-out]::owner-address", "wishbone.bus.Arbiter.elaborate[fan-out]::owner-sees-ack",
                    "wishbone.bus.Arbiter.elaborate[fan-out]::every-optional-signal-examined", "wishbone.bus.Arbiter.elaborate[grant]::busy-condition")
        run.assumptions += BASE_ASSUMPTIONS_L1 + [
            "Arbiter.elaborate contracts: Amaranth objects are recording stubs (which statements are issued for one arbitrary initiator of an "
            "arbiter with any number of them, under which Switch/Case/If, for every combination of optional signals); their hardware meaning "
            "is Amaranth's semantics (assumed; the per-configuration clauses check it for the generated N)"]
        discharge_all(run, obs, timeout_ms=20000)
    except Unsupported as e:
        run.functions["amaranth_soc.wishbone.bus.Arbiter.elaborate [statements issued, all N]"] = f"unsupported: {e} (the per-N clauses decide)"
        run.bounded_notes.append(f"Arbiter.elaborate statements: outside the pyvc subset on this tree ({e}); per-N clauses decide")
    from . import validation
    validation.add_to(run, ['arbiter_add'])
    from . import ctor_l1 as _ctor_l1
    _ctor_l1.add_to(run, ['wb_arbiter_init'])
    return run.finish(
        explanation="Arbiter.elaborate contract with an observational owner predicate and the inductive invariant "
                    "'exactly one owner': request fan-out (select replication, defaults), response routing, isolation of "
                    "non-owners, no pre-emption while busy. All initiator/target signal values, all states satisfying the "
                    "invariant, all cycles by induction. Bounded in N/features/granularity.",
        rule="configuration = (N, arbiter features, per-initiator features and granularity, widths); non-trivial = N >= 2")
