"""C09 -- Wishbone arbiter: round-robin fair: no requester can be starved (see arbiter.py)."""
from ..common import Run, BASE_ASSUMPTIONS_L2
from ..hdl.harness import run_configs
from . import arbiter

PROP = "C09"
LEVEL = "other"


def check_config(ctx, cfg):
    arbiter.check_config(ctx, cfg, "C09")


def main(run: Run):
    cfgs = arbiter.configs(run.tier, run.seed, salt=9)
    run.require(*arbiter.C09_CLAUSES)
    run.assumptions += BASE_ASSUMPTIONS_L2
    run.functions["amaranth_soc.wishbone.bus.Arbiter.elaborate"] = "per-configuration (bounded: N, features, granularities), all inputs/states/time"
    run.functions["amaranth_soc.wishbone.bus.Arbiter.add"] = "exercised (constructor refusals counted)"
    run_configs(run, __name__, cfgs, must_accept=True)
    # L1, for ALL N: the grant statements issued by the real Arbiter.elaborate() (pyvc with recording hardware stubs)
    from ..pyvc.driver import discharge_all
    from ..pyvc.engine import Unsupported
    from ..common import BASE_ASSUMPTIONS_L1
    try:
        from contracts import arbiter_l1
        fv = arbiter_l1.verify_arbiter_grant()
        run.functions["amaranth_soc.wishbone.bus.Arbiter.elaborate [grant statements, all N]"] = \
            f"proved ({fv.paths} paths, {len(fv.obs)} obligations): for every N and every owner g the loops issue `If(requests[v]): grant := v` for " \
            "v = g-1..0 then N-1..g+1, under If(~bus_busy) > Switch(grant) > Case(g), and nowhere else"
        run.require("wishbone.bus.Arbiter.elaborate[grant]::position-in-program-order", "wishbone.bus.Arbiter.elaborate[grant]::every-other-initiator-covered",
                    "wishbone.bus.Arbiter.elaborate[grant]::busy-condition")
        run.assumptions += BASE_ASSUMPTIONS_L1 + [
            "all-N argument: (i) pyvc: the statement schedule of the source (above); (ii) Lean, Arbiter.lean last_wins_is_next / "
            "nobody_else_no_assignment: with that schedule the LAST assignment whose condition holds picks the requester closest after the owner; "
            "(iii) ASSUMED: Amaranth's semantics that the last active assignment to a register in program order wins and an inactive "
            "Switch/Case/If leaves it unchanged - validated for every generated N by the per-configuration clause next_owner_closest",
            "the request/response fan-out of the second Switch is not part of the all-N contract (C08, per configuration)"]
        discharge_all(run, fv.obs, timeout_ms=20000)
    except Unsupported as e:
        run.functions["amaranth_soc.wishbone.bus.Arbiter.elaborate [grant statements, all N]"] = f"unsupported: {e} (the per-N clauses decide)"
        run.bounded_notes.append(f"Arbiter.elaborate grant schedule: outside the pyvc subset on this tree ({e}); per-N clauses decide")
    from ..lean_check import status as _lean_status
    run.extra["lean_lemmas"] = {"files": _lean_status(), "used": "Arbiter.lean: rank_decreases, served_within, pos, last_wins_is_next, nobody_else_no_assignment (all N)"}
    for _f, _st in run.extra["lean_lemmas"]["files"].items():
        if _st != "accepted":
            run.assumptions.append(f"Lean lemma file {_f} is '{_st}': the SMT axioms it backs are TRUSTED in this run")
    from . import ctor_l1 as _ctor_l1
    _ctor_l1.add_to(run, ['wb_arbiter_init'])
    return run.finish(
        explanation="Arbiter.elaborate contract with an observational owner predicate and the inductive invariant "
                    "'exactly one owner': exact next-owner function on every released cycle (closest requester after the owner, cyclically), "
                    "stays put when alone, and the ranking clause d(owner,k) strictly decreases on every released cycle in which k requests (=> served after at most N-1 grants). All initiator/target signal values, all states satisfying the "
                    "invariant, all cycles by induction. Bounded in N/features/granularity.",
        rule="configuration = (N, arbiter features, per-initiator features and granularity, widths); non-trivial = N >= 2")
