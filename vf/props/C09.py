"""C09 -- Wishbone arbiter: round-robin fair: no requester can be starved (see arbiter.py)."""
from ..common import Run, BASE_ASSUMPTIONS_L2
from ..hdl.harness import run_configs
from . import arbiter

PROP = "C09"
LEVEL = "other"


def check_config(ctx, cfg):
    arbiter.check_config(ctx, cfg, "C09")


def main(run: Run):
    cfgs = arbiter.configs(run.tier, run.seed, salt=9)
    run.require(*arbiter.C09_CLAUSES)
    run.assumptions += BASE_ASSUMPTIONS_L2
    run.functions["amaranth_soc.wishbone.bus.Arbiter.elaborate"] = "per-configuration (bounded: N, features, granularities), all inputs/states/time"
    run.functions["amaranth_soc.wishbone.bus.Arbiter.add"] = "exercised (constructor refusals counted)"
    run_configs(run, __name__, cfgs, must_accept=True)
    from ..lean_check import status as _lean_status
    run.extra["lean_lemmas"] = {"files": _lean_status(), "used": "Arbiter.lean: rank_decreases, served_within (all N, on the specification next-owner function)"}
    for _f, _st in run.extra["lean_lemmas"]["files"].items():
        if _st != "accepted":
            run.assumptions.append(f"Lean lemma file {_f} is '{_st}': the SMT axioms it backs are TRUSTED in this run")
    return run.finish(
        explanation="Arbiter.elaborate contract with an observational owner predicate and the inductive invariant "
                    "'exactly one owner': exact next-owner function on every released cycle (closest requester after the owner, cyclically), "
                    "stays put when alone, and the ranking clause d(owner,k) strictly decreases on every released cycle in which k requests (=> served after at most N-1 grants). All initiator/target signal values, all states satisfying the "
                    "invariant, all cycles by induction. Bounded in N/features/granularity.",
        rule="configuration = (N, arbiter features, per-initiator features and granularity, widths); non-trivial = N >= 2")
