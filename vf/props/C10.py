"""C10 -- Wishbone-to-CSR bridge performs each transfer exactly once, in order, on time.

Contract on WishboneCSRBridge.elaborate(), by INDUCTION OVER TRANSFERS from the idle state:
  Idle(s) := every flip-flop that is not a port (wb.ack, wb.dat_r) holds its reset value, and ack = 0
             (read off the netlist; names no internal signal)
  idle_at_reset   the reset state is Idle
  idle_stays      Idle & !(cyc & stb)  =>  Idle' and no CSR strobe
  one symbolic transfer (adr, sel, we, dat_w arbitrary but held; CSR r_data arbitrary each cycle) unrolled ratio+2 cycles:
    ack_timing    ack = 1 exactly in cycle ratio+1 (0 in every other cycle of the transfer)
    strobe_seq    cycle k < ratio: r_stb = sel[k] & !we, w_stb = sel[k] & we; cycles >= ratio: no strobe
    csr_addr      cycle k < ratio, sel[k]: addr = adr * ratio + k
    w_data_lane   cycle k < ratio, sel[k] & we: w_data = lane k of dat_w
    read_lanes    at the ack, lane g of dat_r = CSR r_data seen in cycle g+1, for every selected g of a read
    idle_again    the state after the ack cycle is Idle  (=> back-to-back and spaced transfers, cyc without stb: by induction)
  All CSR strobes are >= 2 cycles before the ack, so with the multiplexer's one-cycle write delay (C05) side effects are
  visible by the ack.
"""
import z3
from ..common import Run, BASE_ASSUMPTIONS_L2
from ..hdl.harness import run_configs, Refused
from .arbiter import sigs_of

PROP = "C10"
LEVEL = "other"
CLAUSES = ["idle_at_reset", "idle_stays", "ack_timing", "strobe_seq", "csr_addr", "w_data_lane", "read_lanes", "idle_again", "back_to_back"]
WIDTHS = [(8, 8), (8, 16), (8, 32), (8, 64), (16, 16), (16, 32), (16, 64), (32, 32), (32, 64), (64, 64)]


def configs(tier, seed):
    cfgs = []
    aws = [1, 2, 3, 4, 6, 10, 17, 30] if tier == "quick" else list(range(1, 13)) + [16, 17, 24, 30, 33]
    for c, w in WIDTHS:
        for aw in aws:
            cfgs.append({"csr_dw": c, "wb_dw": w, "aw": aw})
    # "multi-granule registers are therefore accessed atomically": the bridge in front of a REAL csr.Multiplexer whose registers span
    # 2, 3, 4 and 5 granules (also spans that are not a power of two and straddle a Wishbone word); one symbolic transfer, every leaf
    # register strobed exactly at the granule cycle of its first (read) / last (write) address and at no other time
    for c, w in ((8, 32), (8, 16), (16, 64), (8, 64)):
        cfgs.append({"csr_dw": c, "wb_dw": w, "aw": 4, "composite": {"aw": 4, "dw": w, "g": c, "align": 0, "children": [
            {"t": "csr", "name": "regs", "node": {"t": "mux", "aw": 4, "regs": [[3 * c, "rw", None], [c, "rw", None], [5 * c - 3, "rw", None], [2 * c, "r", None], [4 * c, "w", None]]}}]}})
    # ... and with the memory-map alignment the Multiplexer documents for a bus behind a width down-converter (alignment = log2(ratio)):
    # every register padded to whole Wishbone words, narrow registers followed by wide ones
    for c, w in ((8, 32), (8, 16), (16, 64)):
        lg = (w // c).bit_length() - 1
        cfgs.append({"csr_dw": c, "wb_dw": w, "aw": 5, "composite": {"aw": 5, "dw": w, "g": c, "align": 0, "children": [
            {"t": "csr", "name": "regs", "node": {"t": "mux", "aw": 5, "align": lg, "regs": [[c, "rw", None], [w, "rw", None], [c, "r", None], [w + c, "rw", None]]}}]}})
    return cfgs


def wiring_flipped(x):
    from amaranth.lib.wiring import flipped
    return flipped(x)


def build(cfg):
    from amaranth_soc import csr
    from amaranth_soc.csr.wishbone import WishboneCSRBridge
    from amaranth_soc.memory import MemoryMap
    try:
        bus = csr.Interface(addr_width=cfg["aw"], data_width=cfg["csr_dw"], path=("csr",))
        bus.memory_map = MemoryMap(addr_width=cfg["aw"], data_width=cfg["csr_dw"])
        dw_arg = None if (cfg["wb_dw"] == cfg["csr_dw"] and cfg["aw"] % 2 == 0) else cfg["wb_dw"]      # the documented default spelling
        br = WishboneCSRBridge(wiring_flipped(bus) if cfg["aw"] % 3 == 0 else bus, data_width=dw_arg)
    except (ValueError, TypeError) as e:
        raise Refused(str(e))
    return br, bus


def check_config(ctx, cfg):
    if cfg.get("composite"):
        from .C01 import check_wb
        check_wb(ctx, cfg["composite"])
        # C10 claims that EVERY transfer is acknowledged once; whether an address inside the bridge's window that no register occupies
        # should be acknowledged at all is C01's question (recorded finding there) - not claimed either way here
        ctx.results[:] = [r for r in ctx.results if r.get("clause") not in ("unassigned_never_acknowledged", "unselected_silent", "sram_reach", "map_agreement")]
        return
    br, bus = build(cfg)
    nl = ctx.netlist(br, probes=sigs_of(bus))
    wb = br.wb_bus
    cdw, wdw = cfg["csr_dw"], cfg["wb_dw"]
    ratio = wdw // cdw
    ctx.nontrivial = ratio >= 2
    one, zero = z3.BitVecVal(1, 1), z3.BitVecVal(0, 1)
    ack_ff, datr_ff = nl.ff_of(wb.ack), nl.ff_of(wb.dat_r)
    if ack_ff is None:
        raise AssertionError("wb.ack is not registered")
    internal = [sv for sv in nl.state if sv.kind == "ff" and sv.idx not in (ack_ff, datr_ff)]

    def idle_state(tag):
        st = {}
        for sv in nl.state:
            if sv.idx == ack_ff:
                st[sv.idx] = zero
            elif sv.idx == datr_ff:
                st[sv.idx] = z3.BitVec(f"datr0{tag}", sv.width)
            else:
                st[sv.idx] = z3.BitVecVal(sv.init, sv.width)
        return st

    def is_idle(frame_next_of):
        conj = [frame_next_of.next_state(ack_ff) == 0]
        for sv in internal:
            conj.append(frame_next_of.next_state(sv.idx) == z3.BitVecVal(sv.init, sv.width))
        return z3.And(*conj)

    # reset state is Idle
    rs = nl.reset_state()
    ctx.prove("idle_at_reset", z3.And(rs[ack_ff] == 0, *[rs[sv.idx] == z3.BitVecVal(sv.init, sv.width) for sv in internal]))
    # idle stays idle without a request
    fi = nl.frame("i", state=idle_state("i"))
    noreq = z3.Or(fi.inp(wb.cyc) == 0, fi.inp(wb.stb) == 0)
    ctx.prove("idle_stays", z3.And(is_idle(fi), fi.val(bus.r_stb) == 0, fi.val(bus.w_stb) == 0), [noreq], frames=[fi])
    # one transfer, held until acknowledged
    K = ratio + 2
    frames = []
    prev = None
    for k in range(K):
        f = nl.frame(f"t{k}", prev=prev, state=idle_state("t") if prev is None else None)
        frames.append(f); prev = f
    has_adr = len(wb.adr) > 0
    adr = z3.BitVec("ADR", len(wb.adr)) if has_adr else None
    sel = z3.BitVec("SEL", ratio); we = z3.BitVec("WE", 1); datw = z3.BitVec("DATW", wdw)
    held = []
    for f in frames:
        held += [f.inp(wb.cyc) == 1, f.inp(wb.stb) == 1, f.inp(wb.sel) == sel, f.inp(wb.we) == we, f.inp(wb.dat_w) == datw]
        if has_adr:
            held.append(f.inp(wb.adr) == adr)
    aw = cfg["aw"]
    for k, f in enumerate(frames):
        ctx.prove("ack_timing", f.val(wb.ack) == (one if k == ratio + 1 else zero), held, frames=frames[:k + 1])
        if k < ratio:
            selk = z3.Extract(k, k, sel)
            ctx.prove("strobe_seq", z3.And(f.val(bus.r_stb) == (selk & ~we), f.val(bus.w_stb) == (selk & we)), held, frames=frames[:k + 1])
            W = aw + 8
            exp = (z3.ZeroExt(W - adr.size(), adr) * z3.BitVecVal(ratio, W) if has_adr else z3.BitVecVal(0, W)) + z3.BitVecVal(k, W)
            ctx.prove("csr_addr", z3.Implies(selk == 1, z3.ZeroExt(W - aw, f.val(bus.addr)) == exp), held, frames=frames[:k + 1])
            ctx.prove("w_data_lane", z3.Implies(z3.And(selk == 1, we == 1),
                                                f.val(bus.w_data) == z3.Extract((k + 1) * cdw - 1, k * cdw, datw)), held, frames=frames[:k + 1])
        else:
            ctx.prove("strobe_seq", z3.And(f.val(bus.r_stb) == 0, f.val(bus.w_stb) == 0), held, frames=frames[:k + 1])
    fa = frames[ratio + 1]
    lanes = []
    for g in range(ratio):
        lanes.append(z3.Implies(z3.And(z3.Extract(g, g, sel) == 1, we == 0),
                                z3.Extract((g + 1) * cdw - 1, g * cdw, fa.val(wb.dat_r)) == frames[g + 1].inp(bus.r_data)))
    ctx.prove("read_lanes", z3.And(*lanes), held, frames=frames)
    ctx.prove("idle_again", is_idle(fa), held, frames=frames)
    # Redundant with idle_again (induction), kept so that a broken sequencer yields a trace from reset-idle that shows
    # the user-visible symptom: a second transfer presented back-to-back (stb never released).
    frames2 = list(frames); prev = frames[-1]
    for k in range(K):
        f = nl.frame(f"u{k}", prev=prev); frames2.append(f); prev = f
    adr2 = z3.BitVec("ADR2", len(wb.adr)) if has_adr else None
    sel2 = z3.BitVec("SEL2", ratio); we2 = z3.BitVec("WE2", 1); datw2 = z3.BitVec("DATW2", wdw)
    held2 = list(held)
    for f in frames2[K:]:
        held2 += [f.inp(wb.cyc) == 1, f.inp(wb.stb) == 1, f.inp(wb.sel) == sel2, f.inp(wb.we) == we2, f.inp(wb.dat_w) == datw2]
        if has_adr:
            held2.append(f.inp(wb.adr) == adr2)
    b2b = []
    for k, f in enumerate(frames2[K:]):
        b2b.append(f.val(wb.ack) == (one if k == ratio + 1 else zero))
        if k < ratio:
            selk = z3.Extract(k, k, sel2)
            b2b.append(z3.And(f.val(bus.r_stb) == (selk & ~we2), f.val(bus.w_stb) == (selk & we2)))
        else:
            b2b.append(z3.And(f.val(bus.r_stb) == 0, f.val(bus.w_stb) == 0))
    ctx.prove("back_to_back", z3.And(*b2b), held2, frames=frames2)
    ctx.canary("ack_one_early", z3.Implies(z3.And(*held), frames[ratio].val(wb.ack) == 1))
    ctx.sat("held_satisfiable", z3.And(*held))


def main(run: Run):
    cfgs = configs(run.tier, run.seed)
    run.require(*CLAUSES)
    run.assumptions += BASE_ASSUMPTIONS_L2
    run.assumptions.append("Wishbone initiator is protocol-abiding: request signals held stable until acknowledged (stated in the property)")
    run.functions["amaranth_soc.csr.wishbone.WishboneCSRBridge.elaborate"] = "per-geometry (bounded: width pairs x address widths), all transfers/all time by induction over transfers"
    run.functions["amaranth_soc.csr.wishbone.WishboneCSRBridge.__init__"] = "exercised (geometry refusals counted)"
    # every generated geometry is inside the property's quantifier ("every address width"): a refusal is a violation.  The class
    # "CSR address space smaller than one Wishbone word" is a recorded finding (known_findings.txt); any other refusal is new.
    run_configs(run, __name__, cfgs, must_accept=lambda cfg: ("csr-space-smaller-than-one-wishbone-word"
                                                             if (1 << cfg["aw"]) < cfg["wb_dw"] // cfg["csr_dw"] else True))
    from . import ctor_l1
    ctor_l1.add_to(run, ['wb_csr_bridge_init'])
    # L1: the statements the real elaborate() issues for one arbitrary granule of ANY ratio and granularity (recording stubs)
    from ..pyvc.driver import discharge_all
    from ..pyvc.engine import Unsupported
    from ..common import BASE_ASSUMPTIONS_L1
    try:
        from contracts import bridge_l1
        fv = bridge_l1.verify_bridge_elaborate()
        run.functions["amaranth_soc.csr.wishbone.WishboneCSRBridge.elaborate [statements issued, any ratio / granularity]"] = f"proved ({fv.paths} paths, {len(fv.obs)} obligations)"
        run.require("csr.wishbone.WishboneCSRBridge.elaborate::write-data-slice", "csr.wishbone.WishboneCSRBridge.elaborate::nothing-else-per-granule",
                    "csr.wishbone.WishboneCSRBridge.elaborate::address-concatenation", "csr.wishbone.WishboneCSRBridge.elaborate::nothing-else-outside-the-granule-loop")
        run.assumptions += [a for a in BASE_ASSUMPTIONS_L1 if a not in run.assumptions] + [
            "WishboneCSRBridge.elaborate contract: Amaranth objects are recording stubs (the sequencer's statement schedule for one arbitrary granule "
            "index of any ratio); Switch/Case/Default, If and last-assignment semantics are Amaranth's (assumed; the cycle-by-cycle consequences are "
            "proved per ratio from the netlist by the hdlvc clauses); exact_log2 is an assumed dependency contract"]
        discharge_all(run, fv.obs, timeout_ms=10000)
    except Unsupported as e:
        run.functions["amaranth_soc.csr.wishbone.WishboneCSRBridge.elaborate [statements issued]"] = f"unsupported: {e} (the per-configuration clauses decide)"
        run.bounded_notes.append(f"WishboneCSRBridge.elaborate: outside the pyvc subset on this tree ({e}); per-configuration clauses decide")
    from . import validation
    validation.add_to(run, ['wb_csr_bridge_ctor'])
    return run.finish(
        explanation="WishboneCSRBridge.elaborate contract by induction over transfers from the reset-idle state: one symbolic "
                    "transfer (all adr/sel/we/dat_w, all CSR read data) unrolled ratio+2 cycles with per-cycle clauses, plus "
                    "Idle-again and Idle-stays. Bounded in geometry (all 10 width pairs, CSR address widths).",
        rule="configuration = (CSR data width, Wishbone data width, CSR address width); non-trivial = ratio >= 2",
        exhaustive=False)
