"""C11 -- register fields are packed LSB-first, contiguously, and strobed by access mode.

Contract on csr.Register.__init__ / elaborate().  Fields are instances of a verification-only FieldAction subclass
whose elaborate() is empty (public API, like any user-defined action), so every field port is observable/free.
Oracle for the order: an independent depth-first walk of the *input* collection (dict/list/annotations) done here,
never Register.__iter__/flatten().
Clauses:
  width_sum            element.width = sum of field widths                                  (native evaluation)
  rejects_incompatible constructor raises ValueError iff a field's access needs a direction the register lacks (native)
  read_pack            element.r_data = concat_{fields, LSB first}(readable ? port.r_data : 0)   for all port values
  write_slice          writable field: port.w_data = element.w_data[lo:hi]
  strobe_fanout        readable: port.r_stb = element.r_stb; writable: port.w_stb = element.w_stb
  strobe_only_by_mode  a field without a direction has that strobe/data undriven by the register
"""
import random
import z3
from amaranth import unsigned, signed
from amaranth.lib import enum
from ..common import Run, BASE_ASSUMPTIONS_L2
from ..hdl.harness import run_configs, Refused

PROP = "C11"
LEVEL = "other"
CLAUSES = ["width_sum", "rejects_incompatible", "read_pack", "write_slice", "strobe_fanout", "strobe_only_by_mode"]


class E2(enum.Enum, shape=unsigned(2)):
    A = 0
    B = 1
    C = 2


SHAPES = {"u0": (unsigned(0), 0), "u1": (unsigned(1), 1), "u3": (unsigned(3), 3), "u8": (unsigned(8), 8),
          "s4": (signed(4), 4), "e2": (E2, 2), "u13": (unsigned(13), 13)}
ACCESS = ["r", "w", "rw", "nc"]


def gen_tree(rng, depth, budget):
    """Random nested collection. Returns structure; leaves are ['F', shape, access]."""
    if depth == 0 or budget[0] <= 1 or rng.random() < 0.35:
        budget[0] -= 1
        return ["F", rng.choice(list(SHAPES)), rng.choice(ACCESS)]
    kind = rng.choice(["D", "L"])
    n = rng.randint(1, 3)
    items = []
    for i in range(n):
        if budget[0] <= 0:
            break
        items.append(gen_tree(rng, depth - 1, budget))
    if not items:
        budget[0] -= 1
        items = [["F", rng.choice(list(SHAPES)), rng.choice(ACCESS)]]
    if kind == "D":
        names = ["a", "b", "c", "_d", "e"]
        rng.shuffle(names)
        return ["D", [[names[i], it] for i, it in enumerate(items)]]
    return ["L", items]


def leaves(tree):
    if tree[0] == "F":
        yield tree
    elif tree[0] == "D":
        for k, sub in tree[1]:
            yield from leaves(sub)
    else:
        for sub in tree[1]:
            yield from leaves(sub)


def configs(tier, seed):
    rng = random.Random(seed * 7919 + 11)
    cfgs = []
    # hand-picked corners
    for acc in ("r", "w", "rw"):
        cfgs.append({"tree": ["F", "u8", acc if acc != "rw" else "rw"], "access": acc, "via": "arg"})
        cfgs.append({"tree": ["F", "u0", "nc"], "access": acc, "via": "arg"})
    cfgs.append({"tree": ["D", [["a", ["F", "u3", "r"]], ["b", ["F", "u0", "rw"]], ["c", ["F", "s4", "w"]], ["_d", ["F", "e2", "nc"]]]], "access": "rw", "via": "arg"})
    cfgs.append({"tree": ["D", [["a", ["F", "u3", "r"]], ["b", ["F", "u8", "rw"]]]], "access": "rw", "via": "annot"})
    cfgs.append({"tree": ["D", [["a", ["F", "u3", "r"]], ["b", ["F", "u8", "rw"]], ["c", ["F", "s4", "rw"]]]], "access": "rw", "via": "annot_sub"})
    cfgs.append({"tree": ["D", [["zz", ["F", "u8", "w"]]]], "access": "w", "via": "annot_sub"})
    cfgs.append({"tree": ["L", [["F", "u1", "rw"], ["L", [["F", "u3", "r"], ["F", "e2", "w"]]], ["D", [["x", ["F", "s4", "rw"]]]]]], "access": "rw", "via": "arg"})
    # field names that coincide with methods of the collection classes (Mapping / Sequence API, flatten): a name is just a name
    cfgs.append({"tree": ["D", [["items", ["F", "u3", "rw"]], ["flatten", ["F", "u8", "r"]], ["keys", ["D", [["values", ["F", "u1", "w"]], ["get", ["F", "s4", "rw"]]]]],
                               ["index", ["L", [["F", "u1", "rw"], ["F", "e2", "r"]]]], ["count", ["F", "u3", "w"]], ["_fields", ["F", "u1", "rw"]]]],
                 "access": "rw", "via": "arg"})
    cfgs.append({"tree": ["D", [["port", ["F", "u3", "rw"]], ["field", ["F", "u8", "r"]], ["f", ["F", "u1", "w"]], ["element", ["F", "u1", "rw"]]]], "access": "rw", "via": "annot"})
    # deep nesting (6 levels, alternating dicts and lists) with leaves at several depths
    deep = ["F", "u3", "rw"]
    for lvl in range(6):
        deep = ["D", [[f"a{lvl}", ["F", "u8", "r"]], [f"n{lvl}", deep], [f"z{lvl}", ["F", "s4", "rw"]]]] if lvl % 2 == 0 else ["L", [["F", "u1", "w"], deep, ["F", "e2", "rw"]]]
    cfgs.append({"tree": deep, "access": "rw", "via": "arg"})
    cfgs.append({"tree": ["D", [["a", ["F", "u3", "rw"]]]], "access": "r", "via": "arg"})     # must be rejected
    cfgs.append({"tree": ["D", [["a", ["F", "u3", "r"]]]], "access": "w", "via": "arg"})      # must be rejected
    n = 120 if tier == "quick" else 1500
    for i in range(n):
        tree = gen_tree(rng, rng.randint(0, 3), [rng.randint(1, 6)])
        acc = rng.choice(["r", "w", "rw", "rw"])
        via = rng.choice(["annot", "annot", "annot_sub"]) if (tree[0] == "D" and rng.random() < 0.3) else "arg"
        cfgs.append({"tree": tree, "access": acc, "via": via})
    return cfgs


def build(cfg):
    """Returns (register or None, exception or None, spec leaves in declaration order [(tag, shape, access, action)])."""
    from amaranth_soc import csr
    from amaranth_soc.csr import reg as regmod

    class Probe(csr.FieldAction):
        def __init__(self, shape, access, tag):
            super().__init__(shape, access)
            self.tag = tag

        def elaborate(self, platform):
            from amaranth import Module
            return Module()

    counter = [0]
    order = []

    def conv(tree):
        if tree[0] == "F":
            tag = counter[0]; counter[0] += 1
            order.append((tag, tree[1], tree[2]))
            return csr.Field(Probe, SHAPES[tree[1]][0], tree[2], tag)
        if tree[0] == "D":
            return {k: conv(sub) for k, sub in tree[1]}
        return [conv(sub) for sub in tree[1]]

    fields = conv(cfg["tree"])
    try:
        if cfg["via"] == "annot_sub" and isinstance(fields, dict):
            # a register class derived from another annotation-defined register class that has ALREADY been instantiated, with
            # field annotations of its own: it is packed from its own annotations (classes must not share layout state either)
            racc = cfg["access"]
            base_ns = {"__annotations__": {"zz": csr.Field(Probe, 5, "r" if racc != "w" else "w", -1), "yy": csr.Field(Probe, 2, "nc", -1)}}
            base = type("BaseReg", (csr.Register,), base_ns, access=racc)
            base()
            cls = type("DerivedReg", (base,), {"__annotations__": dict(fields)})
            reg = cls()
        elif cfg["via"] == "annot" and isinstance(fields, dict):
            ns = {"__annotations__": dict(fields)}
            cls = type("AnnotReg", (csr.Register,), ns, access=cfg["access"])
            reg = cls()
        else:
            reg = csr.Register(fields, access=cfg["access"])
    except (ValueError, TypeError) as e:
        return None, e, order
    # Other registers of the same class are built between this one's construction and its elaboration - with the same field
    # names but other widths, and one that the constructor refuses: instances must not share layout state.
    if cfg.get("decoys", True):
        def decoy(tree, shift):
            if tree[0] == "F":
                shapes = sorted(SHAPES)
                return csr.Field(Probe, SHAPES[shapes[(shapes.index(tree[1]) + shift) % len(shapes)]][0], tree[2], -1)
            if tree[0] == "D":
                return {k: decoy(sub, shift) for k, sub in tree[1]}
            return [decoy(sub, shift) for sub in tree[1]]
        for shift, access in ((1, cfg["access"]), (2, cfg["access"]), (1, "r" if cfg["access"] != "r" else "w")):
            try:
                csr.Register(decoy(cfg["tree"], shift), access=access)
            except (ValueError, TypeError):
                pass
    return reg, None, order


def check_config(ctx, cfg):
    reg, exc, order = build(cfg)
    acc = cfg["access"]
    reg_r, reg_w = acc in ("r", "rw"), acc in ("w", "rw")
    must_reject = any((a in ("r", "rw") and not reg_r) or (a in ("w", "rw") and not reg_w) for _, _, a in order)
    ok = (exc is not None and isinstance(exc, ValueError)) if must_reject else (exc is None)
    ctx.results.append({"name": f"rejects_incompatible@{ctx.key}", "clause": "rejects_incompatible",
                        "status": "discharged" if ok else "failed", "time": 0.0,
                        "replay": {"confirmed": True, "how": "native: constructing this register", "exception": repr(exc),
                                   "expected_rejection": must_reject},
                        "cfg": cfg, "known_key": f"rejects_incompatible@{ctx.key}", "solver": "native evaluation"})
    if reg is None:
        return
    # map tags -> actions through the register's own collection (identity only; order comes from `order`)
    actions = {}
    for path, action in reg:
        actions[action.tag] = action
    widths = [SHAPES[s][1] for _, s, _ in order]
    total = sum(widths)
    okw = reg.element.width == total and set(actions) == {t for t, _, _ in order}
    ctx.results.append({"name": f"width_sum@{ctx.key}", "clause": "width_sum", "status": "discharged" if okw else "failed",
                        "time": 0.0, "replay": {"confirmed": True, "how": "native", "element_width": reg.element.width, "sum": total},
                        "cfg": cfg, "known_key": f"width_sum@{ctx.key}", "solver": "native evaluation"})
    if not okw:
        return
    probes = []
    for t, s, a in order:
        p = actions[t].port
        probes += [p.r_data, p.r_stb, p.w_data, p.w_stb]
    nl = ctx.netlist(reg, probes=probes, validate=False)
    if reg_r:
        nl.tie_off(reg.element.r_data)     # bits no field drives read as the signal's init value (0)
    from ..hdl import cosim
    cosim.validate(nl, nl.fragment, cycles=ctx.cosim_cycles, seed=ctx.seed)
    ctx.nontrivial = len(order) >= 2 and total >= 2
    f0 = nl.frame("0")
    V = lambda s: f0.val(s.as_value() if hasattr(s, "as_value") else s)
    sig = lambda s: s.as_value() if hasattr(s, "as_value") else s
    lo = 0
    parts = []
    structural = []
    for (t, s, a), w in zip(order, widths):
        p = actions[t].port
        rd, wr = a in ("r", "rw"), a in ("w", "rw")
        if rd:
            ctx.prove("strobe_fanout", V(p.r_stb) == V(reg.element.r_stb), frames=[f0])
            if w:
                if not nl.is_input(sig(p.r_data)):
                    structural.append(f"field {t}: port.r_data is driven by the register")
                parts.append(f0.inp(sig(p.r_data)))
        else:
            if not nl.is_input(sig(p.r_stb)):
                structural.append(f"field {t} ({a}): port.r_stb is driven although the field is not readable")
            if w:
                parts.append(z3.BitVecVal(0, w))
        if wr:
            ctx.prove("strobe_fanout", V(p.w_stb) == V(reg.element.w_stb), frames=[f0])
            if w:
                ctx.prove("write_slice", V(p.w_data) == z3.Extract(lo + w - 1, lo, V(reg.element.w_data)), frames=[f0])
        else:
            if not nl.is_input(sig(p.w_stb)):
                structural.append(f"field {t} ({a}): port.w_stb is driven although the field is not writable")
            if w and not nl.is_input(sig(p.w_data)):
                structural.append(f"field {t} ({a}): port.w_data is driven although the field is not writable")
        lo += w
    ctx.results.append({"name": f"strobe_only_by_mode@{ctx.key}", "clause": "strobe_only_by_mode",
                        "status": "discharged" if not structural else "failed", "time": 0.0,
                        "replay": {"confirmed": True, "how": "netlist structure: driven-ness of field port signals", "facts": structural},
                        "cfg": cfg, "known_key": f"strobe_only_by_mode@{ctx.key}", "solver": "netlist structure"})
    if reg_r and total:
        spec = parts[0] if len(parts) == 1 else z3.Concat(*reversed(parts))
        ctx.prove("read_pack", V(reg.element.r_data) == spec, frames=[f0])
        ctx.canary("read_pack_msb_first", V(reg.element.r_data) == ~spec)
    if nl.n_state_bits() != 0:
        ctx.results.append({"name": f"read_pack@{ctx.key}", "clause": "read_pack", "status": "failed", "time": 0.0,
                            "replay": {"confirmed": True, "how": "netlist has state bits; packing must be combinational"},
                            "cfg": cfg, "known_key": f"comb@{ctx.key}", "solver": "netlist structure"})


def main(run: Run):
    cfgs = configs(run.tier, run.seed)
    run.require(*CLAUSES)
    run.assumptions += BASE_ASSUMPTIONS_L2
    run.functions["amaranth_soc.csr.reg.Register.elaborate"] = "per-configuration (bounded: field collection shapes), all port values"
    run.functions["amaranth_soc.csr.reg.Register.__init__"] = "bounded (runtime contract: width sum, access rejection)"
    run.functions["amaranth_soc.csr.reg.FieldActionMap.flatten / FieldActionArray.flatten"] = "bounded (order compared with an independent walk of the input collection)"
    run_configs(run, __name__, cfgs, must_accept=True)
    # L1: the packing performed by the real Register.elaborate(), for any number of fields of any widths (pyvc, recording stubs)
    from ..pyvc.driver import discharge_all
    from ..pyvc.engine import Unsupported
    from ..common import BASE_ASSUMPTIONS_L1
    try:
        from contracts import register as creg
        fv = creg.verify_register_elaborate()
        run.functions["amaranth_soc.csr.reg.Register.elaborate [statements issued]"] = \
            f"proved ({fv.paths} paths, {len(fv.obs)} obligations): field k is wired to bits [sum of earlier widths, + its width) for ANY field list"
        run.require("csr.reg.Register.elaborate::readable-field-wired", "csr.reg.Register.elaborate::writable-field-wired",
                    "csr.reg.Register.elaborate::side-condition:invariant-preserved:field_start==prefix-sum(k+1)[fall]")
        run.assumptions += BASE_ASSUMPTIONS_L1 + [
            "Register.elaborate contract: Amaranth's Module / signals are recording stubs (which statements are issued, under which "
            "condition, with which slice bounds); what an assignment to a slice means in hardware is the per-configuration part; the "
            "iteration `for field_path, field in self` yields every field once in declaration order (flatten(): bounded clause)"]
        discharge_all(run, fv.obs, timeout_ms=20000)
    except Unsupported as e:
        run.functions["amaranth_soc.csr.reg.Register.elaborate [statements issued]"] = f"unsupported: {e} (the per-configuration clauses decide)"
        run.bounded_notes.append(f"Register.elaborate: outside the pyvc subset on this tree ({e}); per-configuration clauses decide")
    # L1: the order in which fields are visited (flatten of nested collections, Register.__iter__) and what __init__ derives from it
    try:
        from contracts import fields as cf
        obs_f = []
        for f in cf.ALL:
            fvf = f()
            run.functions["amaranth_soc." + fvf.qualname] = f"proved ({fvf.paths} paths, {len(fvf.obs)} obligations)"
            obs_f += fvf.obs
        run.require("csr.reg.FieldActionMap.flatten::container-child:each-of-its-pairs-re-yielded-with-the-key-prepended",
                    "csr.reg.FieldActionArray.flatten::leaf-child-yields-exactly-(key,)-and-itself",
                    "csr.reg.Register.__iter__::collection:exactly-its-flatten()",
                    "csr.reg.FieldActionMap.__init__::stored-under-the-item's-own-key", "csr.reg.FieldActionArray.__init__::appended-at-the-end",
                    "csr.reg.FieldActionMap.__init__::exactly-one-store-per-item", "csr.reg.FieldActionArray.__init__::exactly-one-store-per-item",
                    "csr.reg.FieldActionMap.__init__::a-Field-stores-its-create()-a-dict-a-nested-map-a-list-a-nested-array-built-from-the-item",
                    "csr.reg.Register.__init__[widths and access]::element-width-is-the-sum-of-all-field-widths",
                    "csr.reg.Register.__init__[widths and access]::side-condition:refuses-with-ValueError-only-a-field-the-access-mode-cannot-serve")
        run.assumptions.append("field order contracts: one arbitrary item of a collection with an abstract child (its own flatten() by the same contract one level "
                               "down: induction over the nesting depth, on paper); dict / list iteration order is insertion order (Python); the collections' __init__ store one entry per item of the argument in its order "
                               "(nested collections by the same contract); Register.__init__ "
                               "is verified for fields passed as an argument (the class-annotation route and Field.create(): bounded C11 configurations)")
        discharge_all(run, obs_f, timeout_ms=10000)
    except Unsupported as e:
        run.bounded_notes.append(f"field order / Register.__init__: outside the pyvc subset on this tree ({e}); the bounded clauses decide")
    return run.finish(
        explanation="Register.elaborate contract clauses (packing, slices, strobe fan-out) discharged as QF_BV obligations "
                    "over the NIR netlist for all port values; constructor clauses evaluated natively per configuration. "
                    "Field order oracle is an independent walk of the input collection. Bounded in collection shapes.",
        rule="configuration = (nested dict/list/annotation tree of fields with shapes and access modes, register access); "
             "non-trivial = >= 2 fields and >= 2 bits")
