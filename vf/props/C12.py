"""C12 -- field actions keep, set and clear storage exactly as documented, for all time.

Contracts on R/W/RW/RW1C/RW1S/_Reserved `elaborate()`; clauses are QF_BV obligations over the NIR netlist of
the real elaborated action, from an ARBITRARY storage value (so, by induction on cycles, for all time).
Storage is observed through the public `data` output (the contract names no private attribute).
"""
import z3
from amaranth import unsigned, signed
from amaranth.lib import enum
from ..common import Run, BASE_ASSUMPTIONS_L2
from ..hdl.harness import run_configs, Refused

PROP = "C12"
LEVEL = "other"
CLAUSES = ["rw_next", "rw_read_eq_data", "rw_init", "rw1c_next", "rw1c_read_eq_data", "rw1c_init",
           "rw1s_next", "rw1s_read_eq_data", "rw1s_init", "r_passthrough", "w_passthrough",
           "reserved_no_influence", "elaborates"]


class Mode2(enum.Enum, shape=unsigned(2)):
    A = 0
    B = 1
    C = 2
    D = 3


class Mode3(enum.Enum, shape=unsigned(3)):
    P = 0
    Q = 5


def shape_of(desc):
    kind, w = desc
    if kind == "u":
        return unsigned(w)
    if kind == "s":
        return signed(w)
    if kind == "enum2":
        return Mode2
    if kind == "enum3":
        return Mode3
    raise ValueError(desc)


def width_of(desc):
    kind, w = desc
    return {"enum2": 2, "enum3": 3}.get(kind, w)


def configs(tier, seed):
    import random
    rng = random.Random(seed)
    shapes = [("u", w) for w in (0, 1, 2, 3, 5, 8, 16, 33, 65)] + [("s", 4), ("s", 1), ("s", 40), ("enum2", 0), ("enum3", 0)]
    if tier == "thorough":
        shapes = [("u", w) for w in range(0, 17)] + [("u", 24), ("u", 33), ("s", 1), ("s", 4), ("s", 9), ("enum2", 0), ("enum3", 0)]
    cfgs = []
    for sh in shapes:
        w = width_of(sh)
        for cls in ("R", "W", "ResRAW0", "ResRAWL", "ResR0WA", "ResR0W0"):
            cfgs.append({"cls": cls, "shape": list(sh)})
        inits = {0, (1 << w) - 1 if w else 0, int("01" * 20, 2) & ((1 << w) - 1) if w else 0}
        inits.add(rng.getrandbits(w) if w else 0)
        if sh[0] == "enum3":
            inits = {0, 5}
        for cls in ("RW", "RW1C", "RW1S"):
            for init in sorted(inits):
                cfgs.append({"cls": cls, "shape": list(sh), "init": init})
    # the same actions as fields of a csr.Register, below / above a neighbour: "a field's data output always equals what a bus
    # read of it returns" - also for signed and enum shapes holding any value, whatever the neighbouring fields hold
    for sh in [("s", 4), ("s", 1), ("s", 9), ("enum2", 0), ("u", 3), ("u", 0)]:
        for cls in ("RW", "RW1C", "RW1S"):
            cfgs.append({"cls": cls, "shape": list(sh), "init": 0, "in_register": True})
    return cfgs


def _init_arg(sh, init):
    kind, w = sh
    if kind == "s" and init >= (1 << (w - 1)):
        return init - (1 << w)
    if kind == "enum2":
        return Mode2(init)
    if kind == "enum3":
        return Mode3(init)
    return init


def check_in_register(ctx, cfg):
    """the action as the lowest and as the middle field of a real csr.Register, next to an unsigned RW field and a read-only field:
    every readable field's slice of the register's read data equals that field's data output (as bits), in every state"""
    from amaranth_soc import csr
    from amaranth_soc.csr import action
    sh = tuple(cfg["shape"]); w = width_of(sh)
    cls = getattr(action, cfg["cls"])
    try:
        reg = csr.Register({"lo": csr.Field(cls, shape_of(sh)), "rsvd": csr.Field(action.ResR0W0, unsigned(2)), "mid": csr.Field(action.RW, unsigned(4), init=5),
                            "pad": csr.Field(action.ResRAW0, unsigned(1)), "again": csr.Field(cls, shape_of(sh)), "top": csr.Field(action.R, unsigned(3))}, access="rw")
    except (ValueError, TypeError) as e:
        raise Refused(str(e))
    S = lambda x: x.as_value() if hasattr(x, "as_value") else x
    flds = [("lo", reg.f.lo, w), ("rsvd", reg.f.rsvd, 2), ("mid", reg.f.mid, 4), ("pad", reg.f.pad, 1), ("again", reg.f.again, w), ("top", reg.f.top, 3)]
    name = {"RW": "rw_read_eq_data", "RW1C": "rw1c_read_eq_data", "RW1S": "rw1s_read_eq_data"}[cfg["cls"]]
    if reg.element.width != sum(fw for _, _, fw in flds):
        # reserved fields take their place in the register like any other field ("reserved fields influence nothing" - not even the
        # position of their neighbours)
        ctx.prove(name, z3.BoolVal(False))
        return
    nl = ctx.netlist(reg, probes=[S(f.data) for nm_, f, _ in flds if nm_ in ("lo", "mid", "again")])
    ctx.nontrivial = True
    f0 = nl.frame("0")
    rd = f0.val(reg.element.r_data)
    pos = 0
    eqs = []
    for nm, f, fw in flds:
        if fw and nm in ("lo", "mid", "again"):
            eqs.append(z3.Extract(pos + fw - 1, pos, rd) == f0.val(S(f.data)))
        elif fw and nm in ("rsvd", "pad"):
            eqs.append(z3.Extract(pos + fw - 1, pos, rd) == 0)           # reserved fields read as zero (R0 / the RAW0 field has no storage: reads its input... see below)
        pos += fw
    ctx.prove(name, z3.And(*eqs), frames=[f0])
    ctx.canary("bus_read_is_zero", rd == 0)


def check_config(ctx, cfg):
    from amaranth_soc.csr import action
    if cfg.get("in_register"):
        return check_in_register(ctx, cfg)
    sh = tuple(cfg["shape"]); w = width_of(sh)
    cls = getattr(action, cfg["cls"])
    try:
        if cfg["cls"] in ("RW", "RW1C", "RW1S"):
            ia = _init_arg(sh, cfg["init"])
            a = cls(shape_of(sh)) if (cfg["init"] == 0 and width_of(sh) % 2 == 1) else cls(shape_of(sh), init=ia)         # init=0 is the documented default
        else:
            a = cls(shape_of(sh))
    except (ValueError, TypeError) as e:
        raise Refused(str(e))
    nl = ctx.netlist(a)
    ctx.nontrivial = w >= 2
    V = lambda f, s: f.val(s.as_value() if hasattr(s, "as_value") else s)
    I = lambda f, s: f.inp(s.as_value() if hasattr(s, "as_value") else s)
    f0 = nl.frame("0")
    name = cfg["cls"]
    if w == 0:
        # nothing to say about zero-width data; strobes still pass through
        if name == "R":
            ctx.prove("r_passthrough", V(f0, a.r_stb) == I(f0, a.port.r_stb), frames=[f0])
        elif name == "W":
            ctx.prove("w_passthrough", V(f0, a.w_stb) == I(f0, a.port.w_stb), frames=[f0])
        else:
            ctx.prove({"RW": "rw_next", "RW1C": "rw1c_next", "RW1S": "rw1s_next"}.get(name, "reserved_no_influence"),
                      z3.BoolVal(nl.n_state_bits() == 0), frames=[f0])
        return
    if name == "R":
        ctx.prove("r_passthrough", z3.And(V(f0, a.port.r_data) == I(f0, a.r_data),
                                          V(f0, a.r_stb) == I(f0, a.port.r_stb),
                                          z3.BoolVal(nl.n_state_bits() == 0)), frames=[f0])
        ctx.canary("r_inverted", V(f0, a.port.r_data) == ~I(f0, a.r_data))
        return
    if name == "W":
        ctx.prove("w_passthrough", z3.And(V(f0, a.w_data) == I(f0, a.port.w_data),
                                          V(f0, a.w_stb) == I(f0, a.port.w_stb),
                                          z3.BoolVal(nl.n_state_bits() == 0)), frames=[f0])
        ctx.canary("w_stuck", V(f0, a.w_stb) == 0)
        return
    if name.startswith("Res"):
        g0 = nl.frame("g")
        # "influences nothing": no state, and whatever the netlist drives (normally nothing at all: an undriven
        # port.r_data is a free input of the netlist) is independent of every input.
        outs = [f0.inst(e) == g0.inst(e) for e in nl.out_exprs.values() if e is not None]
        ctx.prove("reserved_no_influence", z3.And(z3.BoolVal(nl.n_state_bits() == 0), *outs), frames=[f0])
        return
    f1 = nl.frame("1", prev=f0)
    data0, data1 = V(f0, a.data), V(f1, a.data)
    w_stb, w_data = I(f0, a.port.w_stb), I(f0, a.port.w_data)
    wmask = z3.If(w_stb == 1, w_data, z3.BitVecVal(0, w))
    fr = nl.frame("r", state=nl.reset_state())
    init = cfg["init"] & ((1 << w) - 1)
    pre = name.lower()
    ctx.prove(f"{pre}_read_eq_data", V(f0, a.port.r_data) == data0, frames=[f0])
    ctx.prove(f"{pre}_init", V(fr, a.data) == z3.BitVecVal(init, w), frames=[fr])
    if name == "RW":
        spec = z3.If(w_stb == 1, w_data, data0)
    elif name == "RW1C":
        spec = I(f0, a.set) | (data0 & ~wmask)
    else:
        spec = wmask | (data0 & ~I(f0, a.clear))
    ctx.prove(f"{pre}_next", data1 == spec, frames=[f0, f1])
    ctx.canary(f"{pre}_frozen", data1 == data0)


def main(run: Run):
    cfgs = configs(run.tier, run.seed)
    run.require(*CLAUSES[:-1])
    run.assumptions += BASE_ASSUMPTIONS_L2
    for fn in ("R", "W", "RW", "RW1C", "RW1S", "_Reserved"):
        run.functions[f"amaranth_soc.csr.action.{fn}.elaborate"] = "per-configuration (bounded in shape/init), all values/states/time"
    run_configs(run, __name__, cfgs, must_accept=True)
    # L1: the statements each action's elaborate() issues - for every shape, width and initial value (recording stubs; RW1C / RW1S for
    # one arbitrary bit of a storage of any width)
    from ..pyvc.driver import discharge_all
    from ..pyvc.engine import Unsupported
    from ..common import BASE_ASSUMPTIONS_L1
    try:
        from contracts import action_l1
        obs = []
        for f in action_l1.ALL:
            fv = f()
            run.functions[f"amaranth_soc.{fv.qualname} [{'constructor' if fv.qualname.endswith('__init__') else 'statements issued'}, every shape]"] = f"proved ({fv.paths} paths, {len(fv.obs)} obligations)"
            obs += fv.obs
        run.require("csr.action.RW1C.elaborate::bit-set-by-its-set-input-AFTER-the-clear(setting-wins)",
                    "csr.action.RW1S.elaborate::bit-set-by-writing-a-one-AFTER-the-clear(setting-wins)",
                    "csr.action.RW1C.elaborate::nothing-else-per-bit", "csr.action.RW.elaborate::storage-takes-the-written-value",
                    "csr.action.R.elaborate::read-data-passed-to-the-bus", "csr.action.W.elaborate::write-strobe-passed-from-the-bus",
                    "csr.action._Reserved.elaborate::nothing-else-outside-the-bit-loop", "csr.action._Reserved.elaborate::no-submodule",
                    "csr.action.RW.__init__::one-storage-signal-with-the-shape-and-the-init-value-as-given",
                    "csr.action.RW1C.__init__::one-storage-signal-with-the-shape-and-the-init-value-as-given",
                    "csr.action.RW1S.__init__::one-storage-signal-with-the-shape-and-the-init-value-as-given",
                    "csr.action.R.__init__::access-mode-is-r", "csr.action.W.__init__::access-mode-is-w", "csr.action._Reserved.__init__::access-mode-is-nc")
        run.assumptions += BASE_ASSUMPTIONS_L1 + [
            "field action contracts: Amaranth objects are recording stubs (which statements are issued, in which order, under which If, on which "
            "bit); Value.cast is the identity on bits; last-assignment-wins and 'an unassigned register bit keeps its value' are Amaranth's "
            "semantics (assumed; proved per shape from the netlist by the hdlvc clauses)"]
        discharge_all(run, obs, timeout_ms=10000)
    except Unsupported as e:
        run.bounded_notes.append(f"field action elaborate(): outside the pyvc subset on this tree ({e}); the per-shape clauses decide")
    return run.finish(
        explanation="Contract clauses on each field action's elaborate(), discharged as QF_BV obligations over the "
                    "Amaranth NIR netlist of the real elaborated action from an arbitrary storage value "
                    "(induction on cycles: init clause + next-state clause). Bits are checked jointly. "
                    "Bounded in the configuration dimension (shapes/inits enumerated).",
        rule="configuration = (action class, shape, init); non-trivial = width >= 2; distinct by JSON key")
