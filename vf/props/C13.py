"""C13 -- event monitor never loses an event and reports exactly enabled-and-pending.

L2 part: contract on event.Monitor.elaborate().  (The EventMap half is an L1/pyvc contract: vf/props/C13 calls it too.)
Clauses, per configuration (number of sources, trigger mode of each, insertion order with repeats):
  trg_mode      2-step from an ARBITRARY state: trg_k(t+1) = mode_k(i_k(t+1), i_k(t))      (edge modes compare with the previous input)
  trg_reset     from reset: trg_k = mode_k(i_k, 0)                                          (previous input initially low)
  pending_next  pending'[k] = trg_k ? 1 : (clear[k] ? 0 : pending[k])                       (trigger wins over clear: no event lost)
  pending_reset pending = 0 after reset
  src_line      src.i = ((enable & pending) != 0)
Bit k is the source the event map numbers k (event_map.index()).
"""
import itertools, random
import z3
from ..common import Run, BASE_ASSUMPTIONS_L2
from ..hdl.harness import run_configs, Refused

PROP = "C13"
LEVEL = "other"
CLAUSES = ["trg_mode", "trg_reset", "pending_next", "pending_reset", "src_line"]
MODES = ["level", "rise", "fall"]


def configs(tier, seed):
    rng = random.Random(seed)
    cfgs = [{"modes": [], "order": []}]
    nmax_all = 3 if tier == "quick" else 4
    for n in range(1, nmax_all + 1):
        for modes in itertools.product(MODES, repeat=n):
            cfgs.append({"modes": list(modes), "order": list(range(n))})
    # shuffled insertion order with repeats, larger maps
    for n in (4, 5, 6, 9, 17, 33) if tier == "quick" else (5, 6, 7, 8, 9, 12, 17, 33, 65):
        for _ in range(3 if tier == "quick" else 8):
            modes = [rng.choice(MODES) for _ in range(n)]
            order = list(range(n)); rng.shuffle(order)
            order = order + [rng.randrange(n) for _ in range(2)]
            rng.shuffle(order)
            # make sure every source appears
            for k in range(n):
                if k not in order:
                    order.append(k)
            cfgs.append({"modes": modes, "order": order})
    for k, c in enumerate(cfgs):
        c["via_signature"] = k % 2
        c["trigger"] = ["level", "rise", "fall", "level"][k % 4]          # trigger mode of the monitor's OWN outgoing source          # which half of the sources comes from Source.Signature(...).create()
    return cfgs


def build(cfg):
    from amaranth_soc import event
    # every second source is obtained the other documented way: from its signature (a component declaring
    # Out(event.Source.Signature(trigger=...)) gets its ports through Signature.create()); both routes must give the same source
    T = lambda k, m: event.Source.Trigger(m) if k % 3 == 1 else m            # the mode as a string or as the enum member
    def plain(k, m):
        # a level-triggered source may leave the trigger out: "level" is the documented default
        return event.Source(path=(f"s{k}",)) if (m == "level" and k % 4 == 0) else event.Source(trigger=T(k, m), path=(f"s{k}",))
    srcs = [plain(k, m) if (k + cfg.get("via_signature", 0)) % 2 == 0
            else event.Source.Signature(trigger=T(k, m)).create(path=(f"s{k}",)) for k, m in enumerate(cfg["modes"])]
    emap = event.EventMap()
    for k in cfg["order"]:
        emap.add(srcs[k])
    trig = cfg.get("trigger", "level")
    mon = event.Monitor(emap, trigger=event.Source.Trigger(trig) if len(cfg["modes"]) % 2 else trig)
    return mon, emap, srcs


def mode_fn(mode, cur, prev):
    if mode == "level":
        return cur
    if mode == "rise":
        return ~prev & cur
    return prev & ~cur


def check_config(ctx, cfg):
    try:
        mon, emap, srcs = build(cfg)
    except (ValueError, TypeError) as e:
        raise Refused(str(e))
    probes = []
    for s in srcs:
        probes += [s.i, s.trg]
    nl = ctx.netlist(mon, probes=probes)
    n = len(srcs)
    ctx.nontrivial = n >= 2
    if n == 0:
        f0 = nl.frame("0")
        ctx.prove("src_line", f0.val(mon.src.i) == 0, frames=[f0])
        return
    f0 = nl.frame("0"); f1 = nl.frame("1", prev=f0)
    fr = nl.frame("r", state=nl.reset_state())
    one = z3.BitVecVal(1, 1)
    pend0, pend1 = f0.val(mon.pending), f1.val(mon.pending)
    clear0 = f0.inp(mon.clear); en0 = f0.inp(mon.enable)
    for s in srcs:
        k = emap.index(s)
        m = cfg["modes"][srcs.index(s)]          # the mode the source was DECLARED with (not what the object reports about itself)
        tag = f"[{k}:{m}]"
        ctx.prove("trg_mode", f1.val(s.trg) == mode_fn(m, f1.inp(s.i), f0.inp(s.i)), frames=[f0, f1])
        ctx.prove("trg_reset", fr.val(s.trg) == mode_fn(m, fr.inp(s.i), z3.BitVecVal(0, 1)), frames=[fr])
        pk0 = z3.Extract(k, k, pend0); pk1 = z3.Extract(k, k, pend1)
        spec = z3.If(f0.val(s.trg) == one, one, z3.If(z3.Extract(k, k, clear0) == one, z3.BitVecVal(0, 1), pk0))
        ctx.prove("pending_next", pk1 == spec, frames=[f0, f1])
    ctx.prove("pending_reset", fr.val(mon.pending) == 0, frames=[fr])
    ctx.prove("src_line", f0.val(mon.src.i) == z3.If((en0 & pend0) != 0, one, z3.BitVecVal(0, 1)), frames=[f0])
    ctx.canary("src_line_or", f0.val(mon.src.i) == z3.If((en0 | pend0) != 0, one, z3.BitVecVal(0, 1)))
    s0 = srcs[0]
    ctx.canary("trg_always_level", f1.val(s0.trg) == ~f1.inp(s0.i))


def main(run: Run):
    cfgs = configs(run.tier, run.seed)
    run.require(*CLAUSES)
    run.assumptions += BASE_ASSUMPTIONS_L2
    run.functions["amaranth_soc.event.Monitor.elaborate"] = "per-configuration (bounded: sources/modes/order), all inputs/states/time"
    run_configs(run, __name__, cfgs, must_accept=True)
    from . import C13_l1
    C13_l1.add_to(run)
    from . import ctor_l1
    ctor_l1.add_to(run, ['monitor_init'])
    return run.finish(
        explanation="Monitor.elaborate contract clauses discharged as QF_BV obligations on the NIR netlist from an "
                    "arbitrary state (1- and 2-step) plus reset clauses; induction over cycles gives all histories. "
                    "EventMap add/index/sources/freeze contracts are discharged by pyvc (unbounded). "
                    "Bounded only in the configuration dimension (sources/modes/insertion orders enumerated).",
        rule="configuration = (trigger mode per source, insertion order incl. repeats); non-trivial = >= 2 sources")
