"""L1 part of C13: EventMap contracts (contracts/eventmap.py)."""
from ..pyvc.driver import discharge_all
from ..pyvc.engine import Unsupported
from ..common import BASE_ASSUMPTIONS_L1


def add_to(run):
    from contracts import eventmap as c
    obs = []
    for f in c.ALL:
        try:
            fv = f()
        except Unsupported as e:
            run.undecided.append(f"{f.__name__}: unsupported construct: {e}")
            continue
        run.functions["amaranth_soc." + fv.qualname] = f"proved ({fv.paths} paths, {len(fv.obs)} obligations)"
        obs += fv.obs
    for cl in ("event.EventMap.add::new-source-gets-the-next-index", "event.EventMap.add::repeat-is-ignored",
               "event.EventMap.add::existing-indices-stable", "event.EventMap.add::frozen-map-refuses",
               "event.EventMap.index::returns-the-registered-index", "event.EventMap.index::KeyError-iff-unknown-source"):
        run.require(cl)
    run.assumptions += BASE_ASSUMPTIONS_L1 + ["dict.values() yields the stored values in insertion order (CPython, assumed)"]
    discharge_all(run, obs, timeout_ms=10000)
