"""L1 part of C13: EventMap contracts (contracts/eventmap.py)."""
from ..pyvc.driver import discharge_all
from ..pyvc.engine import Unsupported
from ..common import BASE_ASSUMPTIONS_L1


def add_to(run):
    from contracts import eventmap as c
    obs = []
    for f in c.ALL:
        try:
            fv = f()
        except Unsupported as e:
            run.undecided.append(f"{f.__name__}: unsupported construct: {e}")
            continue
        run.functions["amaranth_soc." + fv.qualname] = f"proved ({fv.paths} paths, {len(fv.obs)} obligations)"
        obs += fv.obs
    for cl in ("event.EventMap.add::new-source-gets-the-next-index", "event.EventMap.add::repeat-is-ignored",
               "event.EventMap.add::existing-indices-stable", "event.EventMap.add::frozen-map-refuses",
               "event.EventMap.index::returns-the-registered-index", "event.EventMap.index::KeyError-iff-unknown-source"):
        run.require(cl)
    run.assumptions += BASE_ASSUMPTIONS_L1 + ["dict.values() yields the stored values in insertion order (CPython, assumed)"]
    # the statements issued by the real Monitor.elaborate(), for any number of sources (recording hardware stubs)
    try:
        from contracts import monitor_l1
        fv = monitor_l1.verify_monitor_elaborate()
        run.functions["amaranth_soc.event.Monitor.elaborate [statements issued, any number of sources]"] = \
            f"proved ({fv.paths} paths, {len(fv.obs)} obligations): per source and trigger mode exactly the edge register, trigger, set-then-clear statements on bit `index`"
        run.require("event.Monitor.elaborate::trigger-by-mode", "event.Monitor.elaborate::pending-set-on-trigger", "event.Monitor.elaborate::interrupt-line")
        run.assumptions.append("Monitor.elaborate contract: Amaranth objects are recording stubs (which statements, under which If/Elif, on which bit); "
                               "their hardware meaning is Amaranth's semantics (the per-configuration hdlvc clauses check it)")
        obs += fv.obs
    except Unsupported as e:
        run.functions["amaranth_soc.event.Monitor.elaborate [statements issued, any number of sources]"] = f"unsupported: {e} (the per-configuration clauses decide)"
        run.bounded_notes.append(f"Monitor.elaborate: outside the pyvc subset on this tree ({e}); per-configuration clauses decide")
    discharge_all(run, obs, timeout_ms=10000)
