"""C14 -- CSR event monitor: enable reads back, pending is read / write-one-to-clear.

Contract on csr.EventMonitor.elaborate(), flattened (real Multiplexer, real registers, real event.Monitor):
 (i)  the generic CSR-target contract (csrtarget: C04/C05 clauses) with the registers and addresses that
      bus.memory_map.all_resources() reports -- includes the multi-chunk atomic snapshot of `pending`;
 (ii) element-level glue, 1-step from an arbitrary state (registers found by name through the memory map):
        enable_latch    enable' = enable.w_stb ? enable.w_data : enable                 (enable := enable element's r_data)
        pending_w1c     pending'[k] = trg_k ? 1 : (pending.w_stb & pending.w_data[k] ? 0 : pending[k])
        irq_line        src.i = ((enable & pending) != 0)
        reset_values    enable = pending = 0 after reset
 (iii) attachment (native): wiring.connect(initiator, monitor.bus) succeeds; csr.Decoder.add(monitor.bus) elaborates.
"""
import random
import z3
from ..common import Run, BASE_ASSUMPTIONS_L2
from ..hdl.harness import run_configs, Refused
from . import csrtarget

PROP = "C14"
LEVEL = "other"
GLUE = ["enable_latch", "pending_w1c", "irq_line", "reset_values", "connects_to_initiator", "attaches_to_decoder", "accepts_valid_parameters"]


def configs(tier, seed):
    rng = random.Random(seed + 14)
    cfgs = []
    ns = [0, 1, 2, 7, 8, 9, 17] if tier == "quick" else list(range(0, 21)) + [33]
    for n in ns:
        for dw in (8, 16, 32):
            if tier == "quick" and n > 9 and dw != 8:
                continue
            al = rng.choice([0, 0, 1, 2, 3])
            cfgs.append({"n": n, "dw": dw, "align": al, "modes": [rng.choice(["level", "rise", "fall"]) for _ in range(n)]})
    cfgs.append({"n": 12, "dw": 8, "align": 0, "modes": ["level"] * 12})
    # registers of 3, 5, 6, 7 bus words, unaligned (alignment < 2): pending starts where shadow offsets wrap around
    for n, dw, al in [(17, 8, 0), (20, 8, 1), (24, 8, 0), (33, 16, 0)] + ([] if tier == "quick" else [(33, 8, 0), (41, 8, 1), (50, 8, 0)]):
        cfgs.append({"n": n, "dw": dw, "align": al, "modes": [rng.choice(["level", "rise", "fall"]) for _ in range(n)]})
    cfgs.append({"n": 3, "dw": 8, "align": 3, "modes": ["rise", "fall", "level"]})
    for pair, dw, al in [((2, 2), 8, 0), ((9, 3), 8, 1), ((1, 17), 16, 0)]:
        cfgs.append({"behind_decoder": list(pair), "dw": dw, "align": al, "n": sum(pair), "modes": []})
        cfgs.append({"behind_decoder": list(pair), "dw": dw, "align": al, "n": sum(pair), "modes": [], "descending": True})
    cfgs.append({"behind_decoder": [3, 0], "dw": 8, "align": 0, "n": 3, "modes": [], "odd": 3})
    cfgs.append({"behind_decoder": [9, 0], "dw": 8, "align": 1, "n": 9, "modes": [], "odd": 5})
    # padded register sizes that are not a power of two (5 or 6 words padded to 6; 9..11 padded to 10 / 12): the last data words
    # of `enable` share their shadow chunk with alignment padding of `pending`
    for n, dw, al in [(40, 8, 1), (33, 8, 1)] + ([] if tier == "quick" else [(40, 16, 1), (41, 8, 1), (35, 8, 1)]):
        cfgs.append({"n": n, "dw": dw, "align": al, "modes": [("level", "rise", "fall")[i % 3] for i in range(n)]})
    return cfgs


def build(cfg):
    from amaranth_soc import csr, event
    from amaranth_soc.csr.event import EventMonitor
    try:
        emap = event.EventMap()
        # (every second source comes from its signature, as a component port would: both routes must give the declared mode)
        srcs = [event.Source(trigger=m, path=(f"e{i}",)) if i % 2 == 0 else event.Source.Signature(trigger=m).create(path=(f"e{i}",))
                for i, m in enumerate(cfg["modes"])]
        for s in srcs:
            emap.add(s)
        kw_ = {} if (cfg["align"] == 0 and cfg["n"] % 2 == 0) else {"alignment": cfg["align"]}             # documented defaults: level trigger, alignment 0
        if cfg["n"] % 3 == 0:
            kw_["trigger"] = "level"
        mon = EventMonitor(emap, data_width=cfg["dw"], **kw_)
    except (ValueError, TypeError) as e:
        raise Refused(str(e))
    return mon, emap, srcs


def native(ctx, clause, ok, detail, cfg):
    ctx.results.append({"name": f"{clause}@{ctx.key}", "clause": clause, "status": "discharged" if ok else "failed", "time": 0.0,
                        "replay": {"confirmed": True, "how": "native evaluation on the real component", "detail": detail},
                        "cfg": cfg, "known_key": f"{clause}", "solver": "native evaluation"})


def check_config(ctx, cfg):
    if cfg.get("behind_decoder"):
        # "whether attached through a decoder ...": two monitors in named windows of one csr.Decoder; the generic CSR-target
        # contract (every register readable / writable at the address the DECODER's memory map reports, nothing else strobed,
        # atomic snapshots) at the decoder's bus
        from .C01 import check_csr
        n1, n2 = cfg["behind_decoder"]
        if cfg.get("odd"):
            # an ODD number of subordinates (3, 5) with the monitor added last / in the middle
            kids = [{"node": {"t": "bridge", "aw": 2, "regs": [[cfg["dw"], "rw", None]]}, "name": f"p{i}", "addr": None} for i in range(cfg["odd"] - 1)]
            kids.insert(cfg["odd"] - 1 if cfg["odd"] == 3 else 2, {"node": {"t": "evmon", "n": n1, "align": cfg["align"]}, "name": "mon", "addr": None})
            return check_csr(ctx, {"dw": cfg["dw"], "root": {"t": "dec", "aw": 7, "align": 0, "children": kids}})
        return check_csr(ctx, {"dw": cfg["dw"], "root": {"t": "dec", "aw": 6, "align": 0, "children": [
            {"node": {"t": "evmon", "n": n1, "align": cfg["align"]}, "name": "a", "addr": 0x20 if cfg.get("descending") else None},
            {"node": {"t": "evmon", "n": n2, "align": cfg["align"]}, "name": "b", "addr": 0x00 if cfg.get("descending") else None}]}})
    from amaranth import Module
    from amaranth.hdl import Fragment
    from amaranth.lib.wiring import connect
    from amaranth_soc import csr
    try:
        mon, emap, srcs = build(cfg)
    except Refused as e:
        # every generated parameter set is valid by the documented rules (positive data width, non-negative alignment, any number
        # of events): a refusal is a violation of "for every event map, data width and alignment", not a configuration to skip
        native(ctx, "accepts_valid_parameters", False, f"EventMonitor refused valid parameters {cfg}: {e}", cfg)
        ctx.nontrivial = True
        return
    native(ctx, "accepts_valid_parameters", True, "", cfg)
    # (iii) attachment, on separate instances (connect() mutates nothing but keep the proof instance clean)
    mon2, _, _ = build(cfg)
    ini = csr.Interface(addr_width=mon2.bus.addr_width, data_width=cfg["dw"], path=("ini",))
    try:
        m = Module(); m.submodules.mon = mon2
        connect(m, ini, mon2.bus)
        Fragment.get(m, None)
        native(ctx, "connects_to_initiator", True, "", cfg)
    except Exception as e:
        native(ctx, "connects_to_initiator", False, f"wiring.connect(m, initiator, monitor.bus): {type(e).__name__}: {e}", cfg)
    mon3, _, _ = build(cfg)
    try:
        dec = csr.Decoder(addr_width=mon3.bus.addr_width + 2, data_width=cfg["dw"])
        dec.add(mon3.bus, name="mon")
        m = Module(); m.submodules.dec = dec; m.submodules.mon = mon3
        Fragment.get(m, None)
        native(ctx, "attaches_to_decoder", True, "", cfg)
    except Exception as e:
        native(ctx, "attaches_to_decoder", False, f"csr.Decoder.add(monitor.bus)+elaborate: {type(e).__name__}: {e}", cfg)

    regs = csrtarget.regs_from_map(mon.bus.memory_map)
    csrtarget.range_covers_width(ctx, regs, cfg["dw"], cfg)
    by_name = {R["name"]: R for R in regs}
    en, pe = by_name["enable"], by_name["pending"]
    # the monitor is the one that was CONFIGURED: one mask bit per event in both registers, enable before pending, a bus of the data width
    native(ctx, "accepts_valid_parameters", en["width"] == cfg["n"] and pe["width"] == cfg["n"] and en["start"] < pe["start"]
           and mon.bus.data_width == cfg["dw"] and mon.bus.memory_map.data_width == cfg["dw"] and len(regs) == 2,
           f"EventMonitor for {cfg['n']} events on a {cfg['dw']}-bit bus has registers {[(R['name'], R['width'], R['start'], R['stop']) for R in regs]}", cfg)
    probes = csrtarget.elem_signals(regs)
    for s in srcs:
        probes += [s.i, s.trg]
    nl = ctx.netlist(mon, probes=probes)
    n = cfg["n"]
    ctx.nontrivial = n >= 2
    # (i) generic CSR-target contract at the bus
    csrtarget.read_clauses(ctx, nl, mon.bus, regs)
    csrtarget.write_clauses(ctx, nl, mon.bus, regs)
    # (ii) glue
    fp = nl.frame("gp"); f0 = nl.frame("g0", prev=fp); f1 = nl.frame("g1", prev=f0); fr = nl.frame("gr", state=nl.reset_state())
    one, zero = z3.BitVecVal(1, 1), z3.BitVecVal(0, 1)
    if n == 0:
        ctx.prove("irq_line", f0.val(mon.src.i) == 0, frames=[f0])
        for c in ("enable_latch", "pending_w1c", "reset_values"):
            ctx.prove(c, z3.BoolVal(True))
        return
    en0, en1 = f0.val(en["elem"].r_data), f1.val(en["elem"].r_data)
    pe0, pe1 = f0.val(pe["elem"].r_data), f1.val(pe["elem"].r_data)
    ctx.prove("enable_latch", en1 == z3.If(f0.val(en["elem"].w_stb) == 1, f0.val(en["elem"].w_data), en0), frames=[f0, f1])
    pw_stb, pw_data = f0.val(pe["elem"].w_stb), f0.val(pe["elem"].w_data)
    conj = []
    for s in srcs:
        k = emap.index(s)
        bit = lambda v: z3.Extract(k, k, v)
        # the trigger as the PROPERTY defines it, from the source's input now and one cycle earlier
        cur, prv = f0.inp(s.i), fp.inp(s.i)
        trg = {"level": cur, "rise": ~prv & cur, "fall": prv & ~cur}[cfg["modes"][srcs.index(s)]]
        conj.append(bit(pe1) == z3.If(trg == 1, one, z3.If(z3.And(pw_stb == 1, bit(pw_data) == 1), zero, bit(pe0))))
    ctx.prove("pending_w1c", z3.And(*conj), frames=[fp, f0, f1])
    ctx.prove("irq_line", f0.val(mon.src.i) == z3.If((en0 & pe0) != 0, one, zero), frames=[f0])
    ctx.prove("reset_values", z3.And(fr.val(en["elem"].r_data) == 0, fr.val(pe["elem"].r_data) == 0), frames=[fr])
    # the first cycle after reset: an edge-triggered source compares with "initially low" (C13), so a line that is low from the start
    # produces no event, whatever its trigger mode; with no write in that cycle pending is exactly the triggers of that cycle
    fr1 = nl.frame("gr1", prev=fr)
    conj_r = []
    for s in srcs:
        k = emap.index(s)
        cur = fr.inp(s.i)
        trg0 = {"level": cur, "rise": cur, "fall": zero}[cfg["modes"][srcs.index(s)]]            # previous input = 0
        conj_r.append(z3.Extract(k, k, fr1.val(pe["elem"].r_data)) == trg0)
    ctx.prove("reset_values", z3.And(*conj_r), [fr.val(pe["elem"].w_stb) == 0], frames=[fr, fr1])
    ctx.canary("write_zero_clears", z3.Implies(z3.And(pw_stb == 1, pw_data == 0, *[f0.val(s.trg) == 0 for s in srcs]), pe1 == 0))
    _ = fp


def main(run: Run):
    cfgs = configs(run.tier, run.seed)
    run.require(*(csrtarget.READ_CLAUSES + csrtarget.WRITE_CLAUSES + GLUE + ["range_covers_width"]))
    run.assumptions += BASE_ASSUMPTIONS_L2
    run.functions["amaranth_soc.csr.event.EventMonitor.elaborate"] = "per-configuration (bounded: event count, width, alignment, modes); flattened with the real Multiplexer/registers/Monitor"
    run.functions["amaranth_soc.csr.event.EventMonitor.__init__"] = "bounded: register sizing/addresses taken from the memory map; attachment clauses evaluated natively"
    run_configs(run, __name__, cfgs)
    from . import ctor_l1
    ctor_l1.add_to(run, ['eventmonitor_init', 'monitor_init'])
    from ..pyvc.driver import discharge_all
    from ..pyvc.engine import Unsupported
    try:
        from contracts import glue_l1
        fv = glue_l1.verify_eventmonitor_elaborate()
        run.functions["amaranth_soc.csr.event.EventMonitor.elaborate [statements issued, any event count / bus width]"] = f"proved ({fv.paths} paths, {len(fv.obs)} obligations)"
        run.require("csr.event.EventMonitor.elaborate::pending-write-is-a-clear-pulse", "csr.event.EventMonitor.elaborate::nothing-else",
                    "csr.event.EventMonitor.elaborate::source-and-bus-connected-to-the-monitor-and-the-multiplexer")
        run.assumptions.append("EventMonitor.elaborate contract: Amaranth objects and wiring.connect are recording stubs (which statements / connections are "
                               "issued); their hardware meaning is Amaranth's (assumed; proved per configuration from the flattened netlist)")
        discharge_all(run, fv.obs, timeout_ms=10000)
    except Unsupported as e:
        run.bounded_notes.append(f"EventMonitor.elaborate: outside the pyvc subset on this tree ({e}); the per-configuration clauses decide")
    return run.finish(
        explanation="Generic CSR-target contract (C04/C05 clauses) re-checked on the flattened EventMonitor at the addresses its "
                    "memory map reports, plus element-level glue clauses (enable latch, pending write-one-to-clear with trigger "
                    "priority, interrupt line, reset) from an arbitrary state; attachment by connect()/Decoder evaluated natively. "
                    "Bounded in event count / width / alignment / trigger modes.",
        rule="configuration = (event count, bus data width, alignment, trigger mode per source); non-trivial = >= 2 events")
