"""C15 -- Wishbone SRAM behaves as a memory with a one-cycle, single acknowledge.

Contract on WishboneSRAM.elaborate(); the netlist's own memory (z3 array) is the reference store.
Clauses per geometry (size, data width, granularity, writable, init image), from an ARBITRARY state:
  ack_next     ack' = !ack & cyc & stb          (one cycle after presentation; never twice; never spontaneous;
                                                 nothing on cyc or stb alone; re-armed after the ack cycle)
  ack_reset    ack = 0 after reset
  mem_next     mem' = (req & we & writable) ? mem[adr := merge(sel, dat_w, mem[adr])] : mem,  req = !ack & cyc & stb
               (=> written once; only selected granules; no write while the ack is out; read-only never changes)
  read_data    req & !we  =>  dat_r' = mem[adr]   (the data presented with the acknowledge is the word as last written)
  read_data_from_reset   the same along every 3-cycle trace from reset (gives natively reproducible counterexamples)
  init_image   memory after reset = the init image
"""
import random
import z3
from ..common import Run, BASE_ASSUMPTIONS_L2
from ..hdl.harness import run_configs, Refused
from ..hdl.nir import _fit

PROP = "C15"
LEVEL = "other"
CLAUSES = ["geometry_as_configured", "ack_next", "ack_reset", "mem_next", "read_data", "read_data_from_reset", "init_image"]
PAIRS = [(8, 8), (16, 8), (16, 16), (32, 8), (32, 16), (32, 32), (64, 8), (64, 16), (64, 32), (64, 64)]


def configs(tier, seed):
    rng = random.Random(seed + 15)
    cfgs = []
    sizes = [1, 2, 4, 8, 16, 64, 512] if tier == "quick" else [1, 2, 4, 8, 16, 32, 64, 128, 256, 1024]
    for dw, g in PAIRS:
        for size in sizes:
            if size * g < dw:
                continue
            depth = size * g // dw
            for writable in (True, False):
                if tier == "quick" and size > 16 and not writable:
                    continue
                kinds = ["zero", "ramp"] if tier == "quick" else ["zero", "ramp", "random"]
                for kind in kinds:
                    if kind == "zero":
                        init = []
                    elif kind == "ramp":
                        init = [(i * 0x0101010101010101 + 0x80) & ((1 << dw) - 1) for i in range(depth)]
                    else:
                        init = [rng.getrandbits(dw) for _ in range(rng.randint(1, depth))]
                    cfgs.append({"size": size, "dw": dw, "g": g, "writable": writable, "init": init})
    # `init` is documented as an ITERABLE of initial values: the same image handed over as a one-shot iterator / a tuple / a range
    for k, c in enumerate([c for c in cfgs if c["init"]][:12]):
        cfgs.append(dict(c, init_as=("generator", "tuple", "iter")[k % 3]))
    # the image assigned through the `init` property after construction (over a different, non-zero constructor image): rows the
    # new image does not mention are zero, exactly as if it had been given to the constructor
    for k, c in enumerate([c for c in cfgs if c["init"] and not c.get("init_as") and c["size"] * c["g"] // c["dw"] >= 2][:10]):
        depth = c["size"] * c["g"] // c["dw"]
        cfgs.append(dict(c, init=c["init"][:max(1, depth // 2)] if k % 2 else c["init"], ctor_init=[(0xa5a5a5a5a5a5a5a5 + i) & ((1 << c["dw"]) - 1) for i in range(depth)]))
    return cfgs


def check_config(ctx, cfg):
    from amaranth_soc.wishbone.sram import WishboneSRAM
    try:
        gran_arg = None if (cfg["g"] == cfg["dw"] and cfg["size"] % 4 == 0) else cfg["g"]       # the documented default spelling
        init = cfg["init"]
        if cfg.get("init_as") == "generator":
            init = (v for v in cfg["init"])
        elif cfg.get("init_as") == "tuple":
            init = tuple(cfg["init"])
        elif cfg.get("init_as") == "iter":
            init = iter(list(cfg["init"]))
        if "ctor_init" in cfg:
            s = WishboneSRAM(size=cfg["size"], data_width=cfg["dw"], granularity=gran_arg, writable=cfg["writable"], init=cfg["ctor_init"])
            s.init = init
        else:
            s = WishboneSRAM(size=cfg["size"], data_width=cfg["dw"], granularity=gran_arg, writable=cfg["writable"], init=init)
    except (ValueError, TypeError) as e:
        raise Refused(str(e))
    nl = ctx.netlist(s)
    wb = s.wb_bus
    dw, g = cfg["dw"], cfg["g"]
    mems = [sv for sv in nl.state if sv.kind == "mem"]
    assert len(mems) == 1
    msv = mems[0]
    ctx.nontrivial = msv.depth >= 2
    one, zero = z3.BitVecVal(1, 1), z3.BitVecVal(0, 1)
    # the geometry comes from the CONFIGURATION: size*granularity/data_width rows of data_width bits, a bus that addresses exactly those
    # rows, a memory map of `size` granules holding the memory as its only resource (the clauses below use the component's own widths)
    from amaranth_soc import wishbone as _wb
    rows = cfg["size"] * g // dw
    mm = wb.memory_map
    res_ = list(mm.resources())
    geometry_ok = (msv.depth == rows and msv.width == dw and wb.signature == _wb.Signature(addr_width=(rows - 1).bit_length(), data_width=dw, granularity=g)
                   and mm.data_width == g and 1 << mm.addr_width == cfg["size"] and len(res_) == 1 and tuple(res_[0][2]) == (0, cfg["size"])
                   and not list(mm.windows()) and s.size == cfg["size"] and s.writable == bool(cfg["writable"]))
    ctx.prove("geometry_as_configured", z3.BoolVal(bool(geometry_ok)))
    f0 = nl.frame("0"); f1 = nl.frame("1", prev=f0); fr = nl.frame("r", state=nl.reset_state())
    ack0 = f0.val(wb.ack)
    cyc, stb, we = f0.inp(wb.cyc), f0.inp(wb.stb), f0.inp(wb.we)
    sel, datw = f0.inp(wb.sel), f0.inp(wb.dat_w)
    adr = f0.inp(wb.adr) if len(wb.adr) else None
    a = z3.BitVecVal(0, msv.aw) if adr is None else _fit(adr, msv.aw)
    req = z3.And(ack0 == 0, cyc == 1, stb == 1)

    def restore_factory(images):
        # replay only: preload the simulator's memory image (pysim copies MemoryData._init._raw when it is built);
        # the Memory component is reached through the public memory map.
        mem = next(iter(wb.memory_map.resources()))[0]
        raw = mem.data._init._raw
        old = list(raw)
        raw[:] = [int(x or 0) for x in images[msv.idx]]
        def restore():
            raw[:] = old
        return restore

    ctx.prove("ack_next", f1.val(wb.ack) == z3.If(req, one, zero), frames=[f0, f1], mem_replay=restore_factory)
    ctx.prove("ack_reset", fr.val(wb.ack) == 0, frames=[fr])
    mem0 = f0.state[msv.idx]
    mem1 = f0.next_state(msv.idx)
    old = mem0[a]
    parts = []
    for k in range(dw // g):
        parts.append(z3.If(z3.Extract(k, k, sel) == 1, z3.Extract((k + 1) * g - 1, k * g, datw),
                           z3.Extract((k + 1) * g - 1, k * g, old)))
    merged = parts[0] if len(parts) == 1 else z3.Concat(*reversed(parts))
    spec = z3.If(z3.And(req, we == 1, z3.BoolVal(bool(cfg["writable"]))), z3.Store(mem0, a, merged), mem0)
    idx = z3.BitVec("idx", msv.aw)
    ctx.prove("mem_next", mem1[idx] == spec[idx], frames=[f0, f1], mem_replay=restore_factory)
    ctx.prove("read_data", z3.Implies(z3.And(req, we == 0), f1.val(wb.dat_r) == mem0[a]), frames=[f0, f1],
              mem_replay=restore_factory)
    # the same clause along every trace of three cycles FROM RESET (implied by the inductive clause above; kept because a
    # counterexample here is a plain input sequence that the native replay can always reproduce, whereas a counter-model of
    # the inductive clause may sit in a read-port register the simulator cannot be preloaded with)
    rs = [fr]
    for t in range(3):
        rs.append(nl.frame(f"r{t + 1}", prev=rs[-1]))
    conj = []
    for t in range(3):
        ft, fn = rs[t], rs[t + 1]
        at = z3.BitVecVal(0, msv.aw) if adr is None else _fit(ft.inp(wb.adr), msv.aw)
        reqt = z3.And(ft.val(wb.ack) == 0, ft.inp(wb.cyc) == 1, ft.inp(wb.stb) == 1, ft.inp(wb.we) == 0)
        conj.append(z3.Implies(reqt, fn.val(wb.dat_r) == ft.state[msv.idx][at]))
    ctx.prove("read_data_from_reset", z3.And(*conj), frames=rs, mem_replay=restore_factory)
    init = list(cfg["init"]) + [0] * (msv.depth - len(cfg["init"]))
    rmem = fr.state[msv.idx]
    ctx.prove("init_image", z3.And(*[rmem[z3.BitVecVal(i, msv.aw)] == z3.BitVecVal(init[i], dw) for i in range(msv.depth)]),
              frames=[fr])
    ctx.canary("ack_sticky", f1.val(wb.ack) == z3.If(z3.And(cyc == 1, stb == 1), one, zero))
    if cfg["writable"]:
        ctx.canary("mem_never_written", mem1[idx] == mem0[idx])


def main(run: Run):
    cfgs = configs(run.tier, run.seed)
    run.require(*CLAUSES)
    run.assumptions += BASE_ASSUMPTIONS_L2
    run.functions["amaranth_soc.wishbone.sram.WishboneSRAM.elaborate"] = "per-configuration (bounded: geometry/init), all inputs/states/time"
    run_configs(run, __name__, cfgs, must_accept=lambda cfg: cfg["size"] >= 2)     # the property quantifies over sizes 2..N
    from . import ctor_l1
    ctor_l1.add_to(run, ['sram_init'])
    # L1: the statements the real elaborate() issues - for every size / data width / granularity / init image (recording stubs)
    from ..pyvc.driver import discharge_all
    from ..pyvc.engine import Unsupported
    from ..common import BASE_ASSUMPTIONS_L1
    try:
        from contracts import sram_l1
        fv = sram_l1.verify_sram_elaborate()
        run.functions["amaranth_soc.wishbone.sram.WishboneSRAM.elaborate [statements issued, every geometry]"] = f"proved ({fv.paths} paths, {len(fv.obs)} obligations)"
        run.require("wishbone.sram.WishboneSRAM.elaborate::read-address-is-the-bus-address", "wishbone.sram.WishboneSRAM.elaborate::nothing-else",
                    "wishbone.sram.WishboneSRAM.elaborate::write-enable-is-select-gated-by-we")
        run.assumptions += BASE_ASSUMPTIONS_L1 + [
            "WishboneSRAM.elaborate contract: Amaranth objects are recording stubs (which statements are issued, under which If/Elif, on which whole "
            "signals); memory-port and If/Elif semantics are Amaranth's (assumed; checked per configuration by the hdlvc clauses)"]
        discharge_all(run, fv.obs, timeout_ms=10000)
    except Unsupported as e:
        run.functions["amaranth_soc.wishbone.sram.WishboneSRAM.elaborate [statements issued]"] = f"unsupported: {e} (the per-configuration clauses decide)"
        run.bounded_notes.append(f"WishboneSRAM.elaborate: outside the pyvc subset on this tree ({e}); per-configuration clauses decide")
    return run.finish(
        explanation="WishboneSRAM.elaborate contract: ack next-state function, memory next-state function (z3 array; the "
                    "netlist's own memory is the store), read data at the acknowledge, init image. From an arbitrary state, "
                    "so every bus history is covered by induction. Bounded in geometry.",
        rule="configuration = (size, data width, granularity, writable, init image); non-trivial = memory depth >= 2")
