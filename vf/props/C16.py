"""C16 -- GPIO pins follow their mode table, inputs are delayed exactly, pins independent.

Contract on gpio.Peripheral.elaborate(), flattened (real csr.Bridge, Multiplexer, registers, field actions).
Registers are found by name through bus.memory_map, fields through the public `reg.f.pin[n]`, pins through `pins[n]`.
 (i)  generic CSR-target contract (csrtarget) at the bus, at the addresses all_resources() reports;
 (ii) element/field level, from an ARBITRARY state, every other pin's inputs free (=> independence):
        mode_table    oe_n  = (mode_n == PUSH_PULL) | (mode_n == OPEN_DRAIN & !out_n);  alt_n = (mode_n == ALTERNATE);
                      oe_n => o_n = (mode_n == PUSH_PULL ? out_n : 0)
        input_delay   Input field n read data after `input_stages` clock edges = pin n's level now (any start state)
        input_pack    Input element r_data[n] = Input field n read data; Output element r_data[n] = out_n;
                      Mode element r_data[2n+1:2n] = mode_n
        setclr_code   out_n' = code==01 ? 1 : code==10 ? 0 : (Output written ? written bit n : out_n),
                      code = SetClr written ? SetClr.w_data[2n+1:2n] : 00     (at most one register strobed per cycle: C05)
        mode_write    mode_n' = Mode written ? w_data[2n+1:2n] : mode_n
        reset_state   all modes INPUT_ONLY, outputs 0 after reset
"""
import z3
from ..common import Run, BASE_ASSUMPTIONS_L2
from ..hdl.harness import run_configs, Refused
from . import csrtarget

PROP = "C16"
LEVEL = "other"
GLUE = ["geometry_as_configured", "mode_table", "input_delay", "input_pack", "setclr_code", "mode_write", "reset_state"]


def configs(tier, seed):
    cfgs = []
    if tier == "quick":
        space = [(1, 8, 4, 2), (2, 8, 4, 0), (4, 8, 4, 1), (5, 16, 4, 3), (9, 8, 6, 2), (17, 32, 4, 2), (3, 32, 3, 1), (20, 8, 6, 1)]
    else:
        space = [(p, dw, aw, st) for p in (1, 2, 3, 4, 5, 8, 9, 16, 17, 33) for dw in (8, 16, 32) for aw in (4, 6) for st in (0, 1, 2, 3)]
    for p, dw, aw, st in space:
        cfgs.append({"pins": p, "dw": dw, "aw": aw, "stages": st})
    return cfgs


def must_accept(cfg):
    """The four registers (Mode: 2 bits per pin, Input, Output: 1 bit per pin, SetClr: 2 bits per pin) are laid out by csr.Builder
    at implicit offsets, each occupying ceil(width / data_width) words rounded up to a power of two and aligned to that size
    (C17).  If that layout fits into 2**addr_width words the peripheral has no reason to refuse its parameters."""
    n, dw = cfg["pins"], cfg["dw"]
    cur = 0
    for bits in (2 * n, n, n, 2 * n):
        words = -(-bits // dw)
        size = 1 << max(0, (words - 1).bit_length())
        cur = -(-cur // size) * size + size
    return cur <= (1 << cfg["aw"])


def check_config(ctx, cfg):
    from amaranth_soc import gpio
    try:
        kw_ = {} if cfg["stages"] == 2 else {"input_stages": cfg["stages"]}               # two synchroniser stages is the documented default
        p = gpio.Peripheral(pin_count=cfg["pins"], addr_width=cfg["aw"], data_width=cfg["dw"], **kw_)
    except (ValueError, TypeError) as e:
        raise Refused(str(e))
    regs = csrtarget.regs_from_map(p.bus.memory_map)
    csrtarget.range_covers_width(ctx, regs, cfg["dw"], cfg)
    by = {R["name"]: R for R in regs}
    mode_r, in_r, out_r, sc_r = by["Mode"]["res"], by["Input"]["res"], by["Output"]["res"], by["SetClr"]["res"]
    S = lambda x: x.as_value() if hasattr(x, "as_value") else x
    probes = csrtarget.elem_signals(regs)
    n = cfg["pins"]
    for k in range(n):
        probes += [S(mode_r.f.pin[k].data), S(out_r.f.pin[k].data), S(in_r.f.pin[k].port.r_data)]
    nl = ctx.netlist(p, probes=probes)
    ctx.nontrivial = n >= 2
    # the peripheral is the one that was CONFIGURED: bus geometry, pin count, the four registers with widths 2n / n / n / 2n in the order
    # Mode, Input, Output, SetClr (the clauses below take widths and addresses from the component and its memory map)
    from amaranth_soc import csr as _csr
    order = [R["name"] for R in sorted(regs, key=lambda R: R["start"])]
    widths = {R["name"]: R["width"] for R in regs}
    geometry_ok = (p.bus.signature == _csr.Signature(addr_width=cfg["aw"], data_width=cfg["dw"]) and len(p.pins) == n and len(p.alt_mode) == n
                   and order == ["Mode", "Input", "Output", "SetClr"] and widths == {"Mode": 2 * n, "Input": n, "Output": n, "SetClr": 2 * n}
                   and p.pin_count == n and p.input_stages == cfg["stages"] and p.bus.memory_map.addr_width == cfg["aw"] and p.bus.memory_map.data_width == cfg["dw"])
    ctx.prove("geometry_as_configured", z3.BoolVal(bool(geometry_ok)))
    csrtarget.read_clauses(ctx, nl, p.bus, regs)
    csrtarget.write_clauses(ctx, nl, p.bus, regs)
    one, zero = z3.BitVecVal(1, 1), z3.BitVecVal(0, 1)
    f0 = nl.frame("p0"); f1 = nl.frame("p1", prev=f0); fr = nl.frame("pr", state=nl.reset_state())
    V = lambda f, s: f.val(S(s))
    st = cfg["stages"]
    chain = [f0]
    for i in range(st):
        chain.append(nl.frame(f"d{i}", prev=chain[-1]))
    sc_stb, sc_data = V(f0, sc_r.element.w_stb), V(f0, sc_r.element.w_data)
    o_stb, o_data = V(f0, out_r.element.w_stb), V(f0, out_r.element.w_data)
    m_stb, m_data = V(f0, mode_r.element.w_stb), V(f0, mode_r.element.w_data)
    one_strobe = z3.Not(z3.And(sc_stb == 1, o_stb == 1))
    tbl, dly, pack, sc, mw, rs = [], [], [], [], [], []
    for k in range(n):
        pin = p.pins[k]
        mode, out = V(f0, mode_r.f.pin[k].data), V(f0, out_r.f.pin[k].data)
        o, oe, alt = V(f0, pin.o), V(f0, pin.oe), z3.Extract(k, k, V(f0, p.alt_mode))
        pp, od, al = mode == 1, mode == 2, mode == 3
        tbl.append(z3.And(oe == z3.If(z3.Or(pp, z3.And(od, out == 0)), one, zero), alt == z3.If(al, one, zero),
                          z3.Implies(oe == 1, o == z3.If(pp, out, zero))))
        dly.append(V(chain[-1], in_r.f.pin[k].port.r_data) == f0.inp(S(pin.i)))
        pack.append(z3.And(z3.Extract(k, k, V(f0, in_r.element.r_data)) == V(f0, in_r.f.pin[k].port.r_data),
                           z3.Extract(k, k, V(f0, out_r.element.r_data)) == out,
                           z3.Extract(2 * k + 1, 2 * k, V(f0, mode_r.element.r_data)) == mode))
        code = z3.If(sc_stb == 1, z3.Extract(2 * k + 1, 2 * k, sc_data), z3.BitVecVal(0, 2))
        spec = z3.If(code == 1, one, z3.If(code == 2, zero, z3.If(o_stb == 1, z3.Extract(k, k, o_data), out)))
        sc.append(V(f1, out_r.f.pin[k].data) == spec)
        mw.append(V(f1, mode_r.f.pin[k].data) == z3.If(m_stb == 1, z3.Extract(2 * k + 1, 2 * k, m_data), mode))
        rs.append(z3.And(V(fr, mode_r.f.pin[k].data) == 0, V(fr, out_r.f.pin[k].data) == 0))
    ctx.prove("mode_table", z3.And(*tbl), frames=[f0])
    ctx.prove("input_delay", z3.And(*dly), frames=chain)
    ctx.prove("input_pack", z3.And(*pack), frames=[f0])
    ctx.prove("setclr_code", z3.And(*sc), [one_strobe], frames=[f0, f1])
    ctx.prove("mode_write", z3.And(*mw), frames=[f0, f1])
    ctx.prove("reset_state", z3.And(*rs), frames=[fr])
    if st >= 1:
        ctx.canary("one_stage_short", V(chain[-2], in_r.f.pin[0].port.r_data) == f0.inp(S(p.pins[0].i)))
    ctx.canary("open_drain_inverted", z3.Implies(V(f0, mode_r.f.pin[0].data) == 2,
                                                 V(f0, p.pins[0].oe) == V(f0, out_r.f.pin[0].data)))
    ctx.sat("one_strobe_satisfiable", z3.And(one_strobe, sc_stb == 1))


def main(run: Run):
    cfgs = configs(run.tier, run.seed)
    run.require(*(csrtarget.READ_CLAUSES + csrtarget.WRITE_CLAUSES + GLUE + ["range_covers_width"]))
    run.assumptions += BASE_ASSUMPTIONS_L2
    run.assumptions.append("setclr_code assumes at most one register write strobe per cycle (guaranteed by C05's w_stb_exact at the same bus)")
    run.functions["amaranth_soc.gpio.Peripheral.elaborate"] = "per-configuration (bounded: pin count, widths, input_stages); flattened with the real bridge/registers/field actions"
    run.functions["amaranth_soc.gpio.Peripheral.Output._FieldAction.elaborate"] = "per-configuration, inside the flattened peripheral"
    run_configs(run, __name__, cfgs, must_accept=must_accept)
    from . import ctor_l1
    ctor_l1.add_to(run, ['gpio_init'])
    # L1: the statements issued for one arbitrary pin of any pin count, with a synchroniser of any depth (recording hardware stubs)
    from ..pyvc.driver import discharge_all
    from ..pyvc.engine import Unsupported
    from ..common import BASE_ASSUMPTIONS_L1
    try:
        from contracts import gpio_l1
        fv = gpio_l1.verify_gpio_elaborate()
        run.functions["amaranth_soc.gpio.Peripheral.elaborate [statements issued, any pin count and synchroniser depth]"] = \
            f"proved ({fv.paths} paths, {len(fv.obs)} obligations)"
        run.require("gpio.Peripheral.elaborate::input-field-reads-the-end-of-the-chain", "gpio.Peripheral.elaborate::alternate:flag-raised-only-there",
                    "gpio.Peripheral.elaborate::nothing-else-per-pin")
        run.assumptions += BASE_ASSUMPTIONS_L1 + [
            "gpio.Peripheral.elaborate contract: Amaranth objects are recording stubs (statements issued for one arbitrary pin, synchroniser loop by "
            "invariant); their hardware meaning is Amaranth's semantics (assumed; checked per configuration by the hdlvc clauses)"]
        fo = gpio_l1.verify_output_field_elaborate()
        run.functions["amaranth_soc.gpio.Peripheral.Output._FieldAction.elaborate [statements issued]"] = f"proved ({fo.paths} paths, {len(fo.obs)} obligations)"
        run.require("gpio.Peripheral.Output._FieldAction.elaborate::a-set-or-clear-request-loads-the-set-bit",
                    "gpio.Peripheral.Output._FieldAction.elaborate::a-register-write-loads-the-written-bit",
                    "gpio.Peripheral.Output._FieldAction.elaborate::exactly-four-statements")
        discharge_all(run, fv.obs + fo.obs, timeout_ms=10000)
    except Unsupported as e:
        run.functions["amaranth_soc.gpio.Peripheral.elaborate [statements issued]"] = f"unsupported: {e} (the per-configuration clauses decide)"
        run.bounded_notes.append(f"gpio.Peripheral.elaborate: outside the pyvc subset on this tree ({e}); per-configuration clauses decide")
    return run.finish(
        explanation="GPIO contract on the flattened peripheral: mode table, exact input delay (k-step from any state), set/clear "
                    "code table and direct write, mode write, reset, register packing - every clause with all other pins' signals "
                    "free (independence) - plus the generic CSR-target contract at the bus. Bounded in pin count/geometry/stages.",
        rule="configuration = (pin count, data width, address width, input_stages); non-trivial = >= 2 pins")
