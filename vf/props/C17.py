"""C17 -- CSR builder lays registers out deterministically at the promised offsets.

Two parts:
 L1 (pyvc, unbounded): contracts on Builder.__init__/freeze/add and on the body of as_memory_map's loop (addresses, sizes
     and alignment handed to add_resource, whose own contract is C02's) -- see contracts/builder.py.
 L3 (bounded, runtime contract): random builder histories (add / Cluster / Index / freeze / explicit offsets, valid and
     invalid) compared natively with an independent reference layout computed from the property statement.
"""
import random, time
from ..common import Run, BASE_ASSUMPTIONS_L1
from ..hdl.harness import run_configs, Refused

PROP = "C17"
LEVEL = "other"
L3_CLAUSES = ["layout_matches_reference", "rejection_not_adjustment", "frozen_refuses", "names_are_scope_paths"]


def configs(tier, seed):
    rng = random.Random(seed * 3 + 17)
    n = 300 if tier == "quick" else 6000
    cfgs = []
    for i in range(n):
        dw = rng.choice([8, 8, 16, 32])
        g = rng.choice([x for x in (8, 16, 32, 4) if dw % x == 0])
        aw = rng.randint(2, 8)
        ops = []
        depth = 0
        for _ in range(rng.randint(1, 9)):
            r = rng.random()
            if r < 0.55:
                w = rng.choice([1, dw - 1, dw, dw + 1, 2 * dw, 3 * dw, 3 * dw + 1, 5 * dw, 7 * dw, 0, 8 * dw])
                off = None
                if rng.random() < 0.3:
                    off = rng.choice([0, 1, 2, 3, 4, 8, 12, 16, 20, 32, 64, -1, 6])
                ops.append(["add", rng.choice(["a", "b", "c", "d", "e", "", "a"]), w, off])
            elif r < 0.7:
                ops.append(["cluster", rng.choice(["x", "y", "", "a"])]); depth += 1
            elif r < 0.82:
                ops.append(["index", rng.choice([0, 1, 2, -1])]); depth += 1
            elif r < 0.94 and depth > 0:
                ops.append(["pop"]); depth -= 1
            elif r < 0.955:
                # an add() whose exception (if any) ESCAPES every open Cluster/Index block and is caught outside
                ops.append(["add_escape", rng.choice(["a", "b", "", "a"]), rng.choice([1, dw, 3 * dw]), rng.choice([None, None, 1, -1])])
            elif r < 0.975:
                ops.append(["freeze"])
            else:
                ops.append(["add_again"])
        cfgs.append({"aw": aw, "dw": dw, "g": g, "ops": ops})
    # the same scope value at two nesting levels (an array of clusters each holding an array of registers)
    for dw, g in ((8, 8), (32, 8)):
        ops = []
        for i in (0, 1):
            ops += [["index", i], ["cluster", "ch"]]
            for j in (0, 1):
                ops += [["index", j], ["add", "ctrl", dw, None], ["pop"]]
            ops += [["add", "status", dw, None], ["pop"], ["pop"]]
        cfgs.append({"aw": 6, "dw": dw, "g": g, "ops": ops})
        cfgs.append({"aw": 6, "dw": dw, "g": g, "ops": [["cluster", "a"], ["cluster", "b"], ["cluster", "a"], ["add", "x", dw, None], ["pop"],
                                                         ["add", "y", dw, None], ["pop"], ["add", "z", dw, None], ["pop"], ["add", "w", dw, None]]})
    # directed edge cases (independent of the random stream): layouts at the very end of the address space whose RAW size fits
    # but whose power-of-two ROUNDED size does not; an explicit offset inside a previous register; back-to-back odd sizes
    for aw in (2, 3, 4, 6):
        for dw, g in ((8, 8), (16, 8), (32, 8), (32, 32)):
            k = dw // g
            top = 1 << aw
            cfgs.append({"aw": aw, "dw": dw, "g": g, "ops": [["add", "a", 3 * dw, (top - 3) * k]]})              # 3 -> 4 words: overflows
            cfgs.append({"aw": aw, "dw": dw, "g": g, "ops": [["add", "a", dw, 0], ["add", "b", 3 * dw, (top - 4) * k]]})   # exactly fits
            cfgs.append({"aw": aw, "dw": dw, "g": g, "ops": [["add", "a", 3 * dw, 0], ["add", "b", dw, 3 * k]]})   # inside a's rounded span
            cfgs.append({"aw": aw, "dw": dw, "g": g, "ops": [["add", "a", dw + 1, None], ["add", "b", dw, None], ["add", "c", 2 * dw + 1, None]]})
            if top >= 8:
                cfgs.append({"aw": aw, "dw": dw, "g": g, "ops": [["add", "a", dw, (top - 1) * k], ["add", "b", dw, None]]})   # cursor at the end
    # an explicit offset that collides with an earlier multi-word register on its LAST word only / a later register that would cover an
    # earlier one-word register with its last word only; and the adjacent placements, which are legal
    for aw, dw, g in ((4, 8, 8), (5, 16, 8), (4, 32, 8)):
        k = dw // g
        cfgs.append({"aw": aw, "dw": dw, "g": g, "ops": [["add", "wide", 4 * dw, 0], ["add", "narrow", dw, 3 * k]]})           # last word of `wide`
        cfgs.append({"aw": aw, "dw": dw, "g": g, "ops": [["add", "narrow", dw, 3 * k], ["add", "wide", 4 * dw, 0]]})           # the other order
        cfgs.append({"aw": aw, "dw": dw, "g": g, "ops": [["add", "wide", 4 * dw, 0], ["add", "narrow", dw, 4 * k]]})           # adjacent: legal
        cfgs.append({"aw": aw, "dw": dw, "g": g, "ops": [["add", "a", dw, 7 * k], ["add", "b", dw, 0], ["add", "wide", 4 * dw, None]]})   # implicit placement must skip nothing: 4..8 collides with a
        cfgs.append({"aw": aw, "dw": dw, "g": g, "ops": [["add", "a", dw, 2 * k], ["add", "b", dw, 2 * k]]})                  # the same single word twice
    # very wide address spaces: offsets whose word address has more than 53 significant bits (exact integer arithmetic)
    for aw, dw, g in ((62, 32, 8), (56, 16, 8), (60, 8, 8), (64, 64, 16)):
        k = dw // g
        hi = (1 << (aw - 2)) + 1
        cfgs.append({"aw": aw, "dw": dw, "g": g, "ops": [["add", "a", dw, hi * k], ["add", "b", dw, None], ["add", "c", 3 * dw, None]]})
        cfgs.append({"aw": aw, "dw": dw, "g": g, "ops": [["add", "a", dw, (hi - 1) * k], ["add", "b", dw, hi * k], ["add", "c", dw, (hi + 1) * k],
                                                         ["add", "d", 2 * dw, ((1 << aw) - 2) * k]]})
        cfgs.append({"aw": aw, "dw": dw, "g": g, "ops": [["cluster", "hi"], ["add", "a", 2 * dw, ((1 << (aw - 1)) + 6) * k], ["pop"], ["add", "b", dw, ((1 << (aw - 1)) + 7) * k]]})
    return cfgs


def clog2(x):
    return 0 if x <= 1 else (x - 1).bit_length()


def reference(cfg):
    """Independent oracle written from the property statement.
    Returns (expected list of (name tuple, start, end) or None if as_memory_map must raise, accepted adds)."""
    dw, g, aw = cfg["dw"], cfg["g"], cfg["aw"]
    scope, regs, frozen = [], [], False
    events = []         # per op: 'ok' | exception class expected
    added = 0
    for op in cfg["ops"]:
        if op[0] == "cluster":
            if isinstance(op[1], str) and op[1]:
                scope.append(op[1]); events.append("ok")
            else:
                events.append("TypeError")
        elif op[0] == "index":
            if isinstance(op[1], int) and op[1] >= 0:
                scope.append(op[1]); events.append("ok")
            else:
                events.append("TypeError")
        elif op[0] == "pop":
            if scope:
                scope.pop()
            events.append("pop")
        elif op[0] == "freeze":
            frozen = True; events.append("ok")
        elif op[0] == "add_again":
            events.append("ValueError" if regs or frozen else "skip")
        elif op[0] == "add_escape":
            _, name, w, off = op
            if frozen:
                ev_ = "ValueError"
            elif not (isinstance(name, str) and name):
                ev_ = "TypeError"
            elif off is not None and not (isinstance(off, int) and off >= 0):
                ev_ = "TypeError"
            elif off is not None and off % (dw // g) != 0:
                ev_ = "ValueError"
            else:
                ev_ = "ok"; regs.append((tuple(scope) + (name,), w, off))
            if ev_ != "ok":
                scope.clear()          # the exception unwinds every open `with` block
            events.append(ev_)
        else:
            _, name, w, off = op
            if frozen:
                events.append("ValueError")
            elif not (isinstance(name, str) and name):
                events.append("TypeError")
            elif off is not None and not (isinstance(off, int) and off >= 0):
                events.append("TypeError")
            elif off is not None and off % (dw // g) != 0:
                events.append("ValueError")
            else:
                regs.append((tuple(scope) + (name,), w, off)); events.append("ok")
    # layout
    cursor, placed, names = 0, [], []
    ok = True
    for name, w, off in regs:
        size = max(1, -(-w // dw))
        span = 1 << clog2(size)
        if off is not None:
            start = off * g // dw
        else:
            start = -(-cursor // span) * span
        end = start + span
        if end > (1 << aw) or any(s < end and start < e for _, s, e in placed):
            ok = False; break
        if any(n == name or n[:len(name)] == name or name[:len(n)] == n for n in names):
            ok = False; break
        placed.append((name, start, end)); names.append(name); cursor = end
    return (placed if ok else None), events


def check_config(ctx, cfg):
    import contextlib
    from amaranth_soc import csr
    from amaranth_soc.csr import action
    expected, events = reference(cfg)
    b = csr.Builder(addr_width=cfg["aw"], data_width=cfg["dw"], granularity=cfg["g"])
    stack = contextlib.ExitStack()
    scopes = []
    problems = []
    last_reg = None
    frozen_seen = False
    with stack:
        for op, ev in zip(cfg["ops"], events):
            try:
                if op[0] == "cluster":
                    cm = b.Cluster(op[1]); cm.__enter__(); scopes.append(cm); got = "ok"
                elif op[0] == "index":
                    cm = b.Index(op[1]); cm.__enter__(); scopes.append(cm); got = "ok"
                elif op[0] == "pop":
                    if scopes:
                        try:
                            scopes.pop().__exit__(None, None, None)
                        except Exception as e2:
                            problems.append(f"leaving a scope block raised {type(e2).__name__}: scope stack out of step")
                    got = "pop"
                elif op[0] == "freeze":
                    b.freeze(); got = "ok"; frozen_seen = True
                elif op[0] == "add_escape":
                    _, name, w, off = op
                    reg = csr.Register(csr.Field(action.RW, w), access="rw")
                    try:
                        r = b.add(name, reg, offset=off)
                        got = "ok" if r is reg else "wrong-return"
                        last_reg = reg
                    except (ValueError, TypeError) as e:
                        # propagate the exception out of every open scope block, innermost first, as `with` would
                        import sys as _sys
                        info = (type(e), e, e.__traceback__)
                        while scopes:
                            cm = scopes.pop()
                            try:
                                cm.__exit__(*info)
                            except type(e):
                                pass
                            except Exception as e2:
                                problems.append(f"leaving a scope block while {type(e).__name__} propagates raised {type(e2).__name__}")
                        got = type(e).__name__
                elif op[0] == "add_again":
                    if last_reg is None and not frozen_seen:
                        got = "skip"
                    else:
                        b.add("again", last_reg or csr.Register(csr.Field(action.RW, 1), access="rw")); got = "ok"
                else:
                    _, name, w, off = op
                    reg = csr.Register(csr.Field(action.RW, w), access="rw")
                    r = b.add(name, reg, offset=off)
                    got = "ok" if r is reg else "wrong-return"
                    last_reg = reg
            except (ValueError, TypeError) as e:
                got = type(e).__name__
            except Exception as e:          # an internal error (failing assert, IndexError ...) is neither acceptance nor a proper refusal
                got = "internal-" + type(e).__name__
            if ev == "skip" or got == "skip":
                continue
            if got != ev:
                problems.append(f"op {op}: expected {ev}, got {got}")
        for cm in reversed(scopes):
            try:
                cm.__exit__(None, None, None)
            except Exception as e2:
                problems.append(f"leaving a scope block raised {type(e2).__name__}: scope stack out of step")
    rej = [p for p in problems]
    try:
        mm = b.as_memory_map()
        got_layout = [(tuple(n), s, e) for _, n, (s, e) in mm.resources()]
        raised = None
    except (ValueError, TypeError) as e:
        got_layout, raised = None, type(e).__name__
    except Exception as e:
        got_layout, raised = None, "internal-" + type(e).__name__
        problems.append(f"as_memory_map() ended in an internal error: {type(e).__name__}")
    # asking again gives the same answer: a rejected layout is rejected again (nothing half-built is handed out later), an accepted
    # one yields the same placement
    try:
        mm2 = b.as_memory_map()
        again = [(tuple(n), s, e) for _, n, (s, e) in mm2.resources()]
        raised2 = None
    except Exception as e:
        again, raised2 = None, type(e).__name__ if isinstance(e, (ValueError, TypeError)) else "internal-" + type(e).__name__
    same_answer = (again == got_layout and raised2 == raised)
    frozen_ok = True
    try:
        b.add("late", csr.Register(csr.Field(action.RW, 1), access="rw")); frozen_ok = False
    except ValueError:
        pass
    except TypeError:
        frozen_ok = False

    def res(clause, ok, detail):
        ctx.results.append({"name": f"{clause}@{ctx.key}", "clause": clause, "status": "discharged" if ok else "failed", "time": 0.0,
                            "replay": {"confirmed": True, "how": "native: this builder history replayed on the real csr.Builder",
                                       "detail": detail}, "cfg": cfg, "known_key": f"{clause}", "solver": "native evaluation"})
    if expected is None:
        res("rejection_not_adjustment", got_layout is None and again is None,
            f"reference says the layout must be rejected; builder produced {got_layout}" + (f", and on a second as_memory_map() call {again}" if again is not None else ""))
        res("layout_matches_reference", True, "")
    else:
        exp_sorted = sorted(expected, key=lambda t: t[1])
        res("layout_matches_reference", got_layout == exp_sorted and same_answer,
            f"expected {exp_sorted}, got {got_layout} (raised {raised})" + ("" if same_answer else f"; a second as_memory_map() call gave {again} (raised {raised2})"))
        res("rejection_not_adjustment", True, "")
    res("frozen_refuses", frozen_ok, "add() after as_memory_map()/freeze() must raise ValueError")
    internal = [p_ for p_ in problems if "internal error" in p_] + ([f"second as_memory_map(): {raised2}"] if str(raised2).startswith("internal-") else [])
    res("names_are_scope_paths", not rej and not internal, "; ".join(rej + internal))
    ctx.nontrivial = expected is not None and len(expected) >= 2


def main(run: Run):
    cfgs = configs(run.tier, run.seed)
    run.require(*L3_CLAUSES)
    run.assumptions += ["L3 part is a bounded stand-in: random builder histories compared natively with a reference layout written "
                        "from the property statement (never counted as proved)"]
    run.bounded_notes.append("Cluster/Index scopes, rejection behaviour and whole-history layouts: bounded (runtime contract vs reference model)")
    run_configs(run, __name__, cfgs)
    from . import C17_l1
    C17_l1.add_to(run)
    return run.finish(
        explanation="L1: Builder.__init__/freeze/add and the as_memory_map loop body under contract, VCs by pyvc (unbounded in "
                    "arguments and builder state). L3: random builder histories incl. Cluster/Index scopes and invalid calls "
                    "compared natively with an independent reference layout (bounded).",
        rule="configuration = builder geometry + a history of add/Cluster/Index/pop/freeze operations; non-trivial = >= 2 registers placed")
