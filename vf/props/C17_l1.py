"""L1 part of C17: Builder contracts (contracts/builder.py)."""
from ..pyvc.driver import discharge_all
from ..pyvc.engine import Unsupported
from ..common import BASE_ASSUMPTIONS_L1


def add_to(run):
    from contracts import builder as c
    obs = []
    for f in c.ALL:
        try:
            fv = f()
        except Unsupported as e:
            run.functions[f.__name__] = f"unsupported: {e} (decided by the bounded part only)"
            run.bounded_notes.append(f"{f.__name__}: outside the pyvc subset on this tree ({e}); bounded part decides")
            continue
        run.functions["amaranth_soc." + fv.qualname] = f"proved ({fv.paths} paths, {len(fv.obs)} obligations)"
        obs += fv.obs
    run.assumptions += BASE_ASSUMPTIONS_L1 + ["ceil_log2 (amaranth.utils) characterised by axioms (assumed dependency contract)",
                                              "MemoryMap.add_resource behaves as its C02 contract says (placement, rounding, refusal)"]
    discharge_all(run, obs, timeout_ms=15000)
