def add_to(run):
    pass
