"""C18 -- names in a memory map are unique and prefix-free; conflicts are refused.

Bounded stand-in (runtime contract vs. reference predicate), labelled bounded:
  pair_exact       EXHAUSTIVE over all ordered pairs of names of length <= 3 over the parts {'a','b','0',0,1}: the second
                   add_resource is accepted iff the two names are not prefix-related (equal / prefix / extension)
  history_exact    random histories on trees (resources, named windows, anonymous windows absorbing names): every
                   add_resource/add_window is accepted iff the reference predicate over the VISIBLE names says so
  refusal_atomic   a refused call changes no query result
  paths_distinct   all_resources() paths of every map are pairwise distinct
  name_validation  MemoryMap.Name accepts exactly non-empty tuples (or strings) of non-empty strings / non-negative ints
L1 (pyvc, unbounded): _Namespace.is_available (three nested loops with explicit invariants), assign and extend are verified
against contracts in contracts/namespace.py: availability <=> no query is prefix-related to an assigned name; the
namespace stays prefix-free.  The MemoryMap-level steps (which names an add_* call queries, refusal atomicity, path
distinctness through windows) and Name validation remain the bounded part below.
"""
import itertools, random
from ..common import Run
from ..hdl.harness import run_configs

PROP = "C18"
LEVEL = "other"
CLAUSES = ["pair_exact", "history_exact", "refusal_atomic", "paths_distinct", "name_validation"]
PARTS = ["ab", "ba", "300", 300, 301]     # multi-character strings and ints beyond CPython's small-int cache: every use builds a NEW object


def all_names(maxlen=3):
    out = []
    for n in range(1, maxlen + 1):
        out += [list(t) for t in itertools.product(range(len(PARTS)), repeat=n)]
    return out


def configs(tier, seed):
    rng = random.Random(seed + 18)
    names = all_names(3)
    cfgs = []
    # exhaustive pairs, chunked
    chunk = 25
    for i in range(0, len(names), chunk):
        cfgs.append({"kind": "pairs", "first": names[i:i + chunk]})
    n = 400 if tier == "quick" else 8000
    for _ in range(n):
        cfgs.append({"kind": "history", "seed": rng.getrandbits(32)})
    cfgs.append({"kind": "validation"})
    cfgs.append({"kind": "shared"})
    return cfgs


def related(a, b):
    k = min(len(a), len(b))
    return tuple(a[:k]) == tuple(b[:k])


def mk(n):
    # equal values, fresh objects on every call (names are compared by value, never by identity)
    return tuple(int(str(PARTS[i])) if isinstance(PARTS[i], int) else "".join(list(PARTS[i])) for i in n)


def spell(name, rng):
    """the same name in another legal spelling: a one-part string name as a plain str, any name as a MemoryMap.Name object"""
    from amaranth_soc.memory import MemoryMap
    if name is None:
        return None
    # every part is a FRESH object with an equal value (names compare by value: a string built at run time, an int computed at run time)
    fresh = lambda p_: int(str(p_)) + 0 if isinstance(p_, int) else "".join([c for c in p_] + [""])
    name = tuple(fresh(p_) for p_ in name)
    r = rng.random()
    if r < 0.25 and len(name) == 1 and isinstance(name[0], str):
        return name[0]
    if r < 0.5:
        return MemoryMap.Name(name)
    return name


def snapshot(m):
    return ([(id(r), tuple(n), rg) for r, n, rg in m.resources()], [(id(w), None if n is None else tuple(n), rg) for w, n, rg in m.windows()],
            sorted(repr(tuple(i.path)) for i in m.all_resources()), m.align_to(0))


def check_config(ctx, cfg):
    from amaranth.lib import wiring
    from amaranth_soc.memory import MemoryMap

    class R(wiring.Component):
        def __init__(self):
            super().__init__({})

    def res(clause, ok, detail, key=None):
        ctx.results.append({"name": f"{clause}@{ctx.key}", "clause": clause, "status": "discharged" if ok else "failed", "time": 0.0,
                            "replay": {"confirmed": True, "how": "native: this call sequence on the real MemoryMap", "detail": detail},
                            "cfg": cfg, "known_key": key or clause, "solver": "native evaluation"})
    if cfg["kind"] == "validation":
        bad = []
        cases = [("a", True), ("", False), (("a",), True), ((), False), (("a", 0), True), ((0,), True), ((-1,), False), (("",), False),
                 ((1.5,), False), (None, False), (["a"], False), (("a", ("b",)), False), (0, False), (("a", True), True)]
        for val, ok in cases:
            try:
                MemoryMap.Name(val); got = True
            except TypeError:
                got = False
            except Exception as e:
                got = f"{type(e).__name__}"
            if got != ok:
                bad.append((repr(val), ok, got))
        res("name_validation", not bad, str(bad))
        return
    if cfg["kind"] == "shared":
        # one window map added anonymously to two parents; the first parent gets more names in between: the window must
        # still claim only its OWN names when the second parent asks
        bad = []
        names = [("a",), ("b",), ("a", "x"), ("c", 0)]
        for first_is_empty in (True, False):
            for cn in (["c"], ["c", "d"]):
                for later in names:
                    for p2name in names:
                        child = MemoryMap(addr_width=2, data_width=8)
                        for n_ in cn:
                            child.add_resource(R(), name=n_, size=1)
                        p1 = MemoryMap(addr_width=6, data_width=8)
                        if not first_is_empty:
                            p1.add_resource(R(), name="first", size=1)
                        p1.add_window(child)
                        if any(related(later, (c_,)) for c_ in cn) or (not first_is_empty and related(later, ("first",))):
                            continue
                        p1.add_resource(R(), name=later, size=1)
                        p2 = MemoryMap(addr_width=6, data_width=8)
                        p2.add_resource(R(), name=p2name, size=1)
                        expect = not any(related(p2name, (c_,)) for c_ in cn)
                        try:
                            p2.add_window(child); got = True
                        except ValueError:
                            got = False
                        except Exception as e:      # an internal error (e.g. a failing assert) is neither acceptance nor refusal
                            got = None; bad.append(("add_window raised", type(e).__name__, cn, later, p2name)); continue
                        if got != expect:
                            bad.append((first_is_empty, cn, later, p2name, "accepted" if got else "refused"))
                        own = sorted(tuple(i.path[-1]) for i in child.all_resources())
                        if own != sorted((c_,) for c_ in cn):
                            bad.append(("window's own resources changed", cn, own))
        # nested anonymous windows: a map that absorbed names from an anonymous window of its own is itself added anonymously;
        # the names it absorbed count (at every depth), and a refusal leaves parent and window exactly as they were
        for depth in (1, 2, 3):
            for clash_at in (None,) + tuple(range(depth + 1)):
                for parent_name in (("ctrl",), ("ctrl", "x")):
                    lvl = []
                    inner = None
                    for d in range(depth, -1, -1):              # innermost first
                        mp = MemoryMap(addr_width=4 + (depth - d), data_width=8)
                        own = ("ctrl",) if clash_at == d else (f"own{d}",)
                        mp.add_resource(R(), name=own, size=1)
                        if inner is not None:
                            mp.add_window(inner)
                        lvl.append(own); inner = mp
                    top = MemoryMap(addr_width=8, data_width=8)
                    top.add_resource(R(), name=parent_name, size=1)
                    before_top, before_win = snapshot(top), snapshot(inner)
                    expect = clash_at is None
                    try:
                        top.add_window(inner); got = True
                    except ValueError:
                        got = False
                    except Exception as e:
                        bad.append(("add_window of nested anonymous windows raised", type(e).__name__, depth, clash_at, parent_name)); continue
                    if got != expect:
                        bad.append(("nested anonymous windows", depth, clash_at, parent_name, "accepted" if got else "refused"))
                    if not got:
                        if snapshot(top) != before_top or snapshot(inner) != before_win:
                            bad.append(("refused nested window left a trace", depth, clash_at, parent_name))
                        try:
                            inner.add_resource(R(), name="still_open", size=1)
                        except ValueError as e:
                            if "out of bounds" not in str(e) and "overlaps" not in str(e):      # a full map refuses for space: not a naming fact
                                bad.append(("refused nested window is no longer open", str(e)[:60]))
                    else:
                        paths = [tuple(map(tuple, i.path)) for i in top.all_resources()]
                        if len(set(paths)) != len(paths) or len(paths) != depth + 2:
                            bad.append(("paths after nested anonymous windows", paths))
        # nested NAMED windows: every level's window name stays in the path, so equal leaf names under different windows stay distinct
        for depth in (2, 3, 4):
            top = None
            expect_paths = []
            leaves = []
            for branch in ("uart0", "uart1"):
                inner = MemoryMap(addr_width=2, data_width=8); inner.add_resource(R(), name="ctrl", size=1)
                chain = [branch]
                for d in range(depth - 2):
                    mid = MemoryMap(addr_width=3 + d, data_width=8); mid.add_window(inner, name=f"l{d}"); inner = mid; chain.insert(0, None); chain[0] = f"l{d}"
                leaves.append((inner, branch, [f"l{d}" for d in range(depth - 3, -1, -1)]))
            periph = MemoryMap(addr_width=8, data_width=8)
            for inner, branch, mids in leaves:
                periph.add_window(inner, name=branch)
                expect_paths.append(("periph", branch) + tuple(mids) + ("ctrl",))
            root = MemoryMap(addr_width=10, data_width=8); root.add_window(periph, name="periph")
            got = [tuple(".".join(map(str, part)) for part in i.path) for i in root.all_resources()]
            if sorted(got) != sorted(expect_paths) or len(set(got)) != len(got):
                bad.append(("nested named windows: reported paths", got, "expected", expect_paths))
            for i in root.all_resources():
                if tuple(map(tuple, root.find_resource(i.resource).path)) != tuple(map(tuple, i.path)):
                    bad.append(("find_resource path differs from all_resources path", got))
        res("history_exact", not bad, "shared / nested windows: " + str(bad[:3]))
        ctx.nontrivial = True
        return
    if cfg["kind"] == "pairs":
        names = all_names(3)
        bad = []
        for f in cfg["first"]:
            for s in names:
                m = MemoryMap(addr_width=4, data_width=8)
                m.add_resource(R(), name=mk(f), size=1)
                before = snapshot(m)
                try:
                    m.add_resource(R(), name=mk(s), size=1); ok = True
                except ValueError:
                    ok = False
                except Exception as e:
                    bad.append(("add_resource raised", type(e).__name__, mk(f), mk(s))); continue
                if ok == related(mk(f), mk(s)):
                    bad.append((mk(f), mk(s), ok))
                if not ok and snapshot(m) != before:
                    bad.append(("state changed by refused add", mk(f), mk(s)))
        res("pair_exact", not bad, str(bad[:5]))
        ctx.nontrivial = True
        return
    rng = random.Random(cfg["seed"])
    pool = [mk(n) for n in all_names(3)]
    bad_hist, bad_atomic, log = [], [], []

    def visible(m, vis):
        return vis[id(m)]

    maps = []
    vis = {}

    def new_map():
        m = MemoryMap(addr_width=rng.randint(3, 6), data_width=8)
        vis[id(m)] = []
        maps.append(m)
        return m
    root = new_map()
    frozen = set()
    used_children = []
    for step in range(rng.randint(3, 12)):
        target = rng.choice([m for m in maps if id(m) not in frozen] or [root])
        if id(target) in frozen:
            break
        op = rng.random()
        before = snapshot(target)
        if op < 0.6:
            name = rng.choice(pool)
            expect = not any(related(name, v) for v in vis[id(target)])
            try:
                target.add_resource(R(), name=spell(name, rng), size=1); got = True
            except ValueError as e:
                got = False
                if "namespace" not in str(e):
                    continue        # refused for another reason (out of space): not a naming fact
            except Exception as e:
                bad_hist.append(("add_resource raised", type(e).__name__, name, list(vis[id(target)]))); break
            log.append(("res", name, got))
            if got != expect:
                bad_hist.append(("add_resource", name, list(vis[id(target)]), "accepted" if got else "refused"))
            if got:
                vis[id(target)].append(name)
            elif snapshot(target) != before:
                bad_atomic.append(("add_resource", name))
        elif op < 0.72 and used_children:
            # the SAME window map added (anonymously or not) to another parent: its own names must be all it claims
            child = rng.choice(used_children)
            if child.addr_width > target.addr_width or child is target:
                continue
            anonymous = rng.random() < 0.7
            name = None if anonymous else rng.choice(pool)
            queries = list(vis[id(child)]) if anonymous else [name]
            expect = not any(related(qn, v) for qn in queries for v in vis[id(target)])
            try:
                target.add_window(child, name=spell(name, rng)); got = True
            except ValueError as e:
                got = False
                if "namespace" not in str(e):
                    continue
            except Exception as e:
                bad_hist.append(("add_window raised", type(e).__name__, name, queries, list(vis[id(target)]))); break
            log.append(("rewin", name, queries, got))
            if got != expect:
                bad_hist.append(("add_window(shared window)", name, queries, list(vis[id(target)]), "accepted" if got else "refused"))
            if got:
                vis[id(target)] += queries
            elif snapshot(target) != before:
                bad_atomic.append(("add_window", name))
        else:
            # the window: a fresh map with a few resources - or a map built earlier in this history that is still open (it may hold
            # windows of its own, named and anonymous: names it absorbed from anonymous sub-windows count as its own)
            older = [m for m in maps if id(m) not in frozen and m is not root and m is not target]
            if older and rng.random() < 0.35:
                child = rng.choice(older)
            else:
                child = new_map()
                for _ in range(rng.randint(0, 3)):
                    nm = rng.choice(pool)
                    if not any(related(nm, v) for v in vis[id(child)]):
                        child.add_resource(R(), name=nm, size=1); vis[id(child)].append(nm)
            if child.addr_width > target.addr_width:
                continue
            anonymous = rng.random() < 0.6
            name = None if anonymous else rng.choice(pool)
            queries = list(vis[id(child)]) if anonymous else [name]
            expect = not any(related(qn, v) for qn in queries for v in vis[id(target)])
            try:
                target.add_window(child, name=spell(name, rng)); got = True
            except ValueError as e:
                got = False
                if "namespace" not in str(e):
                    continue
            except Exception as e:
                bad_hist.append(("add_window raised", type(e).__name__, name, queries, list(vis[id(target)]))); break
            log.append(("win", name, queries, got))
            if not got:
                # "raises and changes nothing": a refused window is still open - a legal name can still be added to it
                try:
                    fresh_name = ("zz_after_refusal", len(log))
                    child.add_resource(R(), name=fresh_name, size=1); vis[id(child)].append(fresh_name)
                except ValueError as e:
                    if "out of bounds" not in str(e) and "overlaps" not in str(e):          # a full map refuses for space: not a naming fact
                        bad_atomic.append(("add_window refused, and afterwards the window refuses a legal name", str(e)[:80]))
            if got != expect:
                bad_hist.append(("add_window", name, queries, list(vis[id(target)]), "accepted" if got else "refused"))
            if got:
                frozen.add(id(child))
                used_children.append(child)
                vis[id(target)] += queries
            elif snapshot(target) != before:
                bad_atomic.append(("add_window", name))
    dup = []
    for m in maps:
        paths = [tuple(i.path) for i in m.all_resources()]
        if len(paths) != len(set(paths)):
            dup.append(sorted(paths, key=repr))
    res("history_exact", not bad_hist, str(bad_hist[:3]) + " log=" + str(log[-6:]))
    res("refusal_atomic", not bad_atomic, str(bad_atomic[:3]))
    res("paths_distinct", not dup, str(dup[:2]))
    ctx.nontrivial = len(log) >= 3


def main(run: Run):
    cfgs = configs(run.tier, run.seed)
    run.require(*CLAUSES)
    run.assumptions += ["bounded stand-in: runtime contract (reference prefix-relatedness predicate) evaluated natively; pairs are exhaustive "
                        "for names of length <= 3 over 5 parts, histories are seeded random; nothing here is counted as proved"]
    run.functions["amaranth_soc.memory._Namespace.is_available/assign/extend/names"] = "bounded (runtime contract)"
    run.functions["amaranth_soc.memory.MemoryMap.Name.__new__"] = "bounded (runtime contract)"
    run.bounded_notes.append("whole property: bounded")
    run_configs(run, __name__, cfgs)
    from . import C18_l1
    C18_l1.add_to(run)
    return run.finish(
        explanation="Runtime contract for the namespace: acceptance must equal the reference predicate 'not prefix-related to any visible "
                    "name' (exhaustive for all ordered pairs of names up to length 3 over {'a','b','0',0,1}; random histories over trees with "
                    "named and anonymous windows), refusals are atomic, reported paths are pairwise distinct. Bounded, not a proof.",
        rule="case = one exhaustive chunk of name pairs, or one random history; non-trivial = history with >= 3 naming decisions",
        exhaustive=False)
