"""L1 part of C18: _Namespace contracts (contracts/namespace.py)."""
from ..pyvc.driver import discharge_all
from ..pyvc.engine import Unsupported
from ..common import BASE_ASSUMPTIONS_L1


def add_to(run):
    from contracts import namespace as c
    from contracts import naming
    obs = []
    done = set()
    for f in c.ALL + naming.ALL:
        try:
            fv = f()
        except Unsupported as e:
            run.functions[f.__name__] = f"unsupported: {e} (bounded part decides)"
            run.bounded_notes.append(f"{f.__name__}: outside the pyvc subset on this tree ({e}); bounded part decides")
            continue
        run.functions["amaranth_soc.memory." + fv.qualname] = f"proved ({fv.paths} paths, {len(fv.obs)} obligations)"
        done.add(fv.qualname)
        obs += fv.obs
    # vacuity guard: a function that WAS read must have produced its key clauses (one outside the subset is reported above)
    req = ["_Namespace.is_available::available-iff-no-query-is-related-to-an-assigned-name",
           "MemoryMap.add_resource[naming]::accepted-name-is-valid-and-unrelated", "MemoryMap.add_resource[naming]::refusal-has-a-reason",
           "MemoryMap.add_window[naming]::visible-names-absorb-the-window", "MemoryMap.add_window[naming]::refusal-leaves-names-unchanged",
           "MemoryMap.add_resource[naming]::origins-preserved:resource-names-visible-and-own",
           "MemoryMap.add_window[naming]::origins-preserved:absorbed-names-visible-and-from-their-window",
           "MemoryMap.all_resources[paths]::first-path-element-is-a-visible-name-originating-from-the-range-entry",
           "MemoryMap.all_resources[paths]::paths-through-different-entries-start-with-unrelated-names"]
    run.require(*[r for r in req if r.split("::")[0] in done])
    run.assumptions += BASE_ASSUMPTIONS_L1 + [
        "name parts are values of an uninterpreted sort with equality; Len(name) >= 1 (MemoryMap.Name refuses empty names: bounded clause name_validation)",
        "sorted() returns a permutation of its input and `|`/set() build the union (assumed stdlib contracts)",
        "is_available's contract requires pairwise unrelated queries (a single name, or the names of one prefix-free namespace)",
        "MemoryMap level (contracts/naming.py): the visible-name set of every map is prefix-free (established by __init__ with the empty "
        "set, preserved by add_resource/add_window: obligations namespace-stays-prefix-free); refusals that come out of the placement "
        "step (_compute_addr_range) are C02's business and are excluded from `refusal-has-a-reason`",
        "path distinctness: SMT half = origin-of-names invariant (ghost Src) preserved by add_resource/add_window + first path element of every "
        "all_resources() yield is a visible name originating from its range entry; structural half (prefixing keeps lists duplicate-free, "
        "lists starting differently are disjoint, one level of the tree) proved in Lean (lemmas/Paths.lean); the induction over the height "
        "of the tree combines them (child = same contract); NSc(child, x) is the child's visible-name set, constant once the child is frozen"]
    from ..lean_check import status as _ls
    run.extra["lean_lemmas"] = {"files": _ls(), "used": "Paths.lean: prefixed_nodup, disjoint_of_heads, level_nodup"}
    for _f, _st in run.extra["lean_lemmas"]["files"].items():
        if _st != "accepted":
            run.assumptions.append(f"Lean lemma file {_f} is '{_st}': what it backs is TRUSTED in this run")
    discharge_all(run, obs, timeout_ms=30000)
