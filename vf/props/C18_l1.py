"""L1 part of C18: _Namespace contracts (contracts/namespace.py)."""
from ..pyvc.driver import discharge_all
from ..pyvc.engine import Unsupported
from ..common import BASE_ASSUMPTIONS_L1


def add_to(run):
    from contracts import namespace as c
    obs = []
    for f in c.ALL:
        try:
            fv = f()
        except Unsupported as e:
            run.functions[f.__name__] = f"unsupported: {e} (bounded part decides)"
            run.bounded_notes.append(f"{f.__name__}: outside the pyvc subset on this tree ({e}); bounded part decides")
            continue
        run.functions["amaranth_soc.memory." + fv.qualname] = f"proved ({fv.paths} paths, {len(fv.obs)} obligations)"
        obs += fv.obs
    run.require("_Namespace.is_available::available-iff-no-query-is-related-to-an-assigned-name")
    run.assumptions += BASE_ASSUMPTIONS_L1 + [
        "name parts are values of an uninterpreted sort with equality; Len(name) >= 1 (MemoryMap.Name refuses empty names: bounded clause name_validation)",
        "sorted() returns a permutation of its input and `|`/set() build the union (assumed stdlib contracts)",
        "is_available's contract requires pairwise unrelated queries (a single name, or the names of one prefix-free namespace)"]
    discharge_all(run, obs, timeout_ms=20000)
