"""C19 -- every accepted component elaborates, terminates, and does so repeatably.

Runtime contract (bounded stand-in, labelled so) on every component class's __init__/elaborate(), evaluated natively:
  construct  -> either ValueError/TypeError raised by an explicit `raise` in amaranth_soc (a refusal), or an object
  elaborates    Fragment.get succeeds, or refuses with an explicit ValueError/TypeError raised by amaranth_soc itself
  terminates    within a wall-clock / recursion guard
  repeatable    three elaborations of ONE instance give byte-identical RTLIL
  metadata_kept memory_map.all_resources() (and window lists) are the same before and after
Plus (static, advisory): an AST effect scan of every elaborate() for stores to / mutating calls on `self`.
The termination measure of _Shadow.prepare() is an L1 obligation (see shadow_l1).
"""
import random, signal, sys, traceback, time
from ..common import Run
from ..hdl.harness import run_configs, Refused

PROP = "C19"
LEVEL = "exploration"
CLAUSES = ["elaborates", "terminates", "repeatable", "metadata_kept", "no_trace_of_earlier_elaboration"]


class Internal(Exception):
    pass


from ..hdl.harness import is_refusal


def where(exc):
    tb = traceback.extract_tb(exc.__traceback__)
    soc = [f for f in tb if "amaranth_soc" in f.filename]
    f = soc[-1] if soc else (tb[-1] if tb else None)
    return f"{f.filename.split('amaranth_soc/')[-1]}:{f.name}" if f else "?"


# ---- configuration space ---------------------------------------------------------------------
def configs(tier, seed):
    from . import C06, C07, C10, C12, C13, C15, mux, arbiter, C11
    rng = random.Random(seed + 19)
    out = []

    def take(kind, lst, n):
        lst = list(lst)
        if tier == "quick" and len(lst) > n:
            head = lst[: n // 2]
            lst = head + rng.sample(lst[n // 2:], n - len(head))
        for k_, c in enumerate(lst):
            out.append({"kind": kind, "cfg": c})
            if k_ % 3 == 0 and len(lst) > 1:
                # another component of the same class, with other parameters, is built between this one's construction and its
                # elaboration: instances must not share state through their class or module
                out[-1]["decoy"] = lst[(k_ + 1) % len(lst)]
    take("mux", mux.configs(tier, seed, 19), 50)
    take("csr_decoder", C06.configs(tier, seed), 25)
    take("wb_decoder", C07.configs(tier, seed), 40)
    take("arbiter", arbiter.configs(tier, seed, 19), 30)
    take("wb_csr_bridge", C10.configs(tier, seed), 25)
    take("action", C12.configs(tier, seed), 40)
    take("monitor", C13.configs(tier, seed), 20)
    take("sram", C15.configs(tier, seed), 25)
    take("register", C11.configs(tier, seed), 40)
    # edge geometries named in DESIGN.md
    out.append({"kind": "arbiter", "cfg": {"aw": 3, "dw": 8, "agran": 8, "n": 0, "afeat": [], "ifeats": [], "igrans": []}})
    out.append({"kind": "wb_decoder", "cfg": {"aw": 0, "dw": 8, "g": 8, "feat": [], "align": 0,
                                              "subs": [{"aw": 0, "feat": [], "sparse": False, "name": None, "addr": None}]}})
    out.append({"kind": "wb_decoder", "cfg": {"aw": 0, "dw": 32, "g": 8, "feat": [], "align": 0,
                                              "subs": [{"aw": 0, "feat": [], "sparse": False, "name": "s", "addr": None}]}})
    for ne in (0, 1, 3, 8, 9, 20):
        for dw in (8, 16, 32):
            for al in (0, 1, 3):
                if tier == "quick" and (ne, dw, al) not in ((0, 8, 0), (1, 8, 0), (3, 8, 1), (9, 8, 0), (20, 16, 3), (8, 32, 0)):
                    continue
                out.append({"kind": "csr_event_monitor", "cfg": {"n": ne, "dw": dw, "align": al, "trigger": rng.choice(["level", "rise", "fall"])}})
    for pins, dw, aw, st in [(1, 8, 4, 2), (4, 8, 4, 0), (5, 16, 4, 1), (9, 8, 6, 3), (17, 32, 4, 2)]:
        out.append({"kind": "gpio", "cfg": {"pins": pins, "dw": dw, "aw": aw, "stages": st}})
    # register bridges built with csr.Builder: clusters, indices, explicit offsets
    out.append({"kind": "csr_bridge", "cfg": {"aw": 6, "dw": 8, "g": 8, "regs": [["a", [], 8, None], ["b", [["c", "clu"]], 24, None], ["c", [["i", 0]], 8, None], ["c", [["i", 1]], 8, 0x20]]}})
    out.append({"kind": "csr_bridge", "cfg": {"aw": 5, "dw": 32, "g": 8, "regs": [["x", [["c", "p"], ["i", 3]], 40, None], ["y", [], 1, 8]]}})
    out.append({"kind": "csr_bridge", "cfg": {"aw": 4, "dw": 16, "g": 8, "regs": [["only", [], 16, None]]}})
    out.append({"kind": "csr_bridge", "cfg": {"aw": 4, "dw": 8, "g": 8, "regs": []}})
    # ROUTE INDEPENDENCE: the same final configuration reached by another legal route through the API (other spellings of an
    # argument, refused calls in between, an elaboration part-way, registers added after the multiplexer was constructed, the
    # image assigned through a property) must give the very same hardware as the plain route
    def reroute(kind, c_):
        c2 = dict(c_)
        for k_ in ("refused_before", "elab_before", "enum_features", "late", "elab_between", "init_as", "ctor_init"):
            c2.pop(k_, None)
        plain = dict(c2)
        if kind in ("csr_decoder", "wb_decoder"):
            n_ = len(c2["subs"])
            if rng.random() < 0.6:
                c2["refused_before"] = sorted(set(rng.sample(range(n_ + 1), min(n_ + 1, rng.randint(1, 2)))))
            if n_ >= 2 and rng.random() < 0.6:
                c2["elab_before"] = [rng.randint(1, n_ - 1)]
            if kind == "wb_decoder" and rng.random() < 0.5:
                c2["enum_features"] = True
        elif kind == "arbiter":
            if rng.random() < 0.6:
                c2["refused_before"] = sorted(set(rng.sample(range(c2["n"] + 1), min(c2["n"] + 1, rng.randint(1, 2)))))
            if c2["n"] >= 2 and rng.random() < 0.6:
                c2["elab_before"] = [rng.randint(1, c2["n"] - 1)]
            if rng.random() < 0.5:
                c2["enum_features"] = True
        elif kind == "mux":
            if len(c2["regs"]) >= 2:
                c2["late"] = rng.randint(1, len(c2["regs"]) - 1)
                c2["elab_between"] = rng.random() < 0.5
        elif kind == "sram":
            if c2["init"]:
                c2["init_as"] = rng.choice(["generator", "tuple", "iter"])
        return (plain, c2) if c2 != plain else None
    for kind, gen, n_ in (("csr_decoder", C06.configs, 10), ("wb_decoder", C07.configs, 12), ("arbiter", lambda t, s_: arbiter.configs(t, s_, 19), 10),
                          ("mux", lambda t, s_: mux.configs(t, s_, 19), 12), ("sram", C15.configs, 6)):
        lst = list(gen(tier, seed))
        for c_ in (rng.sample(lst, min(len(lst), n_ if tier == "quick" else 4 * n_))):
            r_ = reroute(kind, c_)
            if r_ is not None:
                out.append({"kind": kind, "cfg": r_[1], "plain_route": r_[0]})
    # parameters OUTSIDE the documented domains: the constructor may turn them down in whatever way it likes (then nothing was
    # "built from accepted parameters"), but a component it does hand out must elaborate or be refused explicitly
    for what, kw in ODD_PARAMS:
        out.append({"kind": "odd_params", "cfg": {"what": what, "kw": kw}})
    # legal but LARGE parameter values: about a thousand windows / registers / initiators / event sources on one component
    # (elaborated through Fragment.prepare() only - the RTLIL text of such a design is tens of megabytes)
    for what, n in [("csr_decoder", 1100), ("wb_decoder", 1100), ("mux_registers", 1100), ("event_sources", 1500), ("register_fields", 1200)] + \
                   ([("arbiter", 300), ("gpio_pins", 300)] if tier == "thorough" else []):
        out.append({"kind": "large", "cfg": {"what": what, "n": n}})
    # registers whose nested field names collide after flattening with '__'
    out.append({"kind": "register_real", "cfg": {"fields": "nested_collision"}})
    out.append({"kind": "register_real", "cfg": {"fields": "mixed"}})
    return out


ODD_PARAMS = [
    ("mux", {"shadow_overlaps": -1}), ("mux", {"shadow_overlaps": -7}), ("mux", {"shadow_overlaps": True}), ("mux", {"shadow_overlaps": 1.0}),
    ("mux", {"shadow_overlaps": "1"}), ("mux", {"shadow_overlaps": 10 ** 6}),
    # a sharing limit that an unaligned layout can never meet, at low and at high base addresses (refusal after a bounded search)
    ("mux", {"shadow_overlaps": 0, "base": 0x0}), ("mux", {"shadow_overlaps": 0, "base": 0x1000}), ("mux", {"shadow_overlaps": 0, "base": 0xf000}),
    ("mux", {"shadow_overlaps": None, "base": 0x1000}),
    ("csr_decoder", {"addr_width": 1, "data_width": 8, "alignment": 40}), ("csr_decoder", {"addr_width": 70, "data_width": 8}),
    ("csr_decoder", {"addr_width": True, "data_width": 8}), ("csr_decoder", {"addr_width": 4, "data_width": 1}),
    ("wb_decoder", {"addr_width": 0, "data_width": 64, "granularity": 8}), ("wb_decoder", {"addr_width": 1, "data_width": 8, "alignment": 9}),
    ("wb_decoder", {"addr_width": 3, "data_width": 8, "features": ()}), ("wb_decoder", {"addr_width": 3, "data_width": 8, "features": "err"}),
    ("arbiter", {"addr_width": 0, "data_width": 64, "granularity": 64}), ("arbiter", {"addr_width": 40, "data_width": 8}),
    ("sram", {"size": 1, "data_width": 8}), ("sram", {"size": 2, "data_width": 64, "granularity": 32}), ("sram", {"size": 4, "data_width": 8, "init": (1, 2, 3, 4, 5)}),
    ("sram", {"size": 4, "data_width": 8, "init": [256]}), ("sram", {"size": True, "data_width": 8}), ("sram", {"size": 8, "data_width": 8, "writable": 0}),
    ("evmon", {"n": 0, "data_width": 1}), ("evmon", {"n": 3, "data_width": 8, "alignment": 9}), ("evmon", {"n": 3, "data_width": 8, "alignment": 10}), ("evmon", {"n": 2, "data_width": True}),
    ("evmon", {"n": 2, "data_width": 8, "trigger": "rise"}),
    ("evmon", {"n": 1, "plain_monitor": True, "late_add": True}), ("evmon", {"n": 2, "data_width": 8, "late_add": True}), ("evmon", {"n": 8, "data_width": 8, "late_add": True}),
    ("gpio", {"pin_count": 1, "addr_width": 2, "data_width": 8}), ("gpio", {"pin_count": 64, "addr_width": 8, "data_width": 8, "input_stages": 0}),
    ("gpio", {"pin_count": 3, "addr_width": 4, "data_width": 8, "input_stages": True}), ("gpio", {"pin_count": True, "addr_width": 4, "data_width": 8}),
    ("bridge", {"data_width": 64, "csr_aw": 1, "csr_dw": 8}), ("bridge", {"data_width": 24, "csr_aw": 4, "csr_dw": 8}), ("bridge", {"data_width": 8, "csr_aw": 4, "csr_dw": 16}),
    ("action_rw", {"shape": 0}), ("action_rw", {"shape": 4, "init": 255}), ("action_rw", {"shape": 3, "init": -1}), ("action_rw1c", {"shape": 1, "init": True}),
    ("register", {"access": "rw", "width": 0}), ("register", {"access": "r", "field": "W"}),
]


def build_odd(cfg):
    """construction failing in ANY way = the parameters were not accepted (-> Refused); otherwise the component is returned"""
    from amaranth_soc import csr, event, gpio, wishbone
    from amaranth_soc.csr import action
    from amaranth_soc.memory import MemoryMap
    from amaranth.lib import wiring
    from amaranth.lib.wiring import Out
    what, kw = cfg["what"], dict(cfg["kw"])
    try:
        if what == "mux":
            class MockReg(wiring.Component):
                def __init__(self, width, access):
                    super().__init__({"element": Out(csr.Element.Signature(width, access))})
            base = kw.pop("base", None)
            mm = MemoryMap(addr_width=4 if base is None else 16, data_width=8)
            mm.add_resource(MockReg(8, "rw"), name="a", size=1, addr=base)
            mm.add_resource(MockReg(16, "rw"), name="b", size=2, addr=None if base is None else base + 1)
            c = csr.Multiplexer(mm, **kw); return c, c.bus.memory_map
        if what == "csr_decoder":
            c = csr.Decoder(**kw); return c, c.bus.memory_map
        if what == "wb_decoder":
            c = wishbone.Decoder(**kw); return c, c.bus.memory_map
        if what == "arbiter":
            c = wishbone.Arbiter(**kw)
            c.add(wishbone.Interface(**kw, path=("i",)))
            return c, None
        if what == "sram":
            from amaranth_soc.wishbone.sram import WishboneSRAM
            c = WishboneSRAM(**kw); return c, c.wb_bus.memory_map
        if what == "evmon":
            n = kw.pop("n")
            late = kw.pop("late_add", False)
            plain = kw.pop("plain_monitor", False)
            emap = event.EventMap()
            for i in range(n):
                emap.add(event.Source(path=(f"e{i}",)))
            c = event.Monitor(emap) if plain else csr.event.EventMonitor(emap, **kw)
            if late:
                # a source added to the user's event map AFTER the monitor was built from it: refused (the map is frozen) - or, if it is
                # accepted, the monitor must still elaborate (accepted calls never end in an internal error)
                try:
                    emap.add(event.Source(path=("late",)))
                except ValueError:
                    pass
            return c, (None if plain else c.bus.memory_map)
        if what == "gpio":
            c = gpio.Peripheral(**kw); return c, c.bus.memory_map
        if what == "bridge":
            from amaranth_soc.csr.wishbone import WishboneCSRBridge
            bus = csr.Interface(addr_width=kw["csr_aw"], data_width=kw["csr_dw"], path=("csr",))
            bus.memory_map = MemoryMap(addr_width=kw["csr_aw"], data_width=kw["csr_dw"])
            c = WishboneCSRBridge(bus, data_width=kw["data_width"]); return c, c.wb_bus.memory_map
        if what in ("action_rw", "action_rw1c"):
            cls = action.RW if what == "action_rw" else action.RW1C
            sh = kw.pop("shape")
            return cls(sh, **kw), None
        if what == "register":
            fcls = getattr(action, kw.get("field", "RW"))
            return csr.Register(csr.Field(fcls, kw.get("width", 4)), access=kw["access"]), None
    except Exception as e:
        raise Refused(f"not accepted by the constructor: {type(e).__name__}: {e}")
    raise KeyError(what)


def build_large(cfg):
    from amaranth_soc import csr, event, gpio, wishbone
    from amaranth_soc.csr import action
    from amaranth_soc.memory import MemoryMap
    from amaranth.lib import wiring
    from amaranth.lib.wiring import Out
    what, n = cfg["what"], cfg["n"]
    if what == "csr_decoder":
        d = csr.Decoder(addr_width=16, data_width=8)
        for i in range(n):
            sb = csr.Interface(addr_width=2, data_width=8, path=(f"s{i}",)); sb.memory_map = MemoryMap(addr_width=2, data_width=8)
            d.add(sb, name=f"w{i}")
        return d, None
    if what == "wb_decoder":
        d = wishbone.Decoder(addr_width=16, data_width=8, features={"err", "stall"})
        for i in range(n):
            sb = wishbone.Interface(addr_width=2, data_width=8, features={"err"} if i % 2 else {"stall"}, path=(f"s{i}",))
            sb.memory_map = MemoryMap(addr_width=2, data_width=8)
            d.add(sb, name=f"w{i}")
        return d, None
    if what == "mux_registers":
        class MockReg(wiring.Component):
            def __init__(self, width, access):
                super().__init__({"element": Out(csr.Element.Signature(width, access))})
        mm = MemoryMap(addr_width=12, data_width=8)
        for i in range(n):
            mm.add_resource(MockReg(8, "rw" if i % 2 else "r"), name=f"r{i}", size=1)
        return csr.Multiplexer(mm), None
    if what == "event_sources":
        emap = event.EventMap()
        for i in range(n):
            emap.add(event.Source(path=(f"e{i}",)))
        return csr.event.EventMonitor(emap, data_width=32), None
    if what == "register_fields":
        return csr.Register({f"f{i}": csr.Field(action.RW, 1) for i in range(n)}, access="rw"), None
    if what == "arbiter":
        a = wishbone.Arbiter(addr_width=4, data_width=8)
        for i in range(n):
            a.add(wishbone.Interface(addr_width=4, data_width=8, path=(f"i{i}",)))
        return a, None
    if what == "gpio_pins":
        return gpio.Peripheral(pin_count=n, addr_width=9, data_width=8), None
    raise KeyError(what)


def build(kind, cfg):
    """Returns (component, memory_map or None)."""
    from amaranth_soc import csr, event, gpio, wishbone
    if kind == "odd_params":
        return build_odd(cfg)
    if kind == "large":
        return build_large(cfg)
    if kind == "mux":
        from . import mux
        try:
            m = mux.build(cfg)
        except Refused as e:
            raise
        return m, m.bus.memory_map
    if kind == "csr_decoder":
        from . import C06
        d, subs = C06.build(cfg); return d, d.bus.memory_map
    if kind == "wb_decoder":
        from . import C07
        d, subs = C07.build(cfg); return d, d.bus.memory_map
    if kind == "arbiter":
        from . import arbiter
        a, _ = arbiter.build(cfg); return a, None
    if kind == "wb_csr_bridge":
        from . import C10
        b, bus = C10.build(cfg); return b, b.wb_bus.memory_map
    if kind == "action":
        from . import C12
        from amaranth_soc.csr import action
        sh = tuple(cfg["shape"])
        cls = getattr(action, cfg["cls"])
        if cfg["cls"] in ("RW", "RW1C", "RW1S"):
            return cls(C12.shape_of(sh), init=C12._init_arg(sh, cfg["init"])), None
        return cls(C12.shape_of(sh)), None
    if kind == "monitor":
        from . import C13
        mon, emap, srcs = C13.build(cfg); return mon, None
    if kind == "sram":
        from amaranth_soc.wishbone.sram import WishboneSRAM
        s = WishboneSRAM(size=cfg["size"], data_width=cfg["dw"], granularity=cfg["g"], writable=cfg["writable"], init=cfg["init"])
        return s, s.wb_bus.memory_map
    if kind == "register":
        from . import C11
        reg, exc, order = C11.build(cfg)
        if reg is None:
            raise exc
        return reg, None
    if kind == "register_real":
        from amaranth_soc.csr import action
        if cfg["fields"] == "nested_collision":
            fields = {"a": {"b": csr.Field(action.RW, 2)}, "a__b": csr.Field(action.R, 3)}
        else:
            fields = {"x": [csr.Field(action.RW1C, 3), {"y": csr.Field(action.RW1S, 2), "_z": csr.Field(action.ResR0W0, 1)}],
                      "w": csr.Field(action.W, 4), "r": csr.Field(action.R, 5)}
        return csr.Register(fields, access="rw"), None
    if kind == "csr_event_monitor":
        emap = event.EventMap()
        srcs = [event.Source(trigger=cfg["trigger"], path=(f"e{i}",)) for i in range(cfg["n"])]
        for s in srcs:
            emap.add(s)
        m = csr.event.EventMonitor(emap, trigger="level", data_width=cfg["dw"], alignment=cfg["align"])
        return m, m.bus.memory_map
    if kind == "gpio":
        p = gpio.Peripheral(pin_count=cfg["pins"], addr_width=cfg["aw"], data_width=cfg["dw"], input_stages=cfg["stages"])
        return p, p.bus.memory_map
    if kind == "csr_bridge":
        from amaranth_soc.csr import action
        b = csr.Builder(addr_width=cfg["aw"], data_width=cfg["dw"], granularity=cfg["g"])
        import contextlib
        for name, scopes, width, offset in cfg["regs"]:
            with contextlib.ExitStack() as st:
                for k, v in scopes:
                    st.enter_context(b.Cluster(v) if k == "c" else b.Index(v))
                b.add(name, csr.Register(csr.Field(action.RW, width), access="rw"), offset=offset)
        br = csr.Bridge(b.as_memory_map())
        return br, br.bus.memory_map
    raise KeyError(kind)


def snapshot(mm):
    if mm is None:
        return None
    res = [(id(i.resource), tuple(i.path), i.start, i.end, i.width) for i in mm.all_resources()]
    wins = [(id(w), n, r) for w, n, r in mm.windows()]
    # whether the map still accepts additions is part of its state (observed through the private flag so that observing does not
    # change the map); the flags of the window maps too
    frozen = [getattr(mm, "_frozen", None)] + [getattr(w, "_frozen", None) for w, n, r in mm.windows()]
    return res, wins + [("frozen", None, tuple(frozen))]


class _Timeout(Exception):
    pass


class _SkipSecond(Exception):
    pass


def check_config(ctx, c):
    from amaranth.back import rtlil
    from amaranth.hdl import Fragment
    kind, cfg = c["kind"], c["cfg"]

    def result(clause, ok, detail, key):
        ctx.results.append({"name": f"{clause}@{ctx.key}", "clause": clause, "status": "discharged" if ok else "failed",
                            "time": 0.0, "replay": {"confirmed": True, "how": "native: construct and elaborate this configuration",
                                                    "detail": detail},
                            "cfg": c, "known_key": key, "solver": "native evaluation"})

    def on_alarm(signum, frame):
        raise _Timeout()
    old = signal.signal(signal.SIGALRM, on_alarm)
    old_limit = sys.getrecursionlimit()
    sys.setrecursionlimit(1000)       # the interpreter default: what a user of the library gets
    signal.alarm(60)
    try:
        try:
            comp, mm = build(kind, cfg)
        except Refused:
            raise
        except _Timeout:
            result("terminates", False, "construction did not terminate within 60 s", f"terminates:{kind}:construct")
            return
        except RecursionError as e:
            result("terminates", False, f"RecursionError in construction at {where(e)}", f"terminates:{kind}:{where(e)}")
            return
        except Exception as e:
            if is_refusal(e):
                raise Refused(str(e))
            result("elaborates", False, f"construction raised an internal {type(e).__name__}: {e} at {where(e)}",
                   f"construct:{kind}:{type(e).__name__}:{where(e)}")
            return
        if c.get("decoy") is not None:
            try:
                build(kind, c["decoy"])
            except _Timeout:
                raise
            except Exception:
                pass
        before = snapshot(mm)
        texts = []
        for k in range(3):
            signal.alarm(180)        # the guard is per elaboration: large (legitimately slow) designs are not "non-terminating"
            try:
                # ports as an undirected list: directions follow driven-ness (what amaranth.sim / a parent module
                # sees); whether the declared signature directions fit the role is C20's question, not C19's
                ports = []
                if hasattr(comp, "signature"):
                    for _p, _m, sig in comp.signature.flatten(comp):
                        ports.append(sig.as_value() if hasattr(sig, "as_value") else sig)
                if kind == "large":
                    frag_ = Fragment.get(comp, None)
                    design_ = frag_.prepare(ports=ports, hierarchy=("top",))
                    texts.append(f"large design with {sum(1 for _ in design_.fragments)} fragments")
                else:
                    texts.append(rtlil.convert(comp, ports=ports))
            except _Timeout:
                result("terminates", False, f"elaboration #{k + 1} did not terminate within 180 s", f"terminates:{kind}:elaborate")
                return
            except RecursionError as e:
                result("terminates", False, f"elaboration #{k + 1}: RecursionError at {where(e)}", f"terminates:{kind}:{where(e)}")
                return
            except Exception as e:
                if k == 0 and is_refusal(e):
                    raise Refused("at elaboration: " + str(e))
                clause = "elaborates" if k == 0 else "repeatable"
                result(clause, False, f"elaboration #{k + 1} raised {type(e).__name__}: {e} at {where(e)}",
                       f"{clause}:{kind}:{type(e).__name__}:{where(e)}")
                return
        result("elaborates", True, "", "")
        result("terminates", True, "", "")
        same = texts[0] == texts[1] == texts[2]
        result("repeatable", same, "RTLIL text differs between elaborations of one instance" if not same else "", f"repeatable:{kind}:rtlil-differs")
        # a second INSTANCE built from the same parameters, after the first one was built and elaborated, is the same hardware
        # (no class-level / module-level / default-argument state shared between instances)
        try:
            if kind == "large":
                raise _SkipSecond()
            comp_b, mm_b = build(kind, cfg)
            ports_b = []
            if hasattr(comp_b, "signature"):
                for _p, _m, sig in comp_b.signature.flatten(comp_b):
                    ports_b.append(sig.as_value() if hasattr(sig, "as_value") else sig)
            signal.alarm(180)
            text_b = rtlil.convert(comp_b, ports=ports_b)
            result("second_instance_same_hardware", text_b == texts[0],
                   "" if text_b == texts[0] else f"a second instance built from the same parameters elaborates differently (RTLIL lengths {len(text_b)} vs {len(texts[0])})",
                   f"second_instance_same_hardware:{kind}")
            sb = snapshot(mm_b)
            strip = lambda sn: None if sn is None else ([x[1:] for x in sn[0]], [x[1:] for x in sn[1]])
            result("second_instance_same_map", strip(sb) == strip(before),
                   "" if strip(sb) == strip(before) else f"memory map of a second instance differs: {strip(before)} vs {strip(sb)}",
                   f"second_instance_same_map:{kind}")
        except _Timeout:
            raise
        except _SkipSecond:
            pass
        except Exception as e:
            result("second_instance_same_hardware", False, f"building/elaborating a second instance raised {type(e).__name__}: {e} at {where(e)}",
                   f"second_instance_same_hardware:{kind}:{type(e).__name__}")
        if c.get("plain_route") is not None:
            try:
                comp_p, mm_p = build(kind, c["plain_route"])
                ports_p = [sg.as_value() if hasattr(sg, "as_value") else sg for _p, _m, sg in comp_p.signature.flatten(comp_p)]
                signal.alarm(180)
                text_p = rtlil.convert(comp_p, ports=ports_p)
                result("route_independent", text_p == texts[0],
                       "" if text_p == texts[0] else "the same configuration reached by another legal route (see the configuration's extra keys) "
                                                     f"elaborates to different hardware than the plain route (RTLIL lengths {len(texts[0])} vs {len(text_p)})",
                       f"route_independent:{kind}")
            except _Timeout:
                raise
            except Refused:
                result("route_independent", False, "the plain route is refused although the other route was accepted", f"route_independent:{kind}:refused")
            except Exception as e:
                result("route_independent", False, f"the plain route raised {type(e).__name__}: {e} at {where(e)}", f"route_independent:{kind}:{type(e).__name__}")
        after = snapshot(mm)
        result("metadata_kept", before == after, f"memory map changed by elaboration: {before} -> {after}" if before != after else "",
               f"metadata_kept:{kind}")
        ctx.nontrivial = len(texts[0]) > 400
        # An elaboration must leave no trace: "add k subordinates, elaborate, add one more, elaborate" has to give the very
        # hardware that "add k+1 subordinates, elaborate" gives (decoders and the arbiter stay extensible after elaboration).
        nsub = {"csr_decoder": lambda c_: len(c_["subs"]), "wb_decoder": lambda c_: len(c_["subs"]), "arbiter": lambda c_: c_["n"]}.get(kind)
        if nsub is not None and nsub(cfg) >= 2:
            from . import C06, C07, arbiter
            builder = {"csr_decoder": C06.build, "wb_decoder": C07.build, "arbiter": arbiter.build}[kind]
            try:
                comp2, subs2, add_later = builder(cfg, upto=nsub(cfg) - 1)

                def conv(c_):
                    ports = [sg.as_value() if hasattr(sg, "as_value") else sg for _p, _m, sg in c_.signature.flatten(c_)]
                    return rtlil.convert(c_, ports=ports)
                conv(comp2)
                add_later(nsub(cfg) - 1)
                late = conv(comp2)
                same2 = late == texts[0]
                result("no_trace_of_earlier_elaboration", same2,
                       "" if same2 else "elaborate -> add() -> elaborate differs from add() -> elaborate on a fresh instance "
                                        f"(RTLIL lengths {len(late)} vs {len(texts[0])})",
                       f"no_trace_of_earlier_elaboration:{kind}")
            except Refused:
                pass
            except Exception as e:
                result("no_trace_of_earlier_elaboration", False, f"{type(e).__name__}: {e} at {where(e)}",
                       f"no_trace_of_earlier_elaboration:{kind}:{type(e).__name__}")
    finally:
        signal.alarm(0)
        signal.signal(signal.SIGALRM, old)
        sys.setrecursionlimit(old_limit)


def main(run: Run):
    cfgs = configs(run.tier, run.seed)
    run.require(*CLAUSES)
    run.assumptions += ["bounded stand-in: configurations are enumerated and each is constructed and elaborated natively three times "
                        "(runtime contract evaluation, never counted as proved)",
                        "RTLIL text equality (amaranth.back.rtlil.convert) is the notion of 'same hardware'",
                        "a refusal is a ValueError/TypeError raised by an explicit raise statement inside amaranth_soc; any other "
                        "exception is an internal error",
                        "termination guard: 60 s wall clock and recursion limit 3000 per configuration"]
    for cls in ("csr.Multiplexer", "csr.Decoder", "csr.Bridge", "csr.Register", "csr.action.*", "event.Monitor", "csr.EventMonitor",
                "csr.WishboneCSRBridge", "wishbone.Decoder", "wishbone.Arbiter", "wishbone.WishboneSRAM", "gpio.Peripheral"):
        run.functions[f"amaranth_soc.{cls}.__init__/elaborate"] = "bounded (runtime contract over enumerated configurations)"
    run.bounded_notes.append("all C19 clauses are bounded runtime-contract evaluations")
    run_configs(run, __name__, cfgs)
    from . import shadow_l1
    shadow_l1.add_termination(run)
    from . import C19_frame
    from ..common import REPO
    C19_frame.add_to(run, REPO)
    from . import C19_l1
    C19_l1.add_to(run)
    return run.finish(
        explanation="Runtime contracts on construction/elaboration evaluated natively on enumerated configurations of every "
                    "component class (three elaborations of one instance, RTLIL compared, memory map compared), with a termination "
                    "guard; _Shadow.prepare() termination measure as an L1 obligation. Bounded stand-in.",
        rule="configuration = (component class, constructor parameters / layout); non-trivial = RTLIL longer than 400 characters")
