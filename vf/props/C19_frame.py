"""C19 (static part): FRAME SCAN of every elaborate() in amaranth_soc.

Claim per class, for ALL configurations and any number of elaborations: elaborate() performs no attribute / item STORE on the
component or on objects reached from it (no re-binding, no in-place container update through a known mutating method).
This is weaker than "leaves no trace": consuming a one-shot iterator kept on the instance mutates without a store (seeded change
C19d) - so the scan is supporting evidence for "elaboration does not alter the component's metadata", not a proof of repeatability.
Decided syntactically, conservatively, on the real source of /repo (re-read on every run):
  R0  `self` itself is never re-bound, stored into a container, or passed as an argument to a call that could keep or mutate
      it (only `<local>.submodules.<x> = self.<attr>` / `+= self.<attr>` uses of self attributes as VALUES are allowed)
  R1  no assignment / augmented assignment / del whose target expression is rooted at `self` (self.x = .., self.x[k] = ..,
      self.x.y = ..)  -- targets rooted at locals (m.d.comb += .., m.submodules.x = ..) are frame-local
  R2  no call of a method on a receiver rooted at `self` unless the method is in the READ-ONLY table below, or it is a method
      defined in amaranth_soc whose own body (recursively, by NAME over all amaranth_soc classes - over-approximating dynamic
      dispatch) satisfies R1/R2 with respect to its own `self`
  R3  aliases: a local assigned from an expression rooted at `self` is itself treated as rooted at `self`
A class that passes is `frame-proved`.  A class that does not pass is NOT a violation (a harmless cache would also fail the
scan): it is reported as `frame-inconclusive` and the runtime clauses of C19 (three elaborations compared, metadata compared)
remain its only arbiter.  The scan never raises an alarm.
"""
import ast, os

READ_ONLY = {  # methods of Amaranth / Python objects that do not mutate their receiver
    "eq", "any", "all", "bool", "as_value", "as_unsigned", "as_signed", "bit_select", "word_select", "matches", "items", "keys",
    "values", "get", "index", "count", "flatten", "members", "flip", "signature", "resources", "windows", "window_patterns",
    "all_resources", "find_resource", "decode_address", "sources", "size", "names", "format", "join", "startswith", "replace",
    "__getitem__", "shape", "cast", "rotate_left", "rotate_right", "shift_left", "shift_right", "implies", "xor", "copy",
}


CLASS_NAMES = set()


def load_classes(repo):
    """-> {method name: [(class qualname, FunctionDef)]} for every method in amaranth_soc, and the list of elaborate() methods"""
    by_name, elabs = {}, []
    CLASS_NAMES.clear()
    root = os.path.join(repo, "amaranth_soc")
    for d, _, files in os.walk(root):
        for f in files:
            if not f.endswith(".py"):
                continue
            rel = os.path.relpath(os.path.join(d, f), repo)
            tree = ast.parse(open(os.path.join(d, f)).read())

            def walk(node, prefix):
                for n in node.body:
                    if isinstance(n, ast.ClassDef):
                        CLASS_NAMES.add(n.name)
                        walk(n, prefix + [n.name])
                    elif isinstance(n, (ast.FunctionDef,)):
                        if prefix:
                            by_name.setdefault(n.name, []).append((rel + ":" + ".".join(prefix), n))
                            if n.name == "elaborate":
                                elabs.append((rel + ":" + ".".join(prefix), n))
                        # nested classes inside functions (gpio.Peripheral.__init__ defines local component classes)
                        for m in ast.walk(n):
                            if isinstance(m, ast.ClassDef):
                                CLASS_NAMES.add(m.name)
                                walk(m, prefix + [n.name, m.name])
            walk(tree, [])
    return by_name, elabs


def root_name(e):
    while isinstance(e, (ast.Attribute, ast.Subscript, ast.Call, ast.Starred)):
        e = e.value if not isinstance(e, ast.Call) else e.func
    return e.id if isinstance(e, ast.Name) else None


def is_constructor(e):
    """`self._Shadow(...)` / `Multiplexer._Shadow(...)`: instantiating a class defined in amaranth_soc yields a FRESH object"""
    return isinstance(e, ast.Call) and ((isinstance(e.func, ast.Attribute) and e.func.attr in CLASS_NAMES) or
                                        (isinstance(e.func, ast.Name) and e.func.id in CLASS_NAMES))


def scan(fn, by_name, seen=None, depth=0):
    """-> list of reasons why `fn` (a method; its first parameter is the instance) may store to the instance"""
    seen = seen if seen is not None else set()
    if id(fn) in seen or depth > 6:
        return []
    seen.add(id(fn))
    if not fn.args.args:
        return []
    me = fn.args.args[0].arg
    rooted = {me}
    reasons = []
    # R3 aliases (fixpoint over simple assignments / for targets / with-as)
    changed = True
    while changed:
        changed = False
        for n in ast.walk(fn):
            tgts, val = [], None
            if isinstance(n, ast.Assign):
                tgts, val = n.targets, n.value
            elif isinstance(n, ast.For):
                tgts, val = [n.target], n.iter
            elif isinstance(n, ast.NamedExpr):
                tgts, val = [n.target], n.value
            if val is not None and root_name(val) in rooted and not is_constructor(val):
                for t in tgts:
                    for s in ([t] if not isinstance(t, (ast.Tuple, ast.List)) else t.elts):
                        if isinstance(s, ast.Starred):
                            s = s.value
                        if isinstance(s, ast.Name) and s.id not in rooted:       # only plain names become aliases
                            rooted.add(s.id); changed = True
    for n in ast.walk(fn):
        if isinstance(n, (ast.Assign, ast.AugAssign, ast.AnnAssign, ast.Delete)):
            tgts = n.targets if isinstance(n, (ast.Assign, ast.Delete)) else [n.target]
            for t in tgts:
                for s in ([t] if not isinstance(t, (ast.Tuple, ast.List)) else t.elts):
                    if isinstance(s, (ast.Attribute, ast.Subscript)) and root_name(s) in rooted:
                        reasons.append(f"line {n.lineno}: store to `{ast.unparse(s)}`")
        if isinstance(n, ast.Call) and isinstance(n.func, ast.Attribute):
            recv = n.func.value
            if root_name(recv) in rooted:
                name = n.func.attr
                if is_constructor(n):
                    continue
                cands = by_name.get(name, [])           # amaranth_soc methods of that name are always scanned, never trusted
                if not cands and name in READ_ONLY:
                    continue
                if not cands:
                    reasons.append(f"line {n.lineno}: call `{ast.unparse(n.func)}()` of a method unknown to the scan")
                    continue
                for qual, callee in cands:
                    for r in scan(callee, by_name, seen, depth + 1):
                        reasons.append(f"line {n.lineno}: `{ast.unparse(n.func)}()` -> {qual}.{name}: {r}")
        if isinstance(n, ast.Call):
            # R0: the instance itself handed to a call (other than as the receiver)
            for a in list(n.args) + [k.value for k in n.keywords]:
                if isinstance(a, ast.Name) and a.id == me:
                    reasons.append(f"line {n.lineno}: the instance itself is passed to `{ast.unparse(n.func)}()`")
    return reasons


def add_to(run, repo):
    by_name, elabs = load_classes(repo)
    proved, inconclusive = [], {}
    for qual, fn in sorted(elabs, key=lambda x: x[0]):
        reasons = scan(fn, by_name)
        if reasons:
            inconclusive[qual] = reasons[:4]
        else:
            proved.append(qual)
            run.add(f"frame:{qual}.elaborate", "discharged", "AST frame scan", 0.0, clause="elaborate_frame")
    run.extra["elaborate_frame_scan"] = {"frame_proved": proved, "frame_inconclusive": inconclusive,
                                         "rule": "no store rooted at the instance in elaborate() or in any amaranth_soc method it calls on the "
                                                 "instance (by name, over all classes); inconclusive is not a violation"}
    run.functions.update({f"amaranth_soc/{q}.elaborate [frame]": "no store to the instance in elaborate() or its amaranth_soc callees (all configurations; syntactic)" for q in proved})
    for q, r in inconclusive.items():
        run.bounded_notes.append(f"frame scan inconclusive for {q}.elaborate ({r[0]}): only the runtime clauses decide")
    return proved, inconclusive
