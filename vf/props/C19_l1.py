"""C19 (statement level, all configurations): every elaborate() that is under a recording-stub contract is executed path-wise by pyvc;
the clause `stores-nothing-on-the-component` says that on no path an attribute of the component (or of an object reached from it) is
re-bound.  Weaker than "leaves no trace" (a consumed one-shot iterator mutates without a store): supporting evidence next to the syntactic
frame scan and the three-elaborations runtime clauses."""
from ..pyvc.driver import discharge_all
from ..pyvc.engine import Unsupported

VERIFIERS = [("register", "verify_register_elaborate"), ("monitor_l1", "verify_monitor_elaborate"), ("decoder_l1", "verify_csr_decoder_elaborate"),
             ("decoder_l1", "verify_wb_decoder_elaborate"), ("arbiter_l1", "verify_arbiter_grant"), ("arbiter_l1", "verify_arbiter_fanout"),
             ("gpio_l1", "verify_gpio_elaborate"), ("gpio_l1", "verify_output_field_elaborate"), ("sram_l1", "verify_sram_elaborate"), ("bridge_l1", "verify_bridge_elaborate"),
             ("mux_l1", "verify_mux_elaborate"), ("glue_l1", "verify_eventmonitor_elaborate"), ("glue_l1", "verify_csr_bridge_elaborate")]


def add_to(run):
    import importlib
    obs, done, skipped = [], [], []
    from contracts import action_l1
    todo = [(mod, fn, None) for mod, fn in VERIFIERS] + [("action_l1", f"action#{k}", f) for k, f in enumerate(action_l1.ALL)]
    for mod, fn, direct in todo:
        if run.tier == "quick" and fn == "verify_arbiter_fanout":
            continue                      # 11k obligations to generate; the grant contract executes the same method
        try:
            fv = direct() if direct is not None else getattr(importlib.import_module("contracts." + mod), fn)()
        except Unsupported as e:
            skipped.append(f"{fn}: {e}")
            continue
        mine = [o for o in fv.obs if o.clause == "stores-nothing-on-the-component"]
        obs += mine
        if mine:
            done.append(fv.qualname)
    for q in sorted(set(done)):
        run.functions[f"amaranth_soc.{q} [no attribute of the component re-bound on any path]"] = "proved (pyvc path-wise execution with recording stubs, all configurations)"
    for s in skipped:
        run.bounded_notes.append(f"statement-level frame clause not available on this tree ({s}): the runtime clauses decide")
    if obs:
        run.assumptions.append("statement-level frame clause: attribute stores only; item stores / mutating calls on the component are outside the stubs' "
                               "vocabulary (then the method is `unsupported` and only the runtime clauses decide); consuming an iterator is not a store")
        discharge_all(run, obs, timeout_ms=5000)
