"""C20 -- ports have the direction their role implies; signatures round-trip.

 L1 (pyvc, unbounded): each Signature.__eq__ body is proved equivalent to "same class and all defining parameters equal"
     (contracts/signatures.py) -- a dropped conjunct is refuted for all parameter values.
 L3 (bounded, runtime contract over enumerated parameter tuples; labelled bounded):
     create_roundtrip     sig.create().signature == sig, and the created interface has the class the docs promise
     eq_exact             sig(p) == sig(q)  <=>  p == q (after shape casting / enum conversion)  over all pairs of the scope
     members_follow       member names, directions and widths follow the parameters (tables written from the documentation)
     connects             wiring.connect(m, initiator, component.port) succeeds for every target port; arbiter.bus connects to a target
"""
import itertools, random
from ..common import Run, BASE_ASSUMPTIONS_L1
from ..hdl.harness import run_configs

PROP = "C20"
LEVEL = "other"
L3 = ["create_roundtrip", "eq_exact", "members_follow", "connects"]
ALLF = ["err", "rty", "stall", "lock", "cti", "bte"]


def configs(tier, seed):
    cfgs = []
    subsets = [list(c) for r in range(7) for c in itertools.combinations(ALLF, r)]
    pairs = [(8, 8), (16, 8), (16, 16), (32, 8), (32, 16), (32, 32), (64, 8), (64, 16), (64, 32), (64, 64)]
    aws = [0, 1, 5] if tier == "quick" else list(range(0, 9))
    for f in subsets:
        cfgs.append({"kind": "wb_sig", "feats": f, "pairs": pairs, "aws": aws})
    cfgs.append({"kind": "csr_sig", "aws": list(range(1, 9)) + [300, 1000], "dws": [1, 8, 13, 32, 257, 1024]})
    cfgs.append({"kind": "element_sig", "widths": [0, 1, 8, 10, 33, 256, 257, 288, 4096], "access": ["r", "w", "rw"]})
    cfgs.append({"kind": "fieldport_sig"})
    cfgs.append({"kind": "source_sig"})
    cfgs.append({"kind": "pin_sig"})
    cfgs.append({"kind": "wb_eq", "feats": subsets})
    for k in ("mux", "csr_decoder", "csr_bridge", "event_monitor", "gpio", "wb_csr_bridge", "wb_decoder", "sram", "arbiter"):
        cfgs.append({"kind": "connect", "what": k})
    # the bridge at the edges of its documented range: Wishbone width equal to the CSR width given explicitly, and the widest bus
    for bw in (8, 64):
        cfgs.append({"kind": "connect", "what": "wb_csr_bridge", "bridge_dw": bw})
    # memories of exactly one row (the smallest the documentation allows: size * granularity == data_width), default granularity
    for geom in ((4, 32, 8), (2, 16, 8), (2, 32, 16), (8, 64, 8), (4, 32, None), (2, 8, None)):
        cfgs.append({"kind": "connect", "what": "sram", "sram": list(geom)})
    # the components that take a feature set: every legal spelling of it (list, one-shot generator, frozenset of Feature members,
    # mixed tuple) must give the port the signature wishbone.Signature builds from the same parameters
    for k in ("wb_decoder", "arbiter"):
        for spell in (1, 2, 3):
            for feats in (ALLF, ["err", "stall"], ["lock"], []):
                cfgs.append({"kind": "connect", "what": k, "spell": spell, "feats": feats})
    return cfgs


def flat(sig):
    """[(name, flow, width)] of a signature, non-recursively for leaf members"""
    from amaranth.hdl import Shape
    out = []
    for name, m in sig.members.items():
        if m.is_port:
            out.append((name, m.flow.name, Shape.cast(m.shape).width))
        else:
            out.append((name, m.flow.name, "sig"))
    return sorted(out)


def spelled(cfg):
    """the feature set of the configuration in one of its legal spellings"""
    from amaranth_soc import wishbone
    feats = list(cfg.get("feats", ALLF))
    k = cfg.get("spell", 0)
    if k == 1:
        return (f for f in feats)
    if k == 2:
        return frozenset(wishbone.Feature(f) for f in feats)
    if k == 3:
        return tuple(wishbone.Feature(f) if i % 2 else f for i, f in enumerate(feats))
    return feats


def again(x):
    """an equal parameter value held by a DIFFERENT object (equality of signatures is about values, not object identity)"""
    if isinstance(x, bool) or x is None:
        return x
    if isinstance(x, int):
        return int(str(x))
    if isinstance(x, str):
        return "".join(list(x)) if len(x) != 1 else (x + "_")[:1]
    if isinstance(x, (tuple, list, frozenset, set)):
        return type(x)(again(y) for y in x)
    return x


def check_config(ctx, cfg):
    from amaranth import Module, unsigned, signed
    from amaranth.lib import wiring, enum
    from amaranth.lib.wiring import connect, flipped
    from amaranth.hdl import Fragment
    from amaranth_soc import csr, wishbone, event, gpio
    from amaranth_soc.memory import MemoryMap
    bad = {c: [] for c in L3}

    def res(clause):
        ctx.results.append({"name": f"{clause}@{ctx.key}", "clause": clause, "status": "discharged" if not bad[clause] else "failed",
                            "time": 0.0, "replay": {"confirmed": True, "how": "native evaluation", "detail": str(bad[clause][:4])},
                            "cfg": cfg, "known_key": f"{clause}:{cfg['kind']}:{cfg.get('what','')}", "solver": "native evaluation"})
    k = cfg["kind"]
    ctx.nontrivial = True
    if k == "wb_sig":
        feats = cfg["feats"]
        for (dw, g) in cfg["pairs"]:
            for aw in cfg["aws"]:
                # `features` is documented as an iterable of Feature: the same set in every legal spelling gives the same signature
                spellings = [list(feats), set(feats), frozenset(feats), tuple(feats), (f for f in feats),
                             {wishbone.Feature(f) for f in feats}, frozenset(wishbone.Feature(f) for f in feats),
                             [wishbone.Feature(f) if n % 2 else f for n, f in enumerate(feats)]]
                sigs_ = [wishbone.Signature(addr_width=aw, data_width=dw, granularity=g, features=sp) for sp in spellings]
                s = sigs_[(aw + dw + len(feats)) % len(sigs_)]
                for n_, t_ in enumerate(sigs_):
                    if not (t_ == sigs_[0] and sigs_[0] == t_ and flat(t_) == flat(sigs_[0]) and t_.features == sigs_[0].features):
                        bad["members_follow"].append(("spelling of features changes the signature", n_, feats))
                exp = [("adr", "Out", aw), ("dat_w", "Out", dw), ("dat_r", "In", dw), ("sel", "Out", dw // g), ("cyc", "Out", 1),
                       ("stb", "Out", 1), ("we", "Out", 1), ("ack", "In", 1)]
                exp += [(f, "In", 1) for f in ("err", "rty", "stall") if f in feats]
                exp += [("lock", "Out", 1)] if "lock" in feats else []
                exp += [("cti", "Out", 3)] if "cti" in feats else []
                exp += [("bte", "Out", 2)] if "bte" in feats else []
                if flat(s) != sorted(exp):
                    bad["members_follow"].append((aw, dw, g, feats, flat(s)))
                i = s.create()
                if not (isinstance(i, wishbone.Interface) and i.signature == s and s == i.signature):
                    bad["create_roundtrip"].append((aw, dw, g, feats))
                for f in ALLF:
                    if hasattr(i, f) != (f in feats):
                        bad["members_follow"].append(("attr", f, feats))
                if s.features != frozenset(wishbone.Feature(f) for f in feats) or (s.addr_width, s.data_width, s.granularity) != (aw, dw, g):
                    bad["members_follow"].append(("params", aw, dw, g, feats))
        for c in ("members_follow", "create_roundtrip"):
            res(c)
        return
    if k == "wb_eq":
        params = []
        for f in cfg["feats"][::3]:
            for (aw, dw, g) in ((1, 8, 8), (2, 8, 8), (1, 16, 8), (1, 16, 16)):
                params.append((aw, dw, g, tuple(f)))
        params += [(300, 64, 8, ()), (1000, 64, 16, ("err",))]
        sigs = [wishbone.Signature(addr_width=a, data_width=d, granularity=g, features=f) for a, d, g, f in params]
        sigs2 = [wishbone.Signature(addr_width=again(a), data_width=again(d), granularity=again(g), features=again(f)) for a, d, g, f in params]
        for (p, s), (q, t) in itertools.chain(itertools.product(zip(params, sigs), repeat=2), itertools.product(zip(params, sigs), zip(params, sigs2))):
            if (s == t) != (p == q):
                bad["eq_exact"].append((p, q))
        if sigs[0] == csr.Signature(addr_width=1, data_width=8) or sigs[0] == 5:
            bad["eq_exact"].append("equal to a foreign object")
        res("eq_exact"); return
    if k == "csr_sig":
        ps = list(itertools.product(cfg["aws"], cfg["dws"]))
        sigs = [csr.Signature(addr_width=a, data_width=d) for a, d in ps]
        for (a, d), s in zip(ps, sigs):
            if flat(s) != sorted([("addr", "Out", a), ("r_data", "In", d), ("r_stb", "Out", 1), ("w_data", "Out", d), ("w_stb", "Out", 1)]):
                bad["members_follow"].append((a, d))
            i = s.create()
            if not (isinstance(i, csr.Interface) and i.signature == s):
                bad["create_roundtrip"].append((a, d))
        sigs2 = [csr.Signature(addr_width=again(a), data_width=again(d)) for a, d in ps]
        for (p, s), (q, t) in itertools.chain(itertools.product(zip(ps, sigs), repeat=2), itertools.product(zip(ps, sigs), zip(ps, sigs2))):
            if (s == t) != (p == q):
                bad["eq_exact"].append((p, q))
        for c in L3[:3]:
            res(c)
        return
    if k == "element_sig":
        ps = list(itertools.product(cfg["widths"], cfg["access"]))
        sigs = [csr.Element.Signature(w, a) for w, a in ps]
        for (w, a), s in zip(ps, sigs):
            exp = []
            if "r" in a:
                exp += [("r_data", "In", w), ("r_stb", "Out", 1)]
            if "w" in a:
                exp += [("w_data", "Out", w), ("w_stb", "Out", 1)]
            if flat(s) != sorted(exp):
                bad["members_follow"].append((w, a, flat(s)))
            i = s.create()
            if not (isinstance(i, csr.Element) and i.signature == s):
                bad["create_roundtrip"].append((w, a))
        sigs2 = [csr.Element.Signature(again(w), again(a)) for w, a in ps]
        for (p, s), (q, t) in itertools.chain(itertools.product(zip(ps, sigs), repeat=2), itertools.product(zip(ps, sigs), zip(ps, sigs2))):
            if (s == t) != (p == q):
                bad["eq_exact"].append((p, q))
        for c in L3[:3]:
            res(c)
        return
    if k == "fieldport_sig":
        class E(enum.Enum, shape=unsigned(2)):
            A = 0
            B = 1
        shapes = [(unsigned(0), ("u", 0)), (unsigned(8), ("u", 8)), (8, ("u", 8)), (signed(8), ("s", 8)), (range(256), ("u", 8)),
                  (E, ("enum", id(E))), (unsigned(2), ("u", 2)), (signed(1), ("s", 1))]
        ps = [(sh, key, a) for (sh, key) in shapes for a in ("r", "w", "rw", "nc")]
        sigs = [csr.FieldPort.Signature(sh, a) for sh, _, a in ps]
        from amaranth.hdl import Shape
        for (sh, key, a), s in zip(ps, sigs):
            w = Shape.cast(sh).width
            if flat(s) != sorted([("r_data", "In", w), ("r_stb", "Out", 1), ("w_data", "Out", w), ("w_stb", "Out", 1)]):
                bad["members_follow"].append((key, a))
            i = s.create()
            if not (isinstance(i, csr.FieldPort) and i.signature == s):
                bad["create_roundtrip"].append((key, a))
        for (p, s), (q, t) in itertools.product(zip(ps, sigs), repeat=2):
            same = (Shape.cast(p[0]) == Shape.cast(q[0])) and p[2] == q[2]       # "cast shapes" as the property says
            if (s == t) != same:
                bad["eq_exact"].append((p[1], p[2], q[1], q[2]))
        for c in L3[:3]:
            res(c)
        return
    if k == "source_sig":
        ps = ["level", "rise", "fall"]
        sigs = [event.Source.Signature(trigger=t) for t in ps]
        for p, s in zip(ps, sigs):
            if flat(s) != sorted([("i", "Out", 1), ("trg", "In", 1)]):
                bad["members_follow"].append(p)
            i = s.create()
            if not (isinstance(i, event.Source) and i.signature == s and i.trigger == s.trigger):
                bad["create_roundtrip"].append(p)
        for (p, s), (q, t) in itertools.product(zip(ps, sigs), repeat=2):
            if (s == t) != (p == q):
                bad["eq_exact"].append((p, q))
        for c in L3[:3]:
            res(c)
        return
    if k == "pin_sig":
        s = gpio.PinSignature()
        if flat(s) != sorted([("i", "In", 1), ("o", "Out", 1), ("oe", "Out", 1)]):
            bad["members_follow"].append(flat(s))
        if not (s == gpio.PinSignature()) or not s.create().signature == s:
            bad["create_roundtrip"].append("pin")
        res("members_follow"); res("create_roundtrip"); return
    # connect
    what = cfg["what"]
    m = Module()
    try:
        if what in ("mux", "csr_decoder", "csr_bridge", "event_monitor", "gpio"):
            if what == "mux":
                from . import mux
                comp = mux.build({"dw": 8, "aw": 4, "align": 0, "ov": None, "regs": [[8, "rw", None, None], [20, "r", None, None]]}); port = comp.bus
            elif what == "csr_decoder":
                comp = csr.Decoder(addr_width=6, data_width=8); port = comp.bus
            elif what == "csr_bridge":
                b = csr.Builder(addr_width=4, data_width=8); b.add("r", csr.Register(csr.Field(csr.action.RW, 8), access="rw"))
                comp = csr.Bridge(b.as_memory_map()); port = comp.bus
            elif what == "event_monitor":
                em = event.EventMap(); em.add(event.Source(path=("s",)))
                comp = csr.event.EventMonitor(em, data_width=8); port = comp.bus
            else:
                comp = gpio.Peripheral(pin_count=4, addr_width=4, data_width=8); port = comp.bus
            ini = csr.Interface(addr_width=port.addr_width, data_width=port.data_width, path=("ini",))
            m.submodules.c = comp
            connect(m, ini, port)
        elif what in ("wb_csr_bridge", "wb_decoder", "sram"):
            if what == "wb_csr_bridge":
                bus = csr.Interface(addr_width=4, data_width=8, path=("csr",)); bus.memory_map = MemoryMap(addr_width=4, data_width=8)
                from amaranth_soc.csr.wishbone import WishboneCSRBridge
                comp = WishboneCSRBridge(bus, data_width=cfg.get("bridge_dw", 32)); port = comp.wb_bus
            elif what == "wb_decoder":
                comp = wishbone.Decoder(addr_width=6, data_width=32, granularity=8, features=spelled(cfg)); port = comp.bus
                want_sig = wishbone.Signature(addr_width=6, data_width=32, granularity=8, features=cfg.get("feats", ALLF))
                if port.signature != want_sig or port.features != want_sig.features:
                    bad["connects"].append(f"wb_decoder(features spelled #{cfg.get('spell', 0)} {cfg.get('feats', ALLF)}): port signature {port.signature!r} is not {want_sig!r}")
            else:
                from amaranth_soc.wishbone.sram import WishboneSRAM
                sz, dwid, gr = cfg.get("sram", (16, 32, 8))
                comp = WishboneSRAM(size=sz, data_width=dwid, granularity=gr); port = comp.wb_bus
                rows = sz * (gr or dwid) // dwid
                want_sig = wishbone.Signature(addr_width=(rows - 1).bit_length(), data_width=dwid, granularity=gr)
                if port.signature != want_sig:
                    bad["connects"].append(f"WishboneSRAM{cfg.get('sram')}: port signature {port.signature!r} is not {want_sig!r}")
            ini = wishbone.Interface(addr_width=port.addr_width, data_width=port.data_width, granularity=port.granularity,
                                     features=cfg.get("feats", port.features) if what == "wb_decoder" else port.features, path=("ini",))
            m.submodules.c = comp
            connect(m, ini, port)
        else:
            fts = cfg.get("feats", ALLF)
            comp = wishbone.Arbiter(addr_width=4, data_width=32, granularity=8, features=spelled(cfg))
            comp.add(wishbone.Interface(addr_width=4, data_width=32, granularity=8, features=fts, path=("i0",)))
            tgt = wishbone.Interface(addr_width=4, data_width=32, granularity=8, features=fts, path=("tgt",))
            want_sig = wishbone.Signature(addr_width=4, data_width=32, granularity=8, features=fts)
            if comp.bus.signature != want_sig:
                bad["connects"].append(f"arbiter(features spelled #{cfg.get('spell', 0)} {fts}): bus signature {comp.bus.signature!r} is not {want_sig!r}")
            m.submodules.c = comp
            connect(m, comp.bus, flipped(tgt))
        Fragment.get(m, None)
    except Exception as e:
        bad["connects"].append(f"{what}: {type(e).__name__}: {str(e)[:160]}")
    res("connects")


def main(run: Run):
    cfgs = configs(run.tier, run.seed)
    run.require(*L3)
    run.assumptions += ["L3 part is a bounded stand-in: runtime contracts over enumerated parameter tuples (all 64 Wishbone feature subsets x 10 width "
                        "pairs x address widths; CSR/Element/FieldPort/Source/Pin scopes as listed in the module)",
                        "port direction is a fact about amaranth.lib.wiring applied in __init__; no contract within reach proves it for all parameters"]
    run.bounded_notes.append("create() round trip, member tables, connect(): bounded")
    run_configs(run, __name__, cfgs, must_accept=True)
    from . import C20_l1
    C20_l1.add_to(run)
    from . import validation
    validation.add_to(run, ['memory_map_setters'])
    return run.finish(
        explanation="L1: every Signature.__eq__ proved equivalent to 'same class and equal defining parameters' by pyvc (unbounded). "
                    "L3: create() round trip, equality exactness over all pairs of the scope, member presence/direction/width tables, and "
                    "wiring.connect() of the complementary interface to every bus-facing port - evaluated natively (bounded).",
        rule="case = one signature family chunk or one component port; all non-trivial")
