"""L1 part of C20: Signature.__eq__ contracts (contracts/signatures.py)."""
import time
from ..pyvc.driver import discharge_all
from ..pyvc.engine import Unsupported
from ..common import BASE_ASSUMPTIONS_L1


def add_to(run):
    from contracts import signatures as c
    obs = []
    for f in c.all_verifiers():
        try:
            fv = f()
        except Unsupported as e:
            run.undecided.append(f"Signature.__eq__: unsupported construct: {e}")
            continue
        run.functions["amaranth_soc." + fv.qualname] = f"proved ({fv.paths} paths, {len(fv.obs)} obligations)"
        run.require(f"{fv.qualname}::equal-iff-same-class-and-all-parameters-equal")
        obs += fv.obs
    try:
        for fv in c.verify_memory_map_setters():
            run.functions["amaranth_soc." + fv.qualname] = f"proved ({fv.paths} paths, {len(fv.obs)} obligations)"
            run.require(f"{fv.qualname}::accepts-only-a-map-with-the-bus-geometry")
            obs += fv.obs
    except Unsupported as e:
        run.bounded_notes.append(f"memory_map setters: outside the pyvc subset on this tree ({e}); the bounded validation clause decides")
    run.assumptions += BASE_ASSUMPTIONS_L1 + ["parameters are canonical values (enum members, frozensets, cast shapes) whose Python equality is "
                                              "the equality of the integers standing for them; Shape.cast is uninterpreted"]
    discharge_all(run, obs, timeout_ms=10000)
