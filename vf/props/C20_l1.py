"""L1 part of C20: Signature.__eq__ contracts (contracts/signatures.py)."""
import time
from ..pyvc.driver import discharge_all
from ..pyvc.engine import Unsupported
from ..common import BASE_ASSUMPTIONS_L1


def add_to(run):
    from contracts import signatures as c
    obs = []
    for f in c.all_verifiers():
        try:
            fv = f()
        except Unsupported as e:
            run.undecided.append(f"Signature.__eq__: unsupported construct: {e}")
            continue
        run.functions["amaranth_soc." + fv.qualname] = f"proved ({fv.paths} paths, {len(fv.obs)} obligations)"
        run.require(f"{fv.qualname}::equal-iff-same-class-and-all-parameters-equal")
        obs += fv.obs
    try:
        for fv in c.verify_memory_map_setters():
            run.functions["amaranth_soc." + fv.qualname] = f"proved ({fv.paths} paths, {len(fv.obs)} obligations)"
            run.require(f"{fv.qualname}::accepts-only-a-map-with-the-bus-geometry")
            obs += fv.obs
    except Unsupported as e:
        run.bounded_notes.append(f"memory_map setters: outside the pyvc subset on this tree ({e}); the bounded validation clause decides")
    # the constructors of all six signature classes, for all parameter values
    try:
        from contracts import sig_init
        for f in sig_init.ALL:
            fv = f()
            run.functions["amaranth_soc." + fv.qualname] = f"proved ({fv.paths} paths, {len(fv.obs)} obligations): accepts iff the parameters are valid, stores them as given, member table follows them"
            run.require(f"{fv.qualname}::accepts-only-valid-parameters", f"{fv.qualname}::no-other-member")
            obs += fv.obs
        # create() -> interface constructor -> signature constructor: every link hands the parameters on unchanged, so (with __eq__ above)
        # create().signature == the original, for all parameter values
        for f in sig_init.ROUND_TRIP:
            fv = f()
            run.functions["amaranth_soc." + fv.qualname] = f"proved ({fv.paths} paths, {len(fv.obs)} obligations): hands the signature parameters on unchanged"
            obs += fv.obs
        run.require("wishbone.bus.Signature.create::parameter-features-is-the-signature's-own", "wishbone.bus.Interface.__init__::signature-parameter-granularity-as-given",
                    "csr.bus.Element.Signature.create::parameter-access-is-the-signature's-own", "csr.reg.FieldPort.Signature.create::the-signature-itself-is-handed-over",
                    "event.Source.__init__::signature-parameter-trigger-as-given", "csr.bus.Interface.__init__::that-signature-handed-to-the-interface-base")
        run.require("wishbone.bus.Signature.__init__::features-iterated-exactly-once")
        run.assumptions.append("signature constructors: In/Out, wiring.Signature.__init__, Feature(), Element.Access(), FieldPort.Access(), Source.Trigger(), Shape.cast() and unsigned() are recording stubs (unsigned(w) stands for its width); a feature "
                               "iterable is abstract (which features it yields is an uninterpreted predicate, whether all convert a free Boolean)")
    except Unsupported as e:
        run.bounded_notes.append(f"signature constructors: outside the pyvc subset on this tree ({e}); the bounded member tables decide")
    run.assumptions += BASE_ASSUMPTIONS_L1 + ["parameters are canonical values (enum members, frozensets, cast shapes) whose Python equality is "
                                              "the equality of the integers standing for them; Shape.cast is uninterpreted"]
    discharge_all(run, obs, timeout_ms=10000)
