"""Shared contract for wishbone.Arbiter.elaborate() -- serves C08 (ownership, isolation, no pre-emption) and
C09 (round-robin next-owner function, ranking/no starvation).

Owner is defined OBSERVATIONALLY (names no internal signal such as `grant`):
    own_i(s)  :=  "from state s, if only initiator i asserts cyc, the shared bus shows cyc = 1"
Invariant Inv(s) := exactly one i has own_i(s).  Obligations: reset => Inv;  Inv & T => Inv'  (this excludes the
unreachable encodings of the grant register for non-power-of-two N without naming it); every clause assumes Inv.
"""
import itertools, random
import z3
from ..hdl.harness import Refused

ALLF = ["err", "rty", "stall", "lock", "cti", "bte"]
C08_CLAUSES = ["inv_init", "inv_step", "owner_request_fanout", "owner_response", "nonowner_isolated", "busy_keeps_owner", "bus_as_configured"]
C09_CLAUSES = ["next_owner_closest", "stays_when_alone", "held_keeps_owner", "rank_decreases", "inv_init", "inv_step", "bus_as_configured"]


def configs(tier, seed, salt=0):
    rng = random.Random(seed * 31 + salt)
    cfgs = []
    base = {"aw": 3, "dw": 32, "agran": 8}
    nmax = 6 if tier == "quick" else 12
    # every N with all-features and no-features arbiters
    for n in range(1, nmax + 1):
        cfgs.append(dict(base, n=n, afeat=[], ifeats=[[] for _ in range(n)], igrans=[8] * n))
        cfgs.append(dict(base, n=n, afeat=ALLF, ifeats=[ALLF for _ in range(n)], igrans=[8] * n))
        cfgs.append(dict(base, n=n, afeat=["lock"], ifeats=[(["lock"] if i % 2 == 0 else []) for i in range(n)], igrans=[8] * n))
    # many initiators (grant registers wider than 5 bits, indices beyond 32): breakage that only shows from a size upward
    # (for these the O(N^2) next-owner clauses are proved for a directed subset of (owner, requester) pairs: see check_config)
    for n in (34,) if tier == "quick" else (17, 33, 34, 65):
        cfgs.append(dict(base, n=n, afeat=[], ifeats=[[] for _ in range(n)], igrans=[8] * n, big=True))
        if salt == 9:
            cfgs.append(dict(base, n=n, afeat=["lock"], ifeats=[(["lock"] if i % 3 else []) for i in range(n)], igrans=[8] * n, big=True))
    # all 64 arbiter feature subsets with mixed initiators, N = 2, 3
    subsets = [list(c) for r in range(7) for c in itertools.combinations(ALLF, r)]
    for af in subsets if tier == "thorough" else rng.sample(subsets, 20) + [["stall"], ["err", "rty"], ["cti"], ["bte"], ["lock", "stall"]]:
        for n in (2, 3):
            ifeats = []
            for i in range(n):
                f = [x for x in ALLF if rng.random() < 0.5]
                for need in ("err", "rty"):
                    if need in af and need not in f:
                        f.append(need)
                ifeats.append(f)
            cfgs.append(dict(base, n=n, afeat=af, ifeats=ifeats, igrans=[8] * n))
    # granularity / width pairs
    for dw, ag in [(8, 8), (16, 8), (16, 16), (32, 8), (32, 16), (32, 32), (64, 8), (64, 16), (64, 32), (64, 64)]:
        grans = [g for g in (8, 16, 32, 64) if ag <= g <= dw]
        n = 3 if tier == "quick" else 4
        cfgs.append({"aw": 2, "dw": dw, "agran": ag, "n": n, "afeat": ["stall", "lock"],
                     "ifeats": [rng.sample(ALLF, rng.randint(0, 6)) for _ in range(n)],
                     "igrans": [rng.choice(grans) for _ in range(n)]})
    cfgs.append({"aw": 0, "dw": 8, "agran": 8, "n": 2, "afeat": [], "ifeats": [[], ["stall"]], "igrans": [8, 8]})
    # the same components reached by other legal routes: features spelled as Feature members; refused add() calls in between
    for c in cfgs:
        if c.get("big") and tier == "quick":
            c["marks"] = [0, 5, 31, 32, 33, c["n"] - 1]
    for k, c in enumerate(cfgs):
        if k % 3 == 1:
            c["enum_features"] = True
        if k % 4 == 3 and c["afeat"]:
            c["iter_features"] = True
        if k % 4 == 2:
            c["refused_before"] = sorted({0, c["n"]} if k % 8 == 2 else {c["n"] // 2})
        if k % 5 == 3 and c["n"] >= 2:
            c["elab_before"] = [c["n"] - 1] if k % 2 else [1, c["n"] - 1]
    return cfgs


REFUSED = []      # interfaces whose add() was refused in the last build(): their signals stay free inputs of the netlist


def build(cfg, upto=None):
    from amaranth_soc import wishbone
    intrs = []
    del REFUSED[:]

    def add(arb, i):
        it = wishbone.Interface(addr_width=cfg["aw"], data_width=cfg["dw"], granularity=cfg["igrans"][i],
                                features=cfg["ifeats"][i], path=(f"i{i}",))
        arb.add(it)            # (Arbiter.add() takes the interface itself: unlike Decoder.add() it does not document a flipped one)
        intrs.append(it)
    def refused_add(arb, k):
        """an add() the arbiter must refuse (other address width, or an initiator without the arbiter's err/rty outputs);
        afterwards the arbiter must behave as if the call had never been made"""
        feats = [f for f in cfg["afeat"] if f not in ("err", "rty")]
        if k % 2 == 0 and any(f in cfg["afeat"] for f in ("err", "rty")):
            it = wishbone.Interface(addr_width=cfg["aw"], data_width=cfg["dw"], granularity=cfg["agran"], features=feats, path=(f"refused{k}",))
        else:
            it = wishbone.Interface(addr_width=cfg["aw"] + 1, data_width=cfg["dw"], granularity=cfg["agran"], features=cfg["afeat"], path=(f"refused{k}",))
        REFUSED.append(it)
        try:
            arb.add(it)
        except (ValueError, TypeError):
            pass
    try:
        afeat = cfg["afeat"]
        if cfg.get("enum_features"):
            # the documented spelling with Feature members instead of strings: the same component must result
            afeat = {wishbone.Feature(f) for f in afeat}
        if cfg.get("iter_features"):
            # ... or any other iterable, including a one-shot iterator
            afeat = iter(sorted(afeat, key=str))
        kw_ = {"granularity": cfg["agran"], "features": afeat}
        if cfg["n"] % 2 == 1 and not cfg["afeat"]:
            del kw_["features"]                       # documented defaults: no features, granularity = data width
        if cfg["n"] % 2 == 1 and cfg["agran"] == cfg["dw"]:
            del kw_["granularity"]
        arb = wishbone.Arbiter(addr_width=cfg["aw"], data_width=cfg["dw"], **kw_)
        for i in range(cfg["n"] if upto is None else upto):
            if i in cfg.get("refused_before", ()):
                refused_add(arb, i)
            if i in cfg.get("elab_before", ()):
                from amaranth.hdl import Fragment
                Fragment.get(arb, None)          # elaborated once with the initiators added so far; more are added afterwards
            add(arb, i)
        if cfg["n"] in cfg.get("refused_before", ()) and upto is None:
            refused_add(arb, cfg["n"])
    except (ValueError, TypeError) as e:
        raise Refused(str(e))
    if upto is not None:
        return arb, intrs, lambda i: add(arb, i)
    return arb, intrs


def sigs_of(iface):
    out = []
    for path, member, sig in iface.signature.flatten(iface):
        out.append(sig.as_value() if hasattr(sig, "as_value") else sig)
    return out


def check_config(ctx, cfg, which):
    arb, intrs = build(cfg)
    n = len(intrs)
    probes = []
    for it in intrs + REFUSED:         # a refused interface is somebody else's: whatever it carries must not matter to the arbiter
        probes += sigs_of(it)
    nl = ctx.netlist(arb, probes=probes)
    ctx.nontrivial = n >= 2
    bus = arb.bus
    # the shared bus is the one that was CONFIGURED (however the feature set was spelled): the clauses below look at the signals the
    # bus has, so a bus that silently lost its optional signals would satisfy them vacuously
    from amaranth_soc import wishbone as _wb
    want_sig = _wb.Signature(addr_width=cfg["aw"], data_width=cfg["dw"], granularity=cfg["agran"], features=set(cfg["afeat"]))
    ctx.prove("bus_as_configured", z3.BoolVal(bus.signature == want_sig and all(hasattr(bus, f) for f in cfg["afeat"])))
    S = lambda x: x.as_value() if hasattr(x, "as_value") else x
    one, zero = z3.BitVecVal(1, 1), z3.BitVecVal(0, 1)
    f0 = nl.frame("0"); f1 = nl.frame("1", prev=f0); fr = nl.frame("r", state=nl.reset_state())

    _own = {}

    def own(frame, i):
        if (id(frame), i) not in _own:
            _own[id(frame), i] = own_(frame, i)
        return _own[id(frame), i]

    def own_(frame, i):
        x = frame.experiment([(it.cyc, 1 if j == i else 0) for j, it in enumerate(intrs)])
        return x.val(bus.cyc) == one

    def inv(frame):
        return z3.PbEq([(own(frame, i), 1) for i in range(n)], 1)

    I = lambda f, s: f.inp(S(s))
    V = lambda f, s: f.val(S(s))
    fr_all = [f0, f1]
    ctx.prove("inv_init", inv(fr), frames=[fr])
    ctx.prove("inv_step", inv(f1), [inv(f0)], frames=fr_all)
    ctx.sat("inv_reachable", inv(f0))
    H = [inv(f0)]
    cycs = [I(f0, it.cyc) for it in intrs]
    big = cfg.get("big") and n > 12
    marks = sorted({x % n for x in cfg.get("marks", (0, 1, 5, 15, 16, 17, 31, 32, 33, 63, 64, 65, n - 2, n - 1))})
    if big:
        ctx.cfg_note = f"N={n}: per-owner clauses proved for owners/requesters in {marks} and their neighbours only (directed subset)"
    for i, it in enumerate(intrs):
        if big and i not in marks:
            continue
        oi = own(f0, i)
        lock_i = I(f0, it.lock) if hasattr(it, "lock") else zero
        busy = cycs[i] == 1
        if hasattr(bus, "lock"):
            busy = z3.And(busy, z3.Or(lock_i == 1, I(f0, it.stb) == 1))
        if which == "C08":
            ratio = it.granularity // bus.granularity
            nb = len(bus.sel)
            isel = I(f0, it.sel)
            bits = [z3.Extract(b // ratio, b // ratio, isel) for b in range(nb)]
            selx = bits[0] if nb == 1 else z3.Concat(*reversed(bits))
            req = [V(f0, bus.dat_w) == I(f0, it.dat_w), V(f0, bus.sel) == selx, V(f0, bus.we) == I(f0, it.we),
                   V(f0, bus.stb) == I(f0, it.stb), V(f0, bus.cyc) == I(f0, it.cyc)]
            if len(bus.adr):
                req.append(V(f0, bus.adr) == I(f0, it.adr))
            for opt in ("lock", "cti", "bte"):
                if hasattr(bus, opt):
                    b = V(f0, getattr(bus, opt))
                    req.append(b == (I(f0, getattr(it, opt)) if hasattr(it, opt) else z3.BitVecVal(0, b.size())))
            ctx.prove("owner_request_fanout", z3.And(*req), H + [oi], frames=[f0])
            resp = [V(f0, it.ack) == I(f0, bus.ack), V(f0, it.dat_r) == I(f0, bus.dat_r)]
            if hasattr(it, "err"):
                resp.append(V(f0, it.err) == (I(f0, bus.err) if hasattr(bus, "err") else zero))
            if hasattr(it, "rty"):
                resp.append(V(f0, it.rty) == (I(f0, bus.rty) if hasattr(bus, "rty") else zero))
            if hasattr(it, "stall"):
                resp.append(V(f0, it.stall) == (I(f0, bus.stall) if hasattr(bus, "stall") else ~I(f0, bus.ack)))
            ctx.prove("owner_response", z3.And(*resp), H + [oi], frames=[f0])
            non = [V(f0, it.ack) == 0]
            if hasattr(it, "err"):
                non.append(V(f0, it.err) == 0)
            if hasattr(it, "rty"):
                non.append(V(f0, it.rty) == 0)
            if hasattr(it, "stall"):
                non.append(V(f0, it.stall) == 1)
            ctx.prove("nonowner_isolated", z3.And(*non), H + [z3.Not(oi)], frames=[f0])
            ctx.prove("busy_keeps_owner", own(f1, i), H + [oi, busy], frames=fr_all)
            if i == 0 and n >= 2:
                ctx.canary("always_keeps_owner", z3.Implies(z3.And(inv(f0), oi), own(f1, i)))
        else:
            for d in range(1, n):
                j = (i + d) % n
                if big and not (d in (1, 2, n - 1) or j in marks):
                    continue
                cond = [cycs[j] == 1] + [cycs[(i + e) % n] == 0 for e in range(1, d)]
                ctx.prove("next_owner_closest", own(f1, j), H + [oi, z3.Not(busy)] + cond, frames=fr_all)
                # ranking: k = j requests and is not owner; after a released cycle the owner is strictly closer to k
                ctx.prove("rank_decreases", z3.Or(*[own(f1, (i + e) % n) for e in range(1, d + 1)]),
                          H + [oi, z3.Not(busy), cycs[j] == 1], frames=fr_all)
            ctx.prove("stays_when_alone", own(f1, i), H + [oi] + [cycs[j] == 0 for j in range(n) if j != i],
                      frames=fr_all)
            # "exact next-owner function on EVERY transition": a held bus keeps its owner (also C08's busy_keeps_owner)
            ctx.prove("held_keeps_owner", own(f1, i), H + [oi, busy], frames=fr_all)
            if i == 0 and n >= 3:
                ctx.canary("fixed_priority", z3.Implies(z3.And(inv(f0), oi, z3.Not(busy), cycs[2] == 1), own(f1, 2)))
