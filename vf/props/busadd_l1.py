"""L1 contracts on the add() methods of the bus components (contracts/busadd.py): shared by C06, C07, C08."""
from ..pyvc.driver import discharge_all
from ..pyvc.engine import Unsupported
from ..common import BASE_ASSUMPTIONS_L1

WHICH = {"wb_decoder_add": ("verify_wb_decoder_add", "amaranth_soc.wishbone.bus.Decoder.add", "wishbone.bus.Decoder.add::refuses-only-the-excluded-combinations"),
         "arbiter_add": ("verify_wb_arbiter_add", "amaranth_soc.wishbone.bus.Arbiter.add", "wishbone.bus.Arbiter.add::refuses-only-the-excluded-combinations"),
         "csr_decoder_add": ("verify_csr_decoder_add", "amaranth_soc.csr.bus.Decoder.add", "csr.bus.Decoder.add::accepts-only-the-same-data-width")}


def add_to(run, names):
    from contracts import busadd as c
    obs = []
    for n in names:
        fname, qual, req = WHICH[n]
        try:
            fv = getattr(c, fname)()
        except Unsupported as e:
            run.functions[qual] = f"unsupported: {e} (the bounded validation clause decides)"
            run.bounded_notes.append(f"{qual}: outside the pyvc subset on this tree ({e}); bounded validation clause decides")
            continue
        run.functions[qual] = f"proved ({fv.paths} paths, {len(fv.obs)} obligations): validation decisions for ALL widths/granularities/feature sets"
        run.require(req)
        obs += fv.obs
    if obs:
        run.assumptions.append("add() contracts (pyvc): optional signals are an uninterpreted predicate HasF(bus, feature) shared by hasattr() and "
                               "`Feature(f) in bus.features` (wishbone.Interface creates exactly the members its signature's features name: C20); "
                               "the loop over the literal feature set is unrolled; what add_window does with the window is C02/C18")
        discharge_all(run, obs, timeout_ms=20000)
