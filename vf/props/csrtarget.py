"""Generic CSR-target contract: what any component exposing a CSR bus with a memory map owes its registers.

Used for csr.Multiplexer alone (C04/C05: registers are mock components whose element.r_data is a free input), and
re-checked on flattened real hierarchies (C06 trees, C14 event monitor, C16 GPIO, C01) with the addresses that
`memory_map.all_resources()` reports.

Read side (C04)
  r_stb_exact     elem_R.r_stb = bus.r_stb & (addr = R.start)                       ALL states and inputs
  zero_when_idle  !(bus.r_stb & addr in a readable register)  =>  bus.r_data' = 0    ALL states and inputs
  snapshot_inv / snapshot_data
      ghost monitor (open, reg, pos, snap): a read of R.start opens a transaction and records elem_R.r_data;
      a read of chunk k of the open register with k > pos continues it; any other read of a chunk k>=1 closes it.
      Invariant (observational, names no internal signal): for every not-yet-read chunk k of the open register, the
      EXPERIMENT "read R.start+k now" would return slice k of the snapshot next cycle.
      Claim: whenever the monitor knows the expected value, bus.r_data' equals it (zero-extended in padding chunks).
Write side (C05)
  w_stb_exact     elem_R.w_stb' = bus.w_stb & (addr = R.stop-1)                      ALL states and inputs
  w_data_stable   elem_R.w_data depends on state only (so it is what the register sees at the strobe)
  write_inv       ghost (open, reg, pos, mask, vals): every chunk written in the open transaction is held in the matching
                  slice of elem_R.w_data - in particular in the cycle of the strobe
  write_frame     a write outside every writable register changes no elem.w_data
"""
import z3


def zext(x, w):
    return z3.ZeroExt(w - x.size(), x) if x.size() < w else x


def chunk(x, k, dw):
    """slice k (dw bits) of x, zero-extended; x may be None (zero width)"""
    if x is None:
        return z3.BitVecVal(0, dw)
    lo = k * dw
    if lo >= x.size():
        return z3.BitVecVal(0, dw)
    hi = min(x.size(), lo + dw)
    return zext(z3.Extract(hi - 1, lo, x), dw)


def regs_from_map(memory_map, root=True):
    """Registers as the map reports them: all_resources() for trees (root addresses)."""
    regs = []
    for info in memory_map.all_resources():
        r = info.resource
        if not hasattr(r, "element"):
            continue
        regs.append({"res": r, "elem": r.element, "start": info.start, "stop": info.end, "width": r.element.width,
                     "access": r.element.access.value, "name": "/".join("_".join(str(p) for p in n) for n in info.path)})
    return regs


def range_covers_width(ctx, regs, dw, cfg):
    """every bit of a register must be reachable at the addresses the map reports: (end - start) * data_width >= width"""
    bad = [(R["name"], R["start"], R["stop"], R["width"]) for R in regs if (R["stop"] - R["start"]) * dw < R["width"]]
    ctx.results.append({"name": f"range_covers_width@{ctx.key}", "clause": "range_covers_width", "status": "discharged" if not bad else "failed",
                        "time": 0.0, "replay": {"confirmed": True, "how": "native: memory map ranges vs. register widths",
                                                "detail": f"(name, start, end, width) with too few addresses for a {dw}-bit bus: {bad}"},
                        "cfg": cfg, "known_key": "range_covers_width", "solver": "native evaluation"})


def elem_signals(regs):
    out = []
    for R in regs:
        e = R["elem"]
        for nm in ("r_data", "r_stb", "w_data", "w_stb"):
            if hasattr(e, nm):
                out.append(getattr(e, nm))
    return out


def _quiet_inputs(nl, keep):
    keep_ids = {id(s) for s in keep}
    return [(s, 0) for s in nl.input_signals() if id(s) not in keep_ids and s.name not in ("clk", "rst") and len(s) > 0]


def read_clauses(ctx, nl, bus, regs, tag="", known_key=None):
    dw = len(bus.r_data)
    aw = len(bus.addr)
    one, zero = z3.BitVecVal(1, 1), z3.BitVecVal(0, 1)
    f0 = nl.frame("0" + tag); f1 = nl.frame("1" + tag, prev=f0)
    addr, r_stb = f0.inp(bus.addr), f0.inp(bus.r_stb)
    readable = [(i, R) for i, R in enumerate(regs) if R["access"] in ("r", "rw")]
    A = lambda v: z3.BitVecVal(v, aw)
    kk = known_key
    for i, R in readable:
        ctx.prove("r_stb_exact", f0.val(R["elem"].r_stb) == z3.If(z3.And(r_stb == 1, addr == A(R["start"])), one, zero),
                  frames=[f0], known_key=kk)
    inrange = z3.Or(*[z3.And(z3.UGE(addr, A(R["start"])), z3.ULE(addr, A(R["stop"] - 1))) for _, R in readable]) \
        if readable else z3.BoolVal(False)
    rd1 = f1.val(bus.r_data)
    ctx.prove("zero_when_idle", z3.Implies(z3.Not(z3.And(r_stb == 1, inrange)), rd1 == 0), frames=[f0, f1], known_key=kk)
    if not readable:
        return
    maxw = max([R["width"] for _, R in readable] + [1])
    g_open = z3.Bool("g_open" + tag); g_reg = z3.BitVec("g_reg" + tag, 8); g_pos = z3.BitVec("g_pos" + tag, 8)
    g_snap = z3.BitVec("g_snap" + tag, maxw)
    quiet = _quiet_inputs(nl, [bus.addr, bus.r_stb])

    def observe(frame, a):
        x = frame.experiment([(bus.addr, a), (bus.r_stb, 1)] + quiet)
        nx = nl.frame("x", prev=x)
        return nx.val(bus.r_data)

    def inv(frame, open_, reg, pos, snap):
        cs = []
        for i, R in readable:
            w = R["width"]
            sn = z3.Extract(w - 1, 0, snap) if w > 0 else None
            for k in range(1, R["stop"] - R["start"]):
                cs.append(z3.Implies(z3.And(open_, reg == i, z3.ULT(pos, k)),
                                     observe(frame, R["start"] + k) == chunk(sn, k, dw)))
        return z3.And(*cs) if cs else z3.BoolVal(True)

    n_open, n_reg, n_pos, n_snap = g_open, g_reg, g_pos, g_snap
    expd = z3.BitVecVal(0, dw)
    known = z3.Not(z3.And(r_stb == 1, inrange))
    for i, R in readable:
        w = R["width"]
        rd = f0.val(R["elem"].r_data) if w > 0 else None
        first = z3.And(r_stb == 1, addr == A(R["start"]))
        snapval = zext(rd, maxw) if rd is not None else z3.BitVecVal(0, maxw)
        n_open = z3.If(first, True, n_open); n_reg = z3.If(first, z3.BitVecVal(i, 8), n_reg)
        n_pos = z3.If(first, z3.BitVecVal(0, 8), n_pos); n_snap = z3.If(first, snapval, n_snap)
        expd = z3.If(first, chunk(rd, 0, dw), expd); known = z3.Or(known, first)
        for k in range(1, R["stop"] - R["start"]):
            here = z3.And(r_stb == 1, addr == A(R["start"] + k))
            conforming = z3.And(g_open, g_reg == i, z3.ULT(g_pos, k))
            cont = z3.And(here, conforming)
            n_pos = z3.If(cont, z3.BitVecVal(k, 8), n_pos)
            sn = z3.Extract(w - 1, 0, g_snap) if w > 0 else None
            expd = z3.If(cont, chunk(sn, k, dw), expd); known = z3.Or(known, cont)
            n_open = z3.If(z3.And(here, z3.Not(conforming)), False, n_open)
    pre = inv(f0, g_open, g_reg, g_pos, g_snap)
    ctx.prove("snapshot_data", z3.Implies(known, rd1 == expd), [pre], frames=[f0, f1], known_key=kk)
    ctx.prove("snapshot_inv", inv(f1, n_open, n_reg, n_pos, n_snap), [pre], frames=[f0, f1], known_key=kk)
    fr = nl.frame("r" + tag, state=nl.reset_state())
    ctx.prove("snapshot_init", inv(fr, z3.BoolVal(False), g_reg, g_pos, g_snap), frames=[fr], known_key=kk)
    # vacuity probes
    multi = [(i, R) for i, R in readable if R["stop"] - R["start"] >= 2 and R["width"] > dw]
    if multi:
        i, R = multi[0]
        ctx.canary("second_chunk_is_first_chunk", z3.Implies(z3.And(pre, g_open, g_reg == i, g_pos == 0, r_stb == 1,
                                                                    addr == A(R["start"] + 1)),
                                                             rd1 == chunk(z3.Extract(R["width"] - 1, 0, g_snap), 0, dw)))
    i, R = readable[0]
    ctx.canary("r_stb_at_other_address", f0.val(R["elem"].r_stb) == z3.If(z3.And(r_stb == 1, addr == A((R["start"] + 1) % (1 << aw))), one, zero))


def write_clauses(ctx, nl, bus, regs, tag="", known_key=None):
    dw = len(bus.w_data)
    aw = len(bus.addr)
    one, zero = z3.BitVecVal(1, 1), z3.BitVecVal(0, 1)
    f0 = nl.frame("0w" + tag); f1 = nl.frame("1w" + tag, prev=f0)
    addr, w_stb, w_data = f0.inp(bus.addr), f0.inp(bus.w_stb), f0.inp(bus.w_data)
    writable = [(i, R) for i, R in enumerate(regs) if R["access"] in ("w", "rw")]
    A = lambda v: z3.BitVecVal(v, aw)
    kk = known_key
    for i, R in writable:
        ctx.prove("w_stb_exact", f1.val(R["elem"].w_stb) == z3.If(z3.And(w_stb == 1, addr == A(R["stop"] - 1)), one, zero),
                  frames=[f0, f1], known_key=kk)
    if not writable:
        return
    maxc = max([R["stop"] - R["start"] for _, R in writable] + [1])
    g_open = z3.Bool("w_open" + tag); g_reg = z3.BitVec("w_reg" + tag, 8); g_pos = z3.BitVec("w_pos" + tag, 8)
    g_mask = z3.BitVec("w_mask" + tag, maxc); g_vals = [z3.BitVec(f"w_val{k}{tag}", dw) for k in range(maxc)]

    def inv(frame, open_, reg, mask, vals):
        cs = []
        for i, R in writable:
            w = R["width"]
            if w == 0:
                continue
            wd = frame.val(R["elem"].w_data)
            for k in range(R["stop"] - R["start"]):
                lo = k * dw
                if lo >= w:
                    continue
                hi = min(w, lo + dw)
                cs.append(z3.Implies(z3.And(open_, reg == i, z3.Extract(k, k, mask) == 1),
                                     z3.Extract(hi - 1, lo, wd) == z3.Extract(hi - lo - 1, 0, vals[k])))
        return z3.And(*cs) if cs else z3.BoolVal(True)

    n_open, n_reg, n_pos, n_mask, n_vals = g_open, g_reg, g_pos, g_mask, list(g_vals)
    inwr = z3.BoolVal(False)
    for i, R in writable:
        for k in range(R["stop"] - R["start"]):
            hit = z3.And(w_stb == 1, addr == A(R["start"] + k))
            inwr = z3.Or(inwr, hit)
            conforming = z3.And(g_open, g_reg == i, z3.ULT(g_pos, k))
            bit = z3.BitVecVal(1 << k, maxc)
            n_open = z3.If(hit, True, n_open); n_reg = z3.If(hit, z3.BitVecVal(i, 8), n_reg)
            n_pos = z3.If(hit, z3.BitVecVal(k, 8), n_pos)
            n_mask = z3.If(z3.And(hit, conforming), g_mask | bit, z3.If(z3.And(hit, z3.Not(conforming)), bit, n_mask))
            n_vals = [z3.If(hit, w_data, n_vals[j]) if j == k else n_vals[j] for j in range(maxc)]
    pre = inv(f0, g_open, g_reg, g_mask, g_vals)
    ctx.prove("write_inv", inv(f1, n_open, n_reg, n_mask, n_vals), [pre], frames=[f0, f1], known_key=kk)
    fr = nl.frame("rw" + tag, state=nl.reset_state())
    ctx.prove("write_init", inv(fr, z3.BoolVal(False), g_reg, g_mask, g_vals), frames=[fr], known_key=kk)
    g0 = nl.frame("gw" + tag, state=f0.state)      # same state, independent inputs
    stable, frame_cl = [], []
    for i, R in writable:
        if R["width"] == 0:
            continue
        stable.append(f0.val(R["elem"].w_data) == g0.val(R["elem"].w_data))
        frame_cl.append(f1.val(R["elem"].w_data) == f0.val(R["elem"].w_data))
    if stable:
        ctx.prove("w_data_stable", z3.And(*stable), frames=[f0], known_key=kk)
        ctx.prove("write_frame", z3.Implies(z3.Not(inwr), z3.And(*frame_cl)), frames=[f0, f1], known_key=kk)
    else:
        ctx.prove("w_data_stable", z3.BoolVal(True)); ctx.prove("write_frame", z3.BoolVal(True))
    i, R = writable[0]
    if R["stop"] - R["start"] >= 2:
        ctx.canary("w_stb_on_first_chunk", f1.val(R["elem"].w_stb) == z3.If(z3.And(w_stb == 1, addr == A(R["start"])), one, zero))
    else:
        ctx.canary("w_stb_combinational", f0.val(R["elem"].w_stb) == z3.If(z3.And(w_stb == 1, addr == A(R["start"])), one, zero))


READ_CLAUSES = ["r_stb_exact", "zero_when_idle", "snapshot_data", "snapshot_inv", "snapshot_init"]
WRITE_CLAUSES = ["w_stb_exact", "write_inv", "write_init", "w_data_stable", "write_frame"]
