"""L1 contracts on peripheral constructors (contracts/ctor.py)."""
from ..pyvc.driver import discharge_all
from ..pyvc.engine import Unsupported

WHICH = {"eventmonitor_init": ("verify_eventmonitor_init", "amaranth_soc.csr.event.EventMonitor.__init__",
                               ["csr.event.EventMonitor.__init__::mask-register-size-is-ceil(events/data_width)",
                                "csr.event.EventMonitor.__init__::both-mask-registers-fit-the-address-space"]),
         "wb_csr_bridge_init": ("verify_wb_csr_bridge_init", "amaranth_soc.csr.wishbone.WishboneCSRBridge.__init__",
                                ["csr.wishbone.WishboneCSRBridge.__init__::wishbone-address-space-times-ratio-covers-the-csr-space"]),
         "gpio_init": ("verify_gpio_init", "amaranth_soc.gpio.Peripheral.__init__",
                       ["gpio.Peripheral.__init__::registers-added-in-the-order-Mode-Input-Output-SetClr",
                        "gpio.Peripheral.__init__::bus-carries-the-bridge's-memory-map",
                        "gpio.Peripheral.__init__::accepts-only-valid-parameters"]),
         "wb_decoder_init": ("verify_wb_decoder_init", "amaranth_soc.wishbone.bus.Decoder.__init__",
                             ["wishbone.bus.Decoder.__init__::signature-built-from-the-arguments-as-given", "wishbone.bus.Decoder.__init__::map-geometry-matches-the-bus",
                              "wishbone.bus.Decoder.__init__::feature-iterable-not-consumed-by-the-constructor"]),
         "wb_arbiter_init": ("verify_wb_arbiter_init", "amaranth_soc.wishbone.bus.Arbiter.__init__",
                             ["wishbone.bus.Arbiter.__init__::signature-built-from-the-arguments-as-given",
                              "wishbone.bus.Arbiter.__init__::feature-iterable-not-consumed-by-the-constructor"]),
         "csr_decoder_init": ("verify_csr_decoder_init", "amaranth_soc.csr.bus.Decoder.__init__",
                              ["csr.bus.Decoder.__init__::signature-built-from-the-arguments-as-given", "csr.bus.Decoder.__init__::map-geometry-matches-the-bus"]),
         "sram_init": ("verify_sram_init", "amaranth_soc.wishbone.sram.WishboneSRAM.__init__",
                       ["wishbone.sram.WishboneSRAM.__init__::bus-addresses-exactly-the-granules-of-the-map",
                        "wishbone.sram.WishboneSRAM.__init__::accepts-only-valid-parameters",
                        "wishbone.sram.WishboneSRAM.__init__::memory-is-the-only-resource-named-mem-of-the-full-size"])}


WHICH.update({
    "mux_check_map": ("verify_mux_check_memory_map", "amaranth_soc.csr.bus.Multiplexer._check_memory_map",
                      ["csr.bus.Multiplexer._check_memory_map::only-a-bad-register-is-refused",
                       "csr.bus.Multiplexer._check_memory_map::a-map-with-windows-is-never-accepted"]),
    "mux_init": ("verify_mux_init", "amaranth_soc.csr.bus.Multiplexer.__init__",
                 ["csr.bus.Multiplexer.__init__::accepted-only-after-the-map-was-checked",
                  "csr.bus.Multiplexer.__init__::signature-takes-its-geometry-from-the-map",
                  "csr.bus.Multiplexer.__init__::bus-carries-the-very-map-given"]),
    "reg_bridge_init": ("verify_reg_bridge_init", "amaranth_soc.csr.reg.Bridge.__init__",
                        ["csr.reg.Bridge.__init__::one-multiplexer-over-that-very-map",
                         "csr.reg.Bridge.__init__::bus-carries-the-very-map-given"]),
    "monitor_init": ("verify_monitor_init", "amaranth_soc.event.Monitor.__init__",
                     ["event.Monitor.__init__::mask-enable-is-as-wide-as-the-event-map", "event.Monitor.__init__::mask-pending-is-as-wide-as-the-event-map",
                      "event.Monitor.__init__::mask-clear-is-as-wide-as-the-event-map", "event.Monitor.__init__::src-signature-built-with-the-trigger-as-given",
                      "event.Monitor.__init__::src-carries-the-very-event-map-given"]),
    "csr_decoder_align_to": ("verify_csr_decoder_align_to", "amaranth_soc.csr.bus.Decoder.align_to",
                             ["csr.bus.Decoder.align_to::argument-forwarded-unchanged-exactly-once"]),
    "wb_decoder_align_to": ("verify_wb_decoder_align_to", "amaranth_soc.wishbone.bus.Decoder.align_to",
                            ["wishbone.bus.Decoder.align_to::argument-forwarded-unchanged-exactly-once"]),
    "reg_bridge_init_freezes": ("verify_reg_bridge_init_freezes", "amaranth_soc.csr.reg.Bridge.__init__",
                                ["csr.reg.Bridge.__init__::an-accepted-map-has-been-frozen"])})


class _Both:
    """constructor verifiers live in contracts/ctor.py and contracts/regbank_ctor.py"""
    def __getattr__(self, name):
        from contracts import ctor, regbank_ctor
        return getattr(ctor, name) if hasattr(ctor, name) else getattr(regbank_ctor, name)


def add_to(run, names):
    c = _Both()
    obs = []
    for n in names:
        fname, qual, reqs = WHICH[n]
        try:
            fv = getattr(c, fname)()
        except Unsupported as e:
            run.functions[qual] = f"unsupported: {e} (the per-configuration clauses decide)"
            run.bounded_notes.append(f"{qual}: outside the pyvc subset on this tree ({e}); per-configuration clauses decide")
            continue
        run.functions[qual] = f"proved ({fv.paths} paths, {len(fv.obs)} obligations): constructor arithmetic for ALL parameter values"
        run.require(*reqs)
        obs += fv.obs
    if obs:
        run.assumptions.append("constructor contracts (pyvc): collaborators (MemoryMap, Multiplexer, event.Monitor, wiring.Component, Signature) are "
                               "recording stubs that may also refuse; exact_log2 / ceil_log2 by their characterisation (Lean: Pow2.lean clog2_spec)")
        discharge_all(run, obs, timeout_ms=30000)
