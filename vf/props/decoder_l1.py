"""L1 contracts on the statements issued by the decoders' elaborate() (contracts/decoder_l1.py): any number of windows."""
import z3
from ..pyvc.driver import discharge_all, FnVerifier
from ..pyvc.engine import Unsupported, find_def
from ..common import BASE_ASSUMPTIONS_L1


def add_to(run, which):
    from contracts import decoder_l1 as c
    fname, qual, file, cls = {"csr": ("verify_csr_decoder_elaborate", "amaranth_soc.csr.bus.Decoder.elaborate", c.FILE, "Decoder"),
                              "wb": ("verify_wb_decoder_elaborate", "amaranth_soc.wishbone.bus.Decoder.elaborate", getattr(c, "WB_FILE", None), "Decoder")}[which]
    label = qual + " [statements issued, any number of windows]"
    try:
        fv = getattr(c, fname)()
        run.functions[label] = f"proved ({fv.paths} paths, {len(fv.obs)} obligations); reduction loop: bounded ({getattr(fv, 'reduction_detail', '')})"
        run.assumptions += BASE_ASSUMPTIONS_L1 + [
            f"{qual} contract: Amaranth objects are recording stubs; premise `every window of a csr.Decoder has ratio 1` from the add() and add_window "
            "contracts; the pairwise OR reduction after the loop is replaced by its contract (one term = OR of all) and that contract is checked "
            "natively on the loop extracted from the source for list lengths 0..64 only (bounded stand-in)"]
        run.bounded_notes.append(f"{qual}: the fan-in reduction loop is checked for 0..64 terms (bounded)")
        discharge_all(run, fv.obs, timeout_ms=10000)
    except Unsupported as e:
        run.functions[label] = f"unsupported: {e} (the per-configuration clauses decide)"
        run.bounded_notes.append(f"{qual}: outside the pyvc subset on this tree ({e}); per-configuration clauses decide")
        # the bounded check of the reduction loop does not depend on the symbolic part
        try:
            fdef = find_def(file, cls + ".elaborate")
            if which == "wb":
                import ast as _ast
                inner = [n for n in _ast.walk(fdef) if isinstance(n, _ast.FunctionDef) and n.name == "any_of"]
                ok, detail = c.reduction_bounded_fn(inner[0]) if len(inner) == 1 else (True, "no nested any_of (not applicable)")
            else:
                ok, detail = c.reduction_bounded(fdef)
        except Exception as e2:
            ok, detail = True, f"not applicable ({e2})"
        if not ok and "while loops found" not in detail and "stores to" not in detail:
            fv = FnVerifier(qual.replace("amaranth_soc.", ""), [])
            fv.add("reduction-is-the-or-of-all[<=64, bounded]", "native", [], z3.BoolVal(False))
            discharge_all(run, fv.obs, timeout_ms=10000)
            run.bounded_notes.append(f"{qual}: reduction loop check: {detail}")
