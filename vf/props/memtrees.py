"""Bounded runtime contracts for the memory map (stand-in, labelled bounded, never counted as proved).

Used by C02 and C03 (a) in the thorough tier, and (b) in the quick tier as the FALLBACK that decides whenever pyvc
reports a function of the current tree as outside its subset (`unsupported`) -- so that a rewrite pyvc cannot read is
still checked against the property on the real code, with concrete failing inputs.

  history  (C02): random call histories of add_resource / add_window / align_to / freeze with valid and invalid
           arguments, compared with a plain arithmetic reference (placement, rounding, bounds, disjointness, reporting,
           failure atomicity, freeze)
  tree     (C03): random trees of maps (sparse / ratio-1 windows at any level, dense windows over leaf maps), the expected
           list of (resource, path, start, end, width) computed by plain arithmetic; all_resources / find_resource /
           decode_address compared for every resource and EVERY address of the root
"""
import random


def _R():
    from amaranth.lib import wiring

    class R(wiring.Component):
        def __init__(self):
            super().__init__({})
    return R


def au(v, a):
    P = 1 << a
    return (v + P - 1) // P * P


def snapshot(m):
    return (list((id(r), tuple(n), rg) for r, n, rg in m.resources()), list((id(w), None if n is None else tuple(n), rg) for w, n, rg in m.windows()),
            [(id(i.resource), tuple(i.path), i.start, i.end, i.width) for i in m.all_resources()])


def cursor_probe(m):
    """the next implicit placement, observed without changing the map's reported contents: align_to(0) returns the cursor
    rounded to the map alignment (idempotent for an aligned cursor; used on both sides of a failed call)"""
    return m.align_to(0)


def run_history(seed, trials):
    from amaranth_soc.memory import MemoryMap
    R = _R()
    rng = random.Random(seed)
    problems = []
    for trial in range(trials):
        aw = rng.randint(1, 6); al = rng.choice([0, 0, 1, 2])
        # one trial in eight uses a very wide map (addresses and sizes beyond 2**53: exact integer arithmetic is required)
        big = trial % 8 == 7
        if big:
            aw = rng.randint(54, 64); al = rng.choice([0, 1, 3, 40])
        m = MemoryMap(addr_width=aw, data_width=rng.choice([8, 16, 32]), alignment=al)
        model, cursor, frozen = [], 0, False
        log = []
        names = ["a", "b", "c", ("a", "b"), ("a", 0), ("b", "c", "d"), "d", ("d", "e")]
        for step in range(rng.randint(1, 8)):
            op = rng.choice(["res", "res", "res", "win", "align", "freeze", "bad"])
            if op == "win" and not big and m.data_width > 8 and rng.random() < 0.6:
                op = "dwin"
            before = snapshot(m)
            try:
                if op == "res":
                    size = rng.choice([0, 1, 2, 3, 4, 5, 8, -1, "x"]); addr = rng.choice([None, None, None, 0, 1, 2, 3, 4, 6, 8, 12, 16, -1])
                    ala = rng.choice([None, None, 0, 1, 2, 3, -1]); name = rng.choice(names)
                    if big:
                        size = rng.choice([1, 3, (1 << 53) + 1, (1 << 56) + 1, (1 << rng.randint(50, aw - 2)) + rng.choice([0, 1, 5])])
                        addr = rng.choice([None, None, (1 << rng.randint(53, aw - 1)) + rng.choice([0, 1 << al, 3 << al])])
                        ala = rng.choice([None, 0, 2, 41, 50])
                    log.append(("add_resource", name, size, addr, ala))
                    s, e = m.add_resource(R(), name=name, size=size, addr=addr, alignment=ala)
                    eff = max(al, ala) if ala is not None else al
                    exp_start = addr if addr is not None else au(cursor, eff)
                    exp_size = au(max(size, 1), eff)
                    if (s, e - s) != (exp_start, exp_size):
                        problems.append(("placement", log[-1], (s, e), (exp_start, exp_start + exp_size), cursor)); break
                    if not (0 <= s < e <= 1 << aw) or any(not (e <= a or b <= s) for a, b in model):
                        problems.append(("bounds/overlap", log[-1], (s, e), list(model))); break
                    if frozen:
                        problems.append(("frozen map accepted", log[-1])); break
                    model.append((s, e)); cursor = e
                elif op == "win":
                    waw = rng.randint(1, aw)
                    w = MemoryMap(addr_width=waw, data_width=m.data_width, alignment=rng.choice([0, 1]))
                    if rng.random() < 0.5:
                        w.add_resource(R(), name=rng.choice(["a", "x", "y"]), size=1)
                    addr = rng.choice([None, None, 0, 2, 4, 8, 16, 3]); name = rng.choice([None, "w", "a", ("a", "b")])
                    log.append(("add_window", waw, name, addr))
                    s, e, r = m.add_window(w, addr=addr, name=name)
                    exp_start = addr if addr is not None else au(cursor, max(al, waw))
                    if (s, e - s, r) != (exp_start, au(1 << waw, max(al, waw)), 1):
                        problems.append(("window placement", log[-1], (s, e, r), exp_start, cursor)); break
                    if not (0 <= s < e <= 1 << aw) or any(not (e <= a or b <= s) for a, b in model):
                        problems.append(("bounds/overlap", log[-1], (s, e), list(model))); break
                    if frozen:
                        problems.append(("frozen map accepted", log[-1])); break
                    if not w._frozen:
                        problems.append(("window not frozen", log[-1])); break
                    model.append((s, e)); cursor = e
                elif op == "dwin":
                    # a DENSE window over a narrower map (ratio parent/child data width > 1): it occupies every address of the
                    # range it returns, odd ones included - later items at addresses that are not multiples of the ratio must
                    # still be refused when they fall inside it
                    lg = (m.data_width // 8).bit_length() - 1
                    waw = rng.randint(lg, aw + lg)
                    w = MemoryMap(addr_width=waw, data_width=8, alignment=rng.choice([lg, lg, lg + 1]))
                    if rng.random() < 0.5:
                        w.add_resource(R(), name=rng.choice(["a", "x", "y"]), size=1)
                    addr = rng.choice([None, None, 0, 1, 2, 3, 4, 5, 6, 8]); name = rng.choice([None, "w", "dw", ("a", "b")])
                    log.append(("add_window dense", waw, name, addr))
                    s, e, r = m.add_window(w, addr=addr, name=name, sparse=False)
                    if r != 1 << lg or (addr is not None and s != addr) or e - s < max((1 << waw) >> lg, 1):
                        problems.append(("dense window placement", log[-1], (s, e, r))); break
                    if not (0 <= s < e <= 1 << aw) or any(not (e <= a or b <= s) for a, b in model):
                        problems.append(("bounds/overlap", log[-1], (s, e), list(model))); break
                    if frozen:
                        problems.append(("frozen map accepted", log[-1])); break
                    model.append((s, e)); cursor = e
                elif op == "align":
                    a = rng.choice([0, 1, 2, 3, -1]) if not big else rng.choice([0, 2, 45, 53])
                    log.append(("align_to", a))
                    r = m.align_to(a); cursor = au(cursor, max(a, al))
                    if r != cursor:
                        problems.append(("align_to", log[-1], r, cursor)); break
                elif op == "freeze":
                    log.append(("freeze",)); m.freeze(); frozen = True
                else:
                    log.append(("add_resource(object())",))
                    m.add_resource(object(), name="z", size=1)
            except (ValueError, TypeError) as ex:
                after = snapshot(m)
                if before != after:
                    problems.append(("failed call changed reported contents", log[-1], str(ex)[:80])); break
                # the next implicit placement must be unchanged too: observe it on a twin built from the model
                probe = m.align_to(0)
                if probe != au(cursor, al):
                    problems.append(("failed call moved the placement cursor", log[-1], probe, au(cursor, al), log)); break
                cursor = probe
                continue
            except Exception as ex:
                # anything but the documented ValueError / TypeError raised from INSIDE the library (a failed internal assertion, an
                # IndexError ...) is an internal error, not a refusal: the request was neither placed nor refused as documented
                tb = ex.__traceback__
                while tb.tb_next is not None:
                    tb = tb.tb_next
                if "amaranth_soc" not in tb.tb_frame.f_code.co_filename:
                    raise
                problems.append(("internal error instead of a placement or a documented refusal", log[-1], f"{type(ex).__name__}: {ex}"[:80], log)); break
            rep = sorted([rg[:2] for _, _, rg in m.resources()] + [rg[:2] for _, _, rg in m.windows()])
            if rep != sorted(model):
                problems.append(("reporting", rep, sorted(model), log)); break
            starts = [rg[0] for _, _, rg in m.resources()]
            if starts != sorted(starts):
                problems.append(("resources() not ascending", starts)); break
        if len(problems) >= 3:
            break
    return problems


def run_trees(seed, trials):
    from amaranth_soc.memory import MemoryMap
    R = _R()
    rng = random.Random(seed)
    cnt = [0]
    pooled = [False]
    problems_early = []

    def gen(depth, aw, dw, leaf_align=0):
        m = MemoryMap(addr_width=aw, data_width=dw, alignment=leaf_align if depth == 0 else rng.choice([0, 0, 1]))
        exp = []
        for k in range(rng.randint(0, 4)):
            kind = rng.choice(["res", "res", "win"]) if depth > 0 else "res"
            try:
                if kind == "res":
                    # (in one tree out of three resource names come from a small pool: windows are then refused for name clashes,
                    #  also clashes with names a window absorbed from its own anonymous windows - a refusal must leave no trace)
                    r = R(); cnt[0] += 1; name = f"r{cnt[0]}" if not pooled[0] else rng.choice(["a", "b", "c", "d", "e", "f"])
                    s, e = m.add_resource(r, name=name, size=rng.choice([1, 1, 2, 3, 4, 0]),
                                          addr=rng.choice([None, None, None, rng.randrange(0, 1 << aw)]), alignment=rng.choice([None, None, 0, 1, 2]))
                    exp.append((r, (MemoryMap.Name(name),), s, e, dw))
                else:
                    mode = rng.choice(["same", "same", "sparse", "dense"])
                    if mode == "same" or dw == 8:
                        cw = rng.randint(1, aw); cm, cexp = gen(depth - 1, cw, dw); sparse = None
                    elif mode == "sparse":
                        cdw = rng.choice([d for d in (8, 16, 32) if d < dw]); cw = rng.randint(1, aw); cm, cexp = gen(depth - 1, cw, cdw); sparse = True
                    else:
                        cdw = rng.choice([d for d in (8, 16, 32) if d < dw]); ratio = dw // cdw; lg = ratio.bit_length() - 1
                        cw = rng.randint(lg + 1 if lg + 1 <= aw + lg else 1, aw + lg)
                        cm, cexp = gen(0, cw, cdw, leaf_align=rng.choice([max(lg - 1, 0), lg, lg, lg + 1, lg + 1])); sparse = False
                    cnt[0] += 1; wname = rng.choice([None, f"w{cnt[0]}"])
                    # a small resource first, so that dense windows can land on addresses that are not multiples of their size
                    s, e, r = m.add_window(cm, name=wname, sparse=sparse, addr=rng.choice([None, None, None, 0]))
                    for (res, path, cs, ce, cwid) in cexp:
                        p = path if wname is None else (MemoryMap.Name(wname),) + path
                        exp.append((res, p, s + cs // r, s + ce // r, cwid * r))
            except ValueError:
                pass
            except Exception as ex_:
                problems_early.append(("a call that should succeed or be refused with ValueError raised", type(ex_).__name__, str(ex_)[:80])); break
            # queries while the map is still being built (a map may be inspected at any time: nothing may be remembered from it)
            if rng.random() < 0.35:
                try:
                    list(m.all_resources()); list(m.resources()); list(m.windows())
                    m.decode_address(rng.randrange(0, 1 << aw))
                    if exp:
                        m.find_resource(exp[rng.randrange(len(exp))][0])
                except Exception as ex_:
                    problems_early.append(("query on a map under construction raised", type(ex_).__name__, str(ex_)[:80]))
        return m, exp
    problems = problems_early
    for t in range(trials):
        aw = rng.randint(2, 7); dw = rng.choice([8, 16, 32, 32, 24])      # 24: ratio 3 over 8-bit children (must be refused)
        pooled[0] = t % 3 == 2
        m, exp = gen(rng.randint(0, 3), aw, dw)
        exp.sort(key=lambda x: x[2])
        desc = f"seed={seed} trial={t} aw={aw} dw={dw}"
        try:
            got = [(i.resource, i.path, i.start, i.end, i.width) for i in m.all_resources()]
        except Exception as ex:
            problems.append(("all_resources raised", type(ex).__name__, str(ex)[:80], desc)); continue
        if [(id(a),) + tuple(b) for a, *b in got] != [(id(a),) + tuple(b) for a, *b in exp]:
            problems.append(("all_resources differs from address arithmetic", [(tuple(map(tuple, p)), s, e, w) for _, p, s, e, w in got],
                             [(tuple(map(tuple, p)), s, e, w) for _, p, s, e, w in exp], desc)); continue
        bad = False
        for (res, p, s, e, w) in exp:
            try:
                i = m.find_resource(res)
            except KeyError:
                problems.append(("find_resource raised KeyError for a resource that all_resources() reports", (tuple(map(tuple, p)), s, e, w), desc)); bad = True; break
            if (i.path, i.start, i.end, i.width) != (p, s, e, w):
                problems.append(("find_resource differs", (s, e, w), (i.start, i.end, i.width), desc)); bad = True; break
        try:
            m.find_resource(R()); problems.append(("find_resource of an unknown object did not raise", desc))
        except KeyError:
            pass
        if bad:
            continue
        for a in range(0, 1 << aw):
            d = m.decode_address(a)
            ex = [res for (res, p, s, e, w) in exp if s <= a < e]
            if (ex[0] if ex else None) is not d:
                problems.append(("decode_address differs from the reported ranges", a, [(s, e) for (_, _, s, e, _) in exp], desc)); break
        paths = [p for (_, p, _, _, _) in exp]
        if len(set(paths)) != len(paths):
            problems.append(("duplicate path", desc))
        if len(problems) >= 3:
            break
    return problems


def run_big_trees(seed, trials):
    """very wide maps (55..62 address bits) whose resources sit at addresses with bits above 2**53 AND low bits set, behind a
    same-width / sparse / dense window at a non-zero base: every translation must be exact integer arithmetic.  Addresses are
    sampled at the range boundaries (the space cannot be enumerated)."""
    from amaranth_soc.memory import MemoryMap
    R = _R()
    rng = random.Random(seed * 77 + 5)
    problems = []
    for t in range(trials):
        mode = ("same", "sparse", "dense")[t % 3]
        ldw = rng.choice([8, 16]); law = rng.randint(55, 62)
        ratio = 1 if mode == "same" else rng.choice([2, 4] if ldw == 8 else [2]); lg = ratio.bit_length() - 1
        lal = rng.choice([lg, lg + 1]) if mode == "dense" else rng.choice([0, 1])
        leaf = MemoryMap(addr_width=law, data_width=ldw, alignment=lal)
        lexp = []
        nres = rng.randint(1, 3)
        for k in range(nres):
            r = R()
            addr = ((k + 1) << (law - 3)) + (rng.choice([1, 2, 3, 5, (1 << 20) + 1]) << lal)
            size = rng.choice([1, 2, 3, 4] + ([(1 << 53) + 3] if k == nres - 1 else []))
            cs, ce = leaf.add_resource(r, name=f"b{k}", size=size, addr=addr)
            lexp.append((r, (MemoryMap.Name(f"b{k}"),), cs, ce, ldw))
        pdw = ldw * ratio
        paw = law + 2 - (lg if mode == "dense" else 0)
        top = MemoryMap(addr_width=paw, data_width=pdw, alignment=0)
        r0 = R(); s0, e0 = top.add_resource(r0, name="first", size=rng.choice([1, 3]))
        wname = rng.choice([None, "win"])
        desc = f"big seed={seed} trial={t} mode={mode} leaf aw={law} dw={ldw} align={lal} ratio={ratio} window name={wname}"
        try:
            s, e, r = top.add_window(leaf, name=wname, sparse=None if mode == "same" else mode == "sparse")
        except ValueError as ex:
            problems.append(("valid wide window refused", str(ex)[:120], desc)); continue
        exp = [(r0, (MemoryMap.Name("first"),), s0, e0, pdw)]
        for (res, path, cs, ce, cwid) in lexp:
            exp.append((res, path if wname is None else (MemoryMap.Name(wname),) + path, s + cs // r, s + ce // r, cwid * r))
        if r != (ratio if mode == "dense" else 1) or (mode != "dense" and s % (1 << law)) or e - s != (1 << law) // r:
            problems.append(("wide window placement", (s, e, r), desc)); continue
        got = [(i.resource, i.path, i.start, i.end, i.width) for i in top.all_resources()]
        if [(id(a),) + tuple(b) for a, *b in got] != [(id(a),) + tuple(b) for a, *b in exp]:
            problems.append(("all_resources differs from address arithmetic (wide map)", [(tuple(map(tuple, p)), hex(a), hex(b), w) for _, p, a, b, w in got],
                             [(tuple(map(tuple, p)), hex(a), hex(b), w) for _, p, a, b, w in exp], desc)); continue
        for (res, p_, a, b, w) in exp:
            i = top.find_resource(res)
            if (i.path, i.start, i.end, i.width) != (p_, a, b, w):
                problems.append(("find_resource differs (wide map)", (hex(a), hex(b), w), (hex(i.start), hex(i.end), i.width), desc)); break
            for addr in (a - 1, a, a + (b - a) // 2, b - 1, b):
                if not 0 <= addr < 1 << paw:
                    continue
                d = top.decode_address(addr)
                ex = [res2 for (res2, _, a2, b2, _) in exp if a2 <= addr < b2]
                if (ex[0] if ex else None) is not d:
                    problems.append(("decode_address differs from the reported ranges (wide map)", hex(addr), [(hex(a2), hex(b2)) for (_, _, a2, b2, _) in exp], desc)); break
        # small windows at high addresses with low bits set (window start has more than 53 significant bits): the pattern of
        # every window must spell exactly the window's address block
        paw2 = rng.randint(55, 63); dwp = rng.choice([8, 16, 32])
        top2 = MemoryMap(addr_width=paw2, data_width=dwp)
        lo = MemoryMap(addr_width=paw2 - 1, data_width=dwp); lo.add_resource(R(), name="x", size=1)
        top2.add_window(lo, name="lo")
        for k in range(rng.randint(2, 5)):
            wa = rng.randint(1, 3)
            sm = MemoryMap(addr_width=wa, data_width=dwp); sm.add_resource(R(), name="x", size=1)
            top2.add_window(sm, name=f"r{k}")
        for (w, name, (ws, we, wr)), (w2, name2, (pat, ratio2)) in zip(top2.windows(), top2.window_patterns()):
            want = format(ws >> w.addr_width, "b").zfill(paw2 - w.addr_width) + "-" * w.addr_width
            if w is not w2 or pat != want or ws % (1 << w.addr_width) or we - ws != 1 << w.addr_width:
                problems.append(("window pattern differs from the window's address block (wide map)", tuple(name), hex(ws), pat, want, desc)); break
        if len(problems) >= 3:
            break
    return problems


def run_handoffs():
    """'... once a map is frozen (explicitly, or by being used as a window or handed to a bridge or peripheral) every attempt to add a
    resource or window raises': each documented hand-off of a user's map, then add_resource / add_window on it"""
    from amaranth_soc import csr, gpio
    from amaranth_soc.memory import MemoryMap
    from amaranth_soc.csr import action
    from amaranth_soc.csr.wishbone import WishboneCSRBridge
    from amaranth_soc.wishbone.sram import WishboneSRAM
    from amaranth_soc import wishbone
    R = _R()
    problems = []

    def regmap():
        m = MemoryMap(addr_width=4, data_width=8)
        m.add_resource(csr.Register(csr.Field(action.RW, 8), access="rw"), name="a", size=1)
        m.add_resource(csr.Register(csr.Field(action.R, 12), access="r"), name="b", size=2)
        return m

    def must_be_frozen(m, how):
        before = snapshot(m)
        for what, call in (("add_resource", lambda: m.add_resource(R(), name="late_resource", size=1)),
                           ("add_window", lambda: m.add_window(MemoryMap(addr_width=1, data_width=m.data_width), name="late_window"))):
            try:
                call()
                problems.append((f"a map {how} still accepts {what}()",))
            except ValueError:
                pass
            except Exception as ex_:
                problems.append((f"a map {how}: {what}() raised", type(ex_).__name__))
        if snapshot(m) != before:
            problems.append((f"a map {how}: a refused call changed its reported contents",))
    m = regmap(); csr.Bridge(m); must_be_frozen(m, "handed to csr.Bridge")
    m = regmap(); m.freeze(); must_be_frozen(m, "frozen explicitly")
    w = regmap(); MemoryMap(addr_width=6, data_width=8).add_window(w, name="w"); must_be_frozen(w, "used as a window")
    b = csr.Interface(addr_width=4, data_width=8, path=("c",)); b.memory_map = regmap()
    WishboneCSRBridge(b, data_width=32); must_be_frozen(b.memory_map, "of a CSR bus handed to WishboneCSRBridge")
    d = csr.Decoder(addr_width=6, data_width=8); sb = csr.Interface(addr_width=4, data_width=8, path=("s",)); sb.memory_map = regmap()
    d.add(sb, name="sub"); must_be_frozen(sb.memory_map, "of a subordinate added to csr.Decoder")
    wd = wishbone.Decoder(addr_width=6, data_width=8); ws = wishbone.Interface(addr_width=3, data_width=8, path=("s",))
    ws.memory_map = MemoryMap(addr_width=3, data_width=8); wd.add(ws, name="sub"); must_be_frozen(ws.memory_map, "of a subordinate added to wishbone.Decoder")
    must_be_frozen(gpio.Peripheral(pin_count=2, addr_width=4, data_width=8).bus.memory_map, "of gpio.Peripheral")
    must_be_frozen(WishboneSRAM(size=16, data_width=32, granularity=8).wb_bus.memory_map, "of WishboneSRAM")
    bld = csr.Builder(addr_width=4, data_width=8); bld.add("r", csr.Register(csr.Field(action.RW, 8), access="rw"))
    must_be_frozen(bld.as_memory_map(), "returned by csr.Builder.as_memory_map()")
    return problems


def run_nested_anonymous():
    """directed (C03): anonymous windows nested 1-3 deep under an anonymous (or named) window.  The names a window absorbed from its own
    anonymous windows are visible in the parent: a clash with them must be refused with ValueError and leave all_resources() of the parent as
    it was; without a clash every resource is reported at the sum of the window bases with the path of the NAMED windows only."""
    from amaranth_soc.memory import MemoryMap
    R = _R()
    problems = []
    view = lambda m: [(id(i.resource), tuple(map(tuple, i.path)), i.start, i.end, i.width) for i in m.all_resources()]
    for depth in (1, 2, 3):
        for clash in (False, True):
            for top_named in (False, True):
                for res_first in (True, False):
                    root = MemoryMap(addr_width=10, data_width=8)
                    r_root = R()
                    exp = []
                    if res_first:
                        s, e = root.add_resource(r_root, name="ctrl", size=4); exp.append((id(r_root), (("ctrl",),), s, e, 8))
                    # innermost map holds "ctrl" (clash) or "data"; every level above adds one resource of its own and the level below as an anonymous window
                    inner_name = "ctrl" if clash else "data"
                    r_in = R()
                    cur = MemoryMap(addr_width=3, data_width=8); s, e = cur.add_resource(r_in, name=inner_name, size=4)
                    items = [(id(r_in), ((inner_name,),), s, e, 8)]
                    for lvl in range(depth):
                        up = MemoryMap(addr_width=4 + lvl, data_width=8)
                        r_up = R(); s, e = up.add_resource(r_up, name=f"status{lvl}", size=2)
                        ws, we, _ = up.add_window(cur)          # anonymous
                        items = [(id(r_up), ((f"status{lvl}",),), s, e, 8)] + [(i, p, ws + a, ws + b, w) for (i, p, a, b, w) in items]
                        cur = up
                    before = view(root)
                    desc = f"depth={depth} clash={clash} top_named={top_named} resource_first={res_first}"
                    try:
                        ws, we, _ = root.add_window(cur, name="top" if top_named else None)
                        pre = (("top",),) if top_named else ()
                        exp += [(i, pre + p, ws + a, ws + b, w) for (i, p, a, b, w) in items]
                        if clash and res_first and not top_named:
                            problems.append(("a window whose absorbed names clash with a visible name was accepted", desc)); continue
                        if not res_first:
                            s, e = root.add_resource(r_root, name="ctrl2", size=4); exp.append((id(r_root), (("ctrl2",),), s, e, 8))
                    except ValueError:
                        if not (clash and res_first and not top_named):
                            problems.append(("a window without a name clash was refused", desc)); continue
                        if view(root) != before:
                            problems.append(("a refused add_window changed what all_resources() reports", desc, view(root)[:6]))
                        continue
                    except Exception as ex:
                        problems.append(("add_window raised an internal error instead of placing the window or refusing it", type(ex).__name__, desc,
                                         "all_resources() afterwards: " + str(view(root)[:6])))
                        continue
                    if sorted(view(root), key=lambda x: x[2]) != sorted(exp, key=lambda x: x[2]) or view(root) != sorted(view(root), key=lambda x: x[2]):
                        problems.append(("all_resources differs from address arithmetic (nested anonymous windows)", desc, view(root)[:6], exp[:6]))
    return problems


def check_config(ctx, cfg):
    if cfg["kind"] == "history" and cfg["seed"] % 1000 == 0:
        hp = run_handoffs()
        ctx.results.append({"name": f"frozen_by_handoff@{ctx.key}", "clause": "frozen_by_handoff", "status": "discharged" if not hp else "failed", "time": 0.0,
                            "replay": {"confirmed": True, "how": "native: the hand-off, then add_resource / add_window on the real map", "detail": str(hp[:4])},
                            "cfg": cfg, "known_key": "frozen_by_handoff", "solver": "native evaluation"})
    if cfg["kind"] == "tree":
        extra = run_big_trees(cfg["seed"], max(3, cfg["trials"] // 20))
        if cfg["seed"] % 1000 == 0:
            extra += run_nested_anonymous()
    else:
        extra = []
    fn = run_history if cfg["kind"] == "history" else run_trees
    problems = extra + fn(cfg["seed"], cfg["trials"])
    clause = "bounded:history-vs-arithmetic-reference" if cfg["kind"] == "history" else "bounded:lookup-vs-address-arithmetic"
    ctx.results.append({"name": f"{clause}@{ctx.key}", "clause": clause, "status": "discharged" if not problems else "failed", "time": 0.0,
                        "replay": {"confirmed": True, "how": "native: random call histories / trees on the real MemoryMap vs plain arithmetic",
                                   "detail": str(problems[:2])[:1500]},
                        "cfg": cfg, "known_key": clause, "solver": "native evaluation"})
    ctx.nontrivial = True


def run_bounded(run, kind, tier, forced):
    """kind: 'history' (C02) | 'tree' (C03).  Runs in the thorough tier always; in the quick tier a small batch, larger when
    `forced` (some function was outside the pyvc subset on this tree)."""
    from ..hdl.harness import run_configs
    if tier == "thorough":
        n, trials = 32, 1500
    elif forced:
        n, trials = 16, 600
    else:
        n, trials = 16, 60
    cfgs = [{"kind": kind, "seed": run.seed * 1000 + i, "trials": trials} for i in range(n)]
    before = len(run.obligations)
    run_configs(run, __name__, cfgs)
    # bounded results are reported separately and never counted among the proof obligations
    mine = run.obligations[before:]
    del run.obligations[before:]
    run.extra.setdefault("bounded_runtime_contract", {})[kind] = {
        "cases": n * trials, "batches": n, "failed_batches": sum(1 for o in mine if o.status != "discharged"),
        "why": "thorough tier" if tier == "thorough" else ("fallback: a function is outside the pyvc subset on this tree" if forced else "quick smoke batch"),
        "label": "bounded stand-in, not counted as proved"}
    run.bounded_notes.append(f"{kind}: {n * trials} random cases vs arithmetic reference (bounded)")
