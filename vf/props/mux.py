"""csr.Multiplexer layouts shared by C04 (reads) and C05 (writes).

Registers are mock components exposing `element` (a user-defined register, public API), so element.r_data is a free
input that "changes every cycle" and element.r_stb/w_stb/w_data are observable outputs.
"""
import random
from ..hdl.harness import Refused
from . import csrtarget


def configs(tier, seed, salt):
    rng = random.Random(seed * 101 + salt)
    cfgs = [
        {"dw": 8, "aw": 4, "align": 0, "ov": None, "regs": [[8, "rw", None, None], [20, "rw", None, None], [16, "r", None, None]]},
        {"dw": 8, "aw": 5, "align": 0, "ov": None, "regs": [[8, "rw", 2, None], [16, "rw", 3, None], [32, "r", 5, None], [8, "w", 9, None]]},
        {"dw": 8, "aw": 5, "align": 0, "ov": 1, "regs": [[8, "rw", 1, None], [16, "rw", 4, None], [32, "rw", 8, None], [8, "w", 12, None]]},
        {"dw": 8, "aw": 5, "align": 2, "ov": 1, "regs": [[24, "rw", None, None], [8, "r", None, None], [40, "rw", None, None]]},
        {"dw": 32, "aw": 5, "align": 0, "ov": None, "regs": [[64, "rw", None, None], [8, "w", None, None], [100, "rw", None, None], [0, "rw", None, None]]},
        {"dw": 8, "aw": 4, "align": 0, "ov": None, "regs": [[8, "r", 0, None], [20, "rw", 1, None], [8, "rw", 4, None]]},      # unaligned 3-chunk register
        {"dw": 8, "aw": 4, "align": 0, "ov": None, "regs": [[8, "w", 0, None], [8, "rw", 1, None], [16, "rw", 2, None]]},     # a@0 / c@2 share a write chunk
        {"dw": 16, "aw": 3, "align": 0, "ov": 2, "regs": [[0, "rw", None, None], [1, "r", None, None], [15, "w", None, None], [17, "rw", None, None]]},
        {"dw": 8, "aw": 3, "align": 0, "ov": None, "regs": []},
        {"dw": 8, "aw": 5, "align": 0, "ov": 0, "regs": [[16, "rw", 0, None], [16, "rw", 2, None], [32, "rw", 4, None]]},     # aligned: limit 0 is satisfiable
    ]
    # registers spanning a NON-power-of-two number of chunks at starts where the shadow offsets wrap around
    # (offset < start, start not a multiple of the rounded size): the shapes csr.EventMonitor produces
    for dw_, start, chunks in [(8, 3, 3), (8, 5, 3), (8, 6, 3), (8, 7, 3), (8, 3, 5), (8, 9, 6), (8, 5, 7), (16, 3, 3), (8, 13, 3)]:
        w = dw_ * chunks - 3
        cfgs.append({"dw": dw_, "aw": 5, "align": 0, "ov": None,
                     "regs": [[dw_ * start if start <= 4 else dw_, "rw", 0, None], [w, "rw", start, None], [8, "r", start + chunks + 1, None]]})
        cfgs.append({"dw": dw_, "aw": 5, "align": 0, "ov": 1,
                     "regs": [[w, "rw", 0, None], [w, "rw", chunks, None], [w, "r", 2 * chunks, None]]})
    # sharing limits on layouts whose highest address is a power of two minus one / a power of two (the last doubling of the
    # shadow is needed): one register per address, limit 0 and 1
    for dw_, layout in [(8, [(8, "w", 0), (8, "w", 1), (8, "w", 2), (8, "r", 3)]), (8, [(8, "rw", 0), (8, "rw", 4)]),
                        (8, [(8, "rw", a) for a in range(5)]), (16, [(16, "r", 0), (16, "r", 1), (16, "rw", 2)])]:
        for ov in (0, 1):
            cfgs.append({"dw": dw_, "aw": 4, "align": 0, "ov": ov, "regs": [[w, acc, addr, None] for w, acc, addr in layout]})
    # many shadow chunks: every chunk count from 1 to 18 in one register and spread over several registers (the read-data fan-in
    # is a pairwise reduction: every shape of that tree), and many one-word registers
    for k in range(1, 19):
        cfgs.append({"dw": 8, "aw": 6, "align": 0, "ov": None, "regs": [[8 * k, "rw", None, None], [8, "r", None, None]]})
    for nregs in (5, 6, 7, 9, 11, 13, 14, 17):
        cfgs.append({"dw": 8, "aw": 6, "align": 0, "ov": None, "regs": [[8 if i % 3 else 12, "rw" if i % 2 else "r", None, None] for i in range(nregs)]})
    # registers at HIGH addresses (beyond 0x100, 0x400, 0x1000): address constants wider than a byte, Python ints outside the
    # small-int cache, long shadow-balancing recursions
    cfgs.append({"dw": 8, "aw": 10, "align": 0, "ov": None, "regs": [[8, "rw", 0, None], [16, "rw", 0xff, None], [16, "rw", 0x101, None],
                                                                   [24, "rw", 0x200, None], [8, "r", 0x2ff, None], [16, "rw", 0x3fe, None]]})
    cfgs.append({"dw": 8, "aw": 13, "align": 0, "ov": None, "regs": [[16, "rw", 0x100, None], [8, "w", 0x1000, None], [24, "rw", 0x1001, None],
                                                                   [8, "r", 0x1fff, None]]})
    cfgs.append({"dw": 16, "aw": 11, "align": 1, "ov": 1, "regs": [[16, "rw", 0x1fe, None], [32, "rw", 0x200, None], [48, "r", 0x7fc, None]]})
    # an unsatisfiable sharing limit at a high base address: refused with ValueError (after a bounded number of shadow doublings)
    cfgs.append({"dw": 8, "aw": 16, "align": 0, "ov": 0, "regs": [[8, "rw", 0x1000, None], [16, "rw", 0x1001, None]]})
    # padded register sizes that are NOT a power of two (5, 6, 9..11 words with alignment 1 / 2): a data word of one register
    # shares its shadow chunk with the alignment padding of the next one (the layouts csr.EventMonitor produces for 33+ events)
    for words, al in [(5, 1), (6, 1), (9, 1), (9, 2), (10, 2), (11, 1)]:
        cfgs.append({"dw": 8, "aw": 6, "align": al, "ov": None, "regs": [[8 * words, "rw", None, None], [8 * words, "rw", None, None]]})
    for c in list(cfgs):
        for ov in (None, 0, 1, 2):
            if c["regs"] and ov != c["ov"] and rng.random() < (0.5 if tier == "quick" else 1.0):
                cfgs.append(dict(c, ov=ov))
    # the same layouts reached by another legal route: the multiplexer is constructed (and possibly elaborated once) while
    # the memory map is still open, the last registers are added afterwards
    for k, c in enumerate(list(cfgs)):
        if len(c["regs"]) >= 2 and k % 5 == 0:
            cfgs.append(dict(c, late=1 + (k % 2) * (len(c["regs"]) > 2), elab_between=bool(k % 3 == 0)))
    n = 40 if tier == "quick" else 800
    for _ in range(n):
        dw = rng.choice([8, 8, 16, 32])
        aw = rng.randint(3, 6)
        align = rng.choice([0, 0, 0, 1, 2])
        regs = []
        nregs = rng.randint(1, 4 if tier == "quick" else 8)
        explicit = rng.random() < 0.4
        cursor = 0
        for i in range(nregs):
            w = rng.choice([0, 1, dw - 1, dw, dw + 1, 2 * dw, 3 * dw + 3])
            acc = rng.choice(["r", "w", "rw", "rw"])
            size = max(1, (w + dw - 1) // dw)
            al = rng.choice([None, None, None, 1, 2])
            if explicit:
                addr = cursor + rng.randint(0, 2)
                addr = (addr >> align) << align if align else addr
                if addr < cursor:
                    addr += 1 << align
                cursor = addr + size + (1 << (max(al or 0, align))) * 0
                cursor = addr + (((size + (1 << max(al or 0, align)) - 1) >> max(al or 0, align)) << max(al or 0, align))
                regs.append([w, acc, addr, al])
            else:
                regs.append([w, acc, None, al])
        cfgs.append({"dw": dw, "aw": aw, "align": align, "ov": rng.choice([None, None, 0, 1, 2]), "regs": regs})
    return cfgs


def build(cfg):
    from amaranth.lib import wiring
    from amaranth.lib.wiring import Out
    from amaranth_soc import csr
    from amaranth_soc.memory import MemoryMap

    class MockReg(wiring.Component):
        def __init__(self, width, access):
            super().__init__({"element": Out(csr.Element.Signature(width, access))})

    try:
        mm = MemoryMap(addr_width=cfg["aw"], data_width=cfg["dw"], alignment=cfg["align"])
        late = cfg.get("late", 0)          # registers added to the (still open) map AFTER the multiplexer was constructed
        mux = None
        for i, (w, acc, addr, al) in enumerate(cfg["regs"]):
            if mux is None and i == len(cfg["regs"]) - late:
                mux = csr.Multiplexer(mm, shadow_overlaps=cfg["ov"]) if (cfg["ov"] is not None or len(cfg["regs"]) % 2) else csr.Multiplexer(mm)   # documented default if cfg["ov"] is not None else csr.Multiplexer(mm)      # documented default
                if cfg.get("elab_between"):
                    from amaranth.hdl import Fragment
                    Fragment.get(mux, None)      # ... and after it was elaborated once
            r = MockReg(w, acc)
            size = (w + cfg["dw"] - 1) // cfg["dw"]
            mm.add_resource(r, name=f"r{i}", size=size, addr=addr, alignment=al)
        if mux is None:
            mux = csr.Multiplexer(mm, shadow_overlaps=cfg["ov"])
    except (ValueError, TypeError) as e:
        raise Refused(str(e))
    return mux


def must_accept(cfg):
    """When is a refusal by the multiplexer a violation?
    * no sharing limit (shadow_overlaps=None): every layout that the memory map itself accepts must give a working multiplexer;
    * with a limit L: the limit must not change observable behaviour (C05), so a layout may only be turned down when NO shadow
      size can honour the limit.  Reference, written from the docstring of _Shadow.decode_address (offset = upper bits of the
      register's start below the shadow size | lower bits of the address below the register's rounded size): if for some
      power-of-two shadow size up to 2**ceil_log2(highest end) every offset is used by at most max(L, 1) registers - the
      STRICTEST reading of "at most L registers share a chunk" - the multiplexer has no reason to refuse.
    A layout that does not fit the memory map is refused legitimately."""
    from amaranth.lib import wiring
    from amaranth_soc.memory import MemoryMap

    class R(wiring.Component):
        def __init__(self):
            super().__init__({})
    regs = []
    try:
        mm = MemoryMap(addr_width=cfg["aw"], data_width=cfg["dw"], alignment=cfg["align"])
        for i, (w, acc, addr, al) in enumerate(cfg["regs"]):
            s, e = mm.add_resource(R(), name=f"r{i}", size=(w + cfg["dw"] - 1) // cfg["dw"], addr=addr, alignment=al)
            regs.append((s, e, acc))
    except (ValueError, TypeError):
        return False
    if cfg["ov"] is None:
        return "multiplexer-without-sharing-limit"
    if not isinstance(cfg["ov"], int) or cfg["ov"] < 0:
        return False
    limit = max(cfg["ov"], 1)
    for side in ("r", "w"):
        ranges = [(s, e) for s, e, acc in regs if side in acc]
        if not ranges:
            continue
        top = max(e for s, e in ranges)
        ok = False
        size = 1
        while size <= 2 ** max(0, (top - 1).bit_length()):
            users = {}
            for s, e in ranges:
                rsize = 1 << max(0, (e - s - 1).bit_length())
                for a in range(s, e):
                    off = (s & (size - 1) & ~(rsize - 1)) | (a & (rsize - 1))
                    users.setdefault(off, set()).add(s)
            if all(len(u) <= limit for u in users.values()):
                ok = True
                break
            size *= 2
        if not ok:
            return False
    return "multiplexer-balanceable-within-the-sharing-limit"


def documented_layout(cfg):
    """the ranges the DOCUMENTED allocation rule gives this layout (C02's arithmetic: size rounded up to a multiple of the effective
    alignment - the last addresses of a padded register are padding chunks; implicit placement at the next aligned address)"""
    au = lambda v, a: -(-v // (1 << a)) * (1 << a)
    out, cursor = [], 0
    for (w, acc, addr, al) in cfg["regs"]:
        eff = max(cfg["align"], al or 0)
        span = au(max((w + cfg["dw"] - 1) // cfg["dw"], 1), eff)
        start = addr if addr is not None else au(cursor, eff)
        out.append((start, start + span)); cursor = start + span
    return sorted(out)


def netlist(ctx, cfg):
    mux = build(cfg)
    # the register list comes from the map (what software is told), not from the construction order above
    regs = csrtarget.regs_from_map(mux.bus.memory_map)
    # ... and the map pads registers as documented (C04/C05 quantify over "registers padded by alignment, where the last address is a
    # padding chunk": if the map stopped padding, every clause below would still hold on the layout it reports)
    got = sorted((R["start"], R["stop"]) for R in regs)
    want = documented_layout(cfg)
    ctx.results.append({"name": f"padding_as_documented@{ctx.key}", "clause": "padding_as_documented", "status": "discharged" if got == want else "failed", "time": 0.0,
                        "replay": {"confirmed": True, "how": "native: ranges reported by the memory map vs the documented allocation rule",
                                   "detail": f"memory map reports {got}, the documented rule gives {want}"},
                        "cfg": cfg, "known_key": "padding_as_documented", "solver": "native evaluation"})
    tie = [mux.bus.r_data]
    for R in regs:
        e = R["elem"]
        tie += [getattr(e, n) for n in ("r_stb", "w_stb", "w_data") if hasattr(e, n)]
    nl = ctx.netlist(mux, probes=csrtarget.elem_signals(regs), tie=tie)
    ctx.nontrivial = len(regs) >= 2 and nl.n_state_bits() >= 1
    return mux, regs, nl
