"""Statement-level contract of csr.Multiplexer.elaborate (contracts/mux_l1.py), shared by C04 (read side) and C05 (write side)."""
from ..pyvc.driver import discharge_all
from ..pyvc.engine import Unsupported
from ..common import BASE_ASSUMPTIONS_L1


def add_to(run, side):
    from contracts import mux_l1 as c
    key = "amaranth_soc.csr.bus.Multiplexer.elaborate [statements issued, any register layout]"
    try:
        fv = c.verify_mux_elaborate()
    except Unsupported as e:
        run.functions[key] = f"unsupported: {e} (the per-layout clauses decide)"
        run.bounded_notes.append(f"Multiplexer.elaborate: outside the pyvc subset on this tree ({e}); per-layout clauses decide")
        return
    run.functions[key] = f"proved ({fv.paths} paths, {len(fv.obs)} obligations): population, one arbitrary (chunk, register) pair of the read side and of the write side"
    P = "csr.bus.Multiplexer.elaborate::"
    if side == "read":
        run.require(P + "read-strobe-only-at-the-first-address", P + "read:nothing-else-per-register", P + "read:nothing-else-per-chunk",
                    P + "bus-read-data-is-any-selected-chunk", P + "read:default-precedes-the-register-cases")
    else:
        run.require(P + "write-strobe-only-at-the-last-address", P + "write:nothing-else-per-register", P + "write:nothing-else-per-chunk",
                    P + "register-word-driven-from-its-chunk")
    run.assumptions += [a for a in BASE_ASSUMPTIONS_L1 if a not in run.assumptions] + [
        "Multiplexer.elaborate contract: Amaranth objects are recording stubs (which statements are issued for one arbitrary register / chunk, "
        "under which Switch/Case/If, on which word of the element); Switch/Case, If, last-assignment-wins and word_select semantics are Amaranth's "
        "(assumed; the cycle-by-cycle consequences are proved per layout from the netlist by the hdlvc clauses)",
        "Multiplexer.elaborate contract: encode_offset(offset, range) is ASSUMED to return an address inside the range that decodes to the chunk "
        "(the shadow hash lemma: bit-vector proof for widths <= 15, shadow_l1); memory_map.decode_address(range.start) is the register of that "
        "range (C03 contract); resources() / chunks() / registers() enumerate what was added (loop contracts)",
        f"any_of(): pairwise OR checked natively on the extracted function for 0..64 terms - bounded stand-in ({getattr(fv, 'bounded_detail', '')})"]
    run.bounded_notes.append("any_of() reduction of Multiplexer.elaborate: native check of the extracted function on 0..64 terms (bounded)")
    discharge_all(run, fv.obs, timeout_ms=10000)
