"""window_patterns lemma shared by C06, C07 and C01 (contracts/patterns.py)."""
from ..pyvc.driver import discharge_all
from ..pyvc.engine import Unsupported


def add_to(run):
    from contracts import patterns as c
    try:
        fv = c.verify_window_patterns()
    except Unsupported as e:
        run.functions["amaranth_soc.memory.MemoryMap.window_patterns"] = f"unsupported: {e} (the per-configuration L2 clauses decide)"
        run.bounded_notes.append(f"window_patterns lemma: source outside the abstract-string subset on this tree ({e})")
        return
    run.functions["amaranth_soc.memory.MemoryMap.window_patterns"] = f"decided for all widths <= 15 (QF_BV + abstract strings, {len(fv.obs)} obligations): bounded in width"
    run.require("MemoryMap.window_patterns::pattern-matches-exactly-the-window")
    run.assumptions.append("window_patterns lemma: Case-pattern semantics of Amaranth assumed (digit matches bit, '-' matches anything, length must equal "
                           "the value's width); 32-bit evaluation exact for widths <= 15; domain: ratio-1 windows whose start is a multiple of their size")
    discharge_all(run, fv.obs, timeout_ms=60000)
    # the same loop body over mathematical integers: every address width
    try:
        fv2 = c.verify_window_patterns_all_widths()
    except Unsupported as e:
        run.functions["amaranth_soc.memory.MemoryMap.window_patterns [all widths]"] = f"unsupported: {e} (widths <= 15 by the bit-vector lemma; per-configuration clauses decide)"
        run.bounded_notes.append(f"window_patterns all-widths lemma: source outside the exact-integer subset on this tree ({e})")
        return
    run.functions["amaranth_soc.memory.MemoryMap.window_patterns [all widths]"] = \
        f"proved for every address width ({len(fv2.obs)} obligations, integers; pow2 by three ground instances of Lean lemmas pow2_pos / pow2_add)"
    run.require("MemoryMap.window_patterns[all widths]::pattern-matches-exactly-the-window")
    run.assumptions.append("window_patterns all-widths lemma: Python's >> / << / // on ints encoded as floor division / multiplication by 2**n over mathematical "
                           "integers; 2**n as an uninterpreted function with ground instances pow2(w) > 0, pow2(aw-w) > 0, pow2(aw) = pow2(w) * pow2(aw-w) "
                           "(Lean: Pow2.lean, Align.lean pow2_add); Case-pattern semantics assumed as for the bit-vector lemma; domain: ratio-1 windows at multiples of their size")
    discharge_all(run, fv2.obs, timeout_ms=30000)
