"""window_patterns lemma shared by C06, C07 and C01 (contracts/patterns.py)."""
from ..pyvc.driver import discharge_all
from ..pyvc.engine import Unsupported


def add_to(run):
    from contracts import patterns as c
    try:
        fv = c.verify_window_patterns()
    except Unsupported as e:
        run.functions["amaranth_soc.memory.MemoryMap.window_patterns"] = f"unsupported: {e} (the per-configuration L2 clauses decide)"
        run.bounded_notes.append(f"window_patterns lemma: source outside the abstract-string subset on this tree ({e})")
        return
    run.functions["amaranth_soc.memory.MemoryMap.window_patterns"] = f"decided for all widths <= 15 (QF_BV + abstract strings, {len(fv.obs)} obligations): bounded in width"
    run.require("MemoryMap.window_patterns::pattern-matches-exactly-the-window")
    run.assumptions.append("window_patterns lemma: Case-pattern semantics of Amaranth assumed (digit matches bit, '-' matches anything, length must equal "
                           "the value's width); 32-bit evaluation exact for widths <= 15; domain: ratio-1 windows whose start is a multiple of their size")
    discharge_all(run, fv.obs, timeout_ms=60000)
