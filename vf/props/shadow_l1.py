"""Shadow-hash lemma shared by C04 and C05 (contracts/shadow.py): QF_BV over the real source of decode_address/encode_offset."""
from ..pyvc.driver import discharge_all
from ..pyvc.engine import Unsupported


def add_to(run):
    from contracts import shadow as c
    obs = []
    for f in c.ALL:
        try:
            fv = f()
        except Unsupported as e:
            run.functions["amaranth_soc.csr.bus.Multiplexer._Shadow.decode_address/encode_offset"] = f"unsupported: {e} (the per-layout L2 clauses decide)"
            run.bounded_notes.append(f"shadow hash lemma: source outside the bit-vector subset on this tree ({e}); L2 layouts decide")
            return
        run.functions["amaranth_soc." + fv.qualname] = f"decided for all ranges/sizes/addresses below 2**15 (QF_BV, {len(fv.obs)} obligations): bounded in width"
        obs += fv.obs
    run.require("csr.bus.Multiplexer._Shadow.decode_address/encode_offset::round-trip:encode_offset(decode_address(a))==a")
    run.assumptions.append("shadow hash lemma: 32-bit two's-complement evaluation of the real source equals Python integers for addresses/sizes below 2**15 "
                           "(bound stated; exhaustive within); ceil_log2 as a ghost value with its defining inequalities")
    discharge_all(run, obs, timeout_ms=60000)


def add_population(run):
    """what prepare() records and which chunks it builds, for any set of register ranges (contracts/prepare_term.py)"""
    from contracts import prepare_term as c
    try:
        fv = c.verify_prepare_population()
    except Unsupported as e:
        run.functions["amaranth_soc.csr.bus.Multiplexer._Shadow.prepare (population)"] = f"unsupported: {e} (the per-layout L2 clauses decide)"
        run.bounded_notes.append(f"prepare() population contract: source outside the subset on this tree ({e}); L2 layouts decide")
        return
    run.functions["amaranth_soc." + fv.qualname] = (f"proved ({fv.paths} paths, {len(fv.obs)} obligations): every address of every register is recorded under the "
                                                    f"offset it decodes to, every recorded offset gets one chunk built from its registers")
    run.require("csr.bus.Multiplexer._Shadow.prepare[population]::an-address-that-is-not-given-up-on-is-recorded-once-under-the-offset-it-decodes-to",
                "csr.bus.Multiplexer._Shadow.prepare[population]::giving-up-sets-balanced-to-False-and-records-nothing",
                "csr.bus.Multiplexer._Shadow.prepare[population]::one-chunk-built-from-exactly-this-offset-and-these-registers",
                "csr.bus.Multiplexer._Shadow.prepare[population]::stored-under-that-offset")
    run.assumptions.append("prepare() population: defaultdict(list), sorted(), frozenset(), dict() are stubs (a table of lists by key; the sorted ranges are "
                           "the ranges); decode_address by its own contract (the hash lemma); the induction 'balanced at the end => every iteration "
                           "recorded' is on paper (balanced is only ever assigned False inside the loops: clause per iteration)")
    obs = list(fv.obs)
    try:
        fa = c.verify_chunk_access()
        run.functions["amaranth_soc." + fa.qualname] = f"proved ({fa.paths} paths, {len(fa.obs)} obligations): elaborate() sees exactly the chunks and register lists prepare() built"
        run.require("csr.bus.Multiplexer._Shadow.chunks / Chunk.__init__ / Chunk.registers::chunks():each-item-yielded-once-as-(offset, chunk)",
                    "csr.bus.Multiplexer._Shadow.chunks / Chunk.__init__ / Chunk.registers::Chunk.registers():yields-from-exactly-the-kept-tuple")
        obs += fa.obs
    except Unsupported as e:
        run.bounded_notes.append(f"chunk accessors: outside the subset on this tree ({e}); L2 layouts decide")
    discharge_all(run, obs, timeout_ms=20000)


def add_termination(run):
    from contracts import prepare_term as c
    try:
        fv = c.verify_prepare_terminates()
    except Unsupported as e:
        run.functions["amaranth_soc.csr.bus.Multiplexer._Shadow.prepare (termination)"] = f"unsupported: {e} (the wall-clock/recursion guard decides)"
        run.bounded_notes.append(f"prepare() termination measure: source outside the subset on this tree ({e})")
        return
    run.functions["amaranth_soc." + fv.qualname + " (termination)"] = f"proved: measure max(0, B - size) decreases at the only recursive call ({len(fv.obs)} obligations)"
    run.require("csr.bus.Multiplexer._Shadow.prepare::measure-strictly-decreases")
    discharge_all(run, fv.obs, timeout_ms=20000)
