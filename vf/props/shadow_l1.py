def add_to(run):
    pass


def add_termination(run):
    pass
